#!/usr/bin/env python3
"""Regenerates /verif/MANIFEST.json from the table below (kept in one place so the
manifest stays valid while checks are being added)."""
import json, subprocess, os
HERE = os.path.dirname(os.path.dirname(os.path.abspath(__file__)))

def hook_commits():
    out = subprocess.run(["git", "-C", "/repo", "log", "--format=%H %s"], capture_output=True, text=True).stdout
    return [l.split()[0] for l in out.splitlines() if " verif-hooks:" in " " + l.split(" ", 1)[1]]

CHECKS = {
  "C01": (True, "exploration",
          "proptest-driven generated (pattern, flags, pattern-directed haystack) cases; differential oracle = regex crate applied per line; metamorphic fast-path vs slow-path vs reader vs CLI",
          "Tens of thousands of generated pattern sets with all flag combinations of the property and haystacks sampled from each pattern's language (then mutated, with CR/NUL/invalid UTF-8/empty/unterminated lines) are searched four ways in-process plus a sample through the real rg binary; each line's verdict is compared with the regex crate run on that line alone. Random exploration with shrinking; no exhaustiveness claim.",
          "Shares the regex engine with ripgrep (trusted: matching one small haystack); haystack anchors excluded as the property says; CRLF lines with a bare CR only asserted when both readings agree; one known finding rooted in regex-automata is tolerated by exact signature.",
          "DESIGN.md section 3 C01"),
  # id: (implemented, category, technique, level text, level note, design ref)
  "C02": (True, "exploration",
          "proptest-driven generated cases; metamorphic relation across strategies (slice reference vs reader fragmentations/capacities/heap limits/file/mmap/multi-line request), slice run additionally checked against the LineModel",
          "Tens of thousands of generated (matcher, configuration, input) cases; each compares the complete event stream and final byte count of search_slice with 4-8 other strategies: fragmented readers with hook-set buffer capacities down to 0/1 byte, the smallest sufficient heap limit found by bisection, search_path with and without mmap, inputs crossing the 64 KiB default buffer, and all of it again with multi_line(true) requested. Random exploration with shrinking.",
          "Needs the verif-hooks capacity hook to make the buffer roll on small inputs; Interrupted reads are exercised in C16, not here. A third of the cases first run another search on the same Searcher (as ripgrep does for every file after the first).",
          "DESIGN.md section 3 C02"),
  "C04": (True, "exploration",
          "proptest-driven generated git repositories; differential oracle = git itself (git ls-files --others --exclude-standard and git check-ignore --no-index)",
          "3 000 generated repositories (30 000 thorough): trees with dots, dashes, upper case, glob-looking names and names ending in '.', 1-4 .gitignore files at different depths over the gitignore grammar (literals, *, ?, classes, ** in its legal positions, anchoring, directory-only, negation, escapes, comments, trailing blanks), optionally case-insensitive; rg --files is compared in both directions with git's untracked-file listing under five root spellings and -j1/-j2, and Gitignore::matched_path_or_any_parents with git check-ignore for every path and ancestor. Random exploration with bounded shrinking.",
          "git 2.39 is the executable specification; git behaviours that contradict its own documentation (x**/y, core.ignorecase with \\A / [A]) are excluded from the generator and listed as assumptions; two known findings about bracket classes matching '/' are tolerated by exact explanation probes.",
          "DESIGN.md section 3 C04"),
  "C05": (True, "exploration",
          "proptest-driven generated trees with conflicting rule sources and flag sets; reference model of the documented filter precedence (FilterModel) vs rg --files",
          "20 000 generated trees (200 000 thorough) carrying subsets of the seven rule sources at any depth including above the search root and the cwd, with forced conflicts between sources, .git present or absent, all --no-ignore-* / -u / --hidden / --no-require-git / -t / -T / --max-depth combinations and several root spellings; the listed files are compared in both directions with a from-scratch model of the documented order. All 21 ordered source pairs are contested in every run. Random exploration with shrinking.",
          "The FilterModel is a reading of the documentation; combinations the documentation leaves undefined (anchored --ignore-file rules with absolute roots, anchored global rules, roots with ..) are rejected and counted; one known finding (parent ignore files see a re-based path) is tolerated only when an exact emulation of that defect reproduces the observed output.",
          "DESIGN.md section 3 C05"),
  "C06": (True, "exploration",
          "proptest-driven generated trees and walker configurations; three-way differential: serial walker vs parallel walker vs an independent recursive lister",
          "4 000 generated trees (40 000 thorough) with empty directories, deep chains, wide fan-out, symlinks to files / directories / cycles / nowhere, several roots including file and symlink roots, part of the tree on a second device (/dev/shm), under combinations of max_depth, max_filesize, follow_links, same_file_system, an entry filter, hidden and ignore rules; each walked serially and with two parallel thread counts from 1..16 and compared as multisets of (path, depth, is_dir) with a from-scratch lister; link cycles must give a Loop error and termination (entry budget + watchdog). Random exploration with shrinking.",
          "The DirLister encodes the WalkBuilder documentation; a few documented asymmetries (symlinked root file type, optional Loop errors for filtered links) are normalised; schedule-dependent behaviour of the parallel walker is C07's subject.",
          "DESIGN.md section 3 C06"),
  "C07": (True, "exploration",
          "schedule exploration with the harness owning the thread schedule: real worker threads serialized at hooked synchronisation points by a controller driven by generated choice vectors / PCT priorities, plus exhaustive enumeration of all schedules up to a preemption bound; history invariants (exactly-once visits, no duplicates after quit) and a clock-free livelock rule confirmed by a free run",
          "2 500 random and PCT schedules (40 000 thorough) of the real WalkParallel with 2-4 workers over 12 tree shapes and random small trees, visitor Quit injected at generated visit indices, plus every schedule with at most 2 preemptions (3 thorough) on four minimal configurations (~1 500 schedules). Each hooked operation (push, pop, steal, counter decrement/increment, quit flag read/write, idle, start, exit) is an atomic step; exactly one worker runs at a time, so a schedule is reproducible from its choice vector.",
          "Interleavings inside crossbeam-deque and weak-memory effects are not explored; non-termination is reported only when every live worker is idle with no unseen push AND the threads are still running after being released for 2 s; needs the verif-hooks yield points in ignore::walk.",
          "DESIGN.md section 3 C07"),
  "C08": (True, "exploration",
          "proptest-driven generated trees/modes; metamorphic relation between rg -j1 and rg -jN under perturbed timing (size spread, sleeping --pre script, repeats); --sort compared byte for byte",
          "240 permutation cases x 3 thread counts x 3 repeats and 60 sorted cases (~2 700 multi-threaded runs; ~90 000 thorough), every other repeat with a second rg binary that has the walker's yield hooks compiled in and sleeps pseudo-randomly at its synchronisation points (VERIF_YIELD_JITTER), a quarter of the trees being deep directory chains: the -jN output must consist of exactly the -j1 per-file blocks, each once, contiguous and byte-identical, with separators exactly between blocks and the same exit status, in standard/heading/context/count/-l/--json/--files modes; --sort path output identical to -j1 and across repeats. The evidence counts how many distinct block orders were actually observed.",
          "The OS picks the interleaving: this is perturbed random exploration, the claim is only 'no violation in N perturbed runs'; binary files behind a --pre pipe are excluded (cut-off depends on pipe read sizes, see C14).",
          "DESIGN.md section 3 C08"),
  "C09": (True, "exploration",
          "proptest-driven generated (pattern, input, flag set) cases; the real binary's stdout is parsed by a grammar derived from the flags and every record checked against the file bytes (round-trip), columns/submatches against the per-line regex oracle",
          "15 000 generated cases (200 000 thorough) over -n -b --column --vimgrep -H/-I --heading --null -A -B --json -U --crlf -v -i, mmap on/off, inputs with invalid UTF-8, multi-byte characters, very long lines (up to 75 KB), CRLF and missing final newline: every printed body must be a line of the file byte for byte with its own line number / offset, column = first match start (all matches for --vimgrep), separators exactly between non-adjacent lines; JSON decoded lines/submatches must reproduce the file bytes, text vs base64 by UTF-8 validity in both directions, begin (match|context)* end. Random exploration with shrinking.",
          "Line selection itself is C01/C03; under -U the column is asserted only for the first line of a block (--vimgrep -U: the column must lie inside the printed line and a match of the real matcher must start there); columns under -v are excluded (undocumented); two known shapes (CRLF re-termination; the C10 trailing-empty-match shape) are tolerated / excluded by exact signature.",
          "DESIGN.md section 3 C09"),
  "C10": (True, "exploration",
          "proptest-driven generated trees/patterns/flags; metamorphic relations between nine reporting modes of the real rg binary",
          "Thousands of generated (tree, pattern, flags) cases, a third with patterns that match the empty string; each runs the real binary under standard, -c, --count-matches, -o, -l, --files-without-match, -q, --json and --stats and checks the documented pairwise relations per file and in total (counts, submatches, partitions of the searched files, exit status, stats sums). Random exploration with shrinking.",
          "Documented mode normalisations are part of the relation (-v --count-matches = --count; under -U --count may equal --count-matches; -o not compared under -v; under -U on the multi-line printing path -o lines are compared with the non-empty line pieces of the JSON submatches); two known findings (empty match at the end of an unterminated last line; multi-line -o has no record for empty / terminator-only matches) tolerated by exact shape.",
          "DESIGN.md section 3 C10"),
  "C11": (True, "exploration",
          "exhaustive small-grammar pattern enumeration + random patterns + repository pattern corpus; per pattern an automata-product search generates a witness line iff one exists, and the witness is executed against the real matcher (concrete oracle)",
          "Every pattern AST up to 4 nodes (5 thorough) over 9 leaves x LF/CRLF/NUL x plain/-i/-w/-x, every AST up to 6 nodes (7 thorough) of a literal-extraction grammar x plain/-w, every concatenation of up to 5 (6 thorough) tokens incl. capturing groups under -w, ~900 pattern-like literals from the repository, and thousands of random larger patterns. For each accepted pattern the compiled HIR (hook) becomes a dense DFA; BFS over the DFA / DFA products decides over ALL terminator-free byte strings whether a match can contain a terminator or a declared non-matching byte, whether a matching line exists that contains none of the extracted inner literals, and whether the pattern differs from its unterminated build; found witnesses are confirmed by find_at / is_match / find_candidate_line. Exact per pattern (ASCII for Unicode word boundaries); patterns are enumerated to a bound and sampled beyond.",
          "regex-automata's DFA construction is trusted only as a witness generator (a wrong DFA can lose witnesses, never raise an alarm); needs the verif-hooks HIR/literal accessors; one known finding (NUL terminator vs line anchors) tolerated by exact signature.",
          "DESIGN.md section 3 C11"),
  "C12": (True, "exploration",
          "exhaustive path sweep (all paths over {a,b,.,/,-,A} up to length 6) per generated glob set for set-vs-member consistency; proptest-driven (glob, path) pairs against an independent backtracking glob model",
          "1000 generated glob sets (10 000 thorough) x all 55 986 paths (335 922 thorough): GlobSet::matches must equal the set of member globs that match individually, for every path; plus 100k (glob, path) pairs and 40k random sets with long / non-UTF-8 / newline paths checked against a from-scratch matcher of the documented syntax. Paths exhaustive to the bound per set; sets sampled.",
          "The GlobModel encodes the crate documentation; shapes the documentation is silent on (leading '/', '//', classes vs '/', bytes >= 0x80 that may belong to a valid UTF-8 sequence under ?/negated classes) are excluded from the meaning oracle only and counted; bytes that occur in no valid UTF-8 sequence are one unit under every reading and are decided.",
          "DESIGN.md section 3 C12"),
  "C13": (True, "exploration",
          "proptest-driven generated multi-line patterns and inputs; oracle = matches enumerated with Matcher::find_at over the whole input mapped to lines + LineModel",
          "Tens of thousands of generated -U patterns (templates around \\n plus grammar-generated ones forced to cross line boundaries) on inputs assembled from strings of the pattern's language; the delivered match blocks, context, numbering and offsets are compared with an independent enumeration of the matches over the whole input, with and without -v, context, CRLF/NUL, under slice, reader, file and mmap strategies. Random exploration with shrinking.",
          "Trusts RegexMatcher::find_at on the whole input; where ripgrep's advance rule and the regex crate's iterator rule give different line sets either is accepted; one known finding (inverted mode restarts at the line block end) is tolerated by exact signature.",
          "DESIGN.md section 3 C13"),
  "C14": (True, "exploration",
          "proptest-driven generated inputs with NUL bytes at targeted offsets; invariants over the event stream at library level, validity predicates + differential against --text at CLI level",
          "20 000 library cases (quit/convert detection under slice, fragmented readers with hook capacities, file, mmap; inputs up to ~200 KB with NULs at the first/last byte, inside/after lines, around 64 KiB and 128 KiB +-3): binary_data at most once with a real NUL offset, finish agrees, quit mode delivers no NUL byte and only a prefix of the detection-off results; 3 000 CLI cases (traversal / explicit / stdin x default / --binary x mmap on/off x context): stdout never contains NUL, printed lines are a prefix of the --text lines, warning after a cut, at most one notice and last, silence only if nothing matches, exit status. Random exploration with shrinking.",
          "Patterns are restricted to a NUL-indifferent set so that 'a line matches' means the same before and after NUL conversion; --null / --null-data / --json are outside the stdout NUL scan.",
          "DESIGN.md section 3 C14"),
  "C15": (True, "fault_enumeration",
          "fault enumeration at the CLI: generated trees x injected faults (mode-000 files/dirs as uid 65534, dangling symlinks, missing paths, read errors, files removed or truncated between listing and opening via a verif-hooks build of rg, invalid arguments) x 7 modes x -j1/-j4, and stdout closed after every k bytes; decision-table oracle + differential against a fault-free run",
          "3 000 fault cases (60 000 thorough; a fifth of them with --no-messages) with both matching and faulty entries populated in every cell of the (match x fault x mode x threads) table, compared with the exit-status decision table, per-file diagnostics on stderr and a fault-free reference run on the tree minus the faulty entries; ~400 invalid-argument combinations x search target (directory, one file, two files, stdin; status 2, empty stdout); 600 vanish cases (12 000 thorough: 2-7 files, each removed or emptied right before it is opened; other files' results unchanged, one diagnostic per removed file, status from the table); closed-pipe runs (a quarter of them through --pre cat) for every k up to 320 bytes (4 KiB thorough) and buffer-boundary k for outputs up to 400 KiB (status 0, no diagnostic, termination).",
          "Files removed or truncated between listing and opening are injected by the hook build (VERIF_FAULT_BEFORE_OPEN), a file shrinking while it is being read is not reached; closed pipe combined with a per-file fault is left unasserted (the property gives no rule); a watchdog expiry is inconclusive unless a second, longer run confirms it.",
          "DESIGN.md section 3 C15"),
  "C16": (True, "fault_enumeration",
          "fault enumeration over one generated run: sink stop and sink error at every event index, reader error and Interrupted at every read index; oracle = prefix of the uninterrupted event log",
          "For each of tens of thousands of generated searches every event index (begin, match, context, break, binary notice) is used once as a stop point and once as an error point, and every read index once as an I/O error and once as Interrupted; delivered events must be exactly the prefix, finish exactly once after a stop and never after an error, the error returned; plus 4 000 CLI cases of rg -m N -A a -B b (standard and JSON) that must print exactly the first N matching lines and the context they are entitled to. Complete over the fault points of each explored run; runs themselves are sampled.",
          "An Interrupted read that some layer retries (search completes with full results) is accepted as well as one surfaced as an error: the property fixes the prefix/finish/error contract, not which layer retries.",
          "DESIGN.md section 3 C16"),
  "C17": (True, "exploration",
          "proptest-driven generated texts/encodings/read fragmentations; differential oracle = encoding_rs one-shot decoding, then the same search on the UTF-8 bytes",
          "25 000 generated cases (250 000 thorough): texts with BMP/astral characters, lone surrogates, odd byte counts, malformed double-byte sequences, encoded as UTF-16LE/BE/UTF-8 with BOM or searched with an explicit label, BOM vs conflicting label, --encoding none; each searched under slice, fragmented readers (splitting code units and surrogate pairs, crossing the 8 KiB transcoding buffer), file and mmap, and compared event by event with the search of the one-shot transcoding; plus a CLI sample. Random exploration with shrinking.",
          "Trusts encoding_rs's one-shot decode as the meaning of 'its UTF-8 transcoding'; four known findings rooted in encoding_rs_io / encoding_rs are tolerated by exact predicted deviation.",
          "DESIGN.md section 3 C17"),
  "C18": (True, "fault_enumeration",
          "fault enumeration at the CLI: generated preprocessor scripts / real and fake decompressors with injected stderr volume, exit status and exit point; differential oracle = rg on the bytes the command writes, plus an error decision table",
          "A fixed grid of 132 stderr-flood cases (70 KB / 2 MiB before, during, after stdout x exit points x status x -m1) and 2 500 generated trees (24 000 thorough) with --pre, --pre-glob, -z on real gzip/bzip2/xz/lzma archives valid and truncated, missing tools, commands that cannot start, early stops by -m1/-l/-q/binary detection: stdout must equal rg on the command's own output per file, errors must name the file and give exit 2 exactly where the table requires, floods must not block.",
          "The overlap 'rg stopped early AND the command failed with stderr output' is left unasserted (the property gives no rule); timing-dependent shapes are asserted only when the early stop is certain; a watchdog expiry counts only when a second run confirms it.",
          "DESIGN.md section 3 C18"),
  "C19": (True, "exploration",
          "proptest-driven generated (pattern with groups, template, haystack) cases; differential oracle = regex crate Captures::expand / Regex::replace_all per matching line",
          "20 000 interpolate cases (~48 000 pattern/template pairs) comparing the in-repo interpolation and replace_with_captures with the regex library, plus 5 000 in-process printer cases (-r with -o, -U, --crlf, --column, -v with context, reader strategies) and a CLI sample, each compared line by line with replace_all of the original line. Random exploration with shrinking (x20 in the thorough tier).",
          "Shares the regex engine for matching; -U with -v and a few undocumented framings are excluded and counted; four known findings (braced reference charset, terminator of replaced lines x2, empty match at the end of an unterminated last line) tolerated by exact shape.",
          "DESIGN.md section 3 C19"),
  "C03": (True, "exploration",
          "exhaustive small-scope enumeration + proptest-driven random cases against a reference model (LineModel)",
          "Every input of up to 5 lines over a 5-symbol line alphabet and every match bitmap up to 9 lines (quick; 7/11 thorough), times the full product of context sizes 0..3, invert, passthru, stop-on-nonmatch, line numbers, LF/CRLF/NUL, 4 matcher kinds and 5 strategies is compared event by event with an independent grep model; plus thousands of random larger cases, and 3 000 cases in which the real binary's stdout (rg -n -b -A a -B b, -v, --passthru, --stop-on-nonmatch, --crlf, --null-data, mmap/stdin) must be byte-identical to the model's rendering. Bounded-exhaustive, not a proof.",
          "Trusts the LineModel (harness/src/model.rs) as the reading of the grep model; context kind labels are validated, not compared.",
          "DESIGN.md section 3 C03"),
}

NOT_YET = "check not implemented yet in this revision of /verif (planned, see DESIGN.md)"

def main():
    props = [json.loads(l) for l in open(os.path.join(HERE, "properties.jsonl"))]
    checks, na = [], []
    for p in props:
        pid = p["id"]
        c = CHECKS.get(pid)
        if not c or not c[0]:
            na.append({"property_id": pid, "reason": NOT_YET})
            continue
        _, cat, tech, text, note, ref = c
        checks.append({
            "property_id": pid,
            "quick_cmd": f"./check {pid} quick",
            "thorough_cmd": f"./check {pid} thorough",
            "evidence_file": f"/verif/evidence/{pid}.json",
            "replay_cmd_template": "./check replay {path}",
            "engine": "vcheck",
            "level_claimed": {"category": cat, "text": text, "design_ref": ref},
            "level_note": note,
            "technique": tech,
        })
    m = {
        "version": 1,
        "setup_cmd": "./check --build-only",
        "hooks": {
            "guard": "cargo feature verif-hooks (crates grep-searcher, grep-regex, ignore; root package ripgrep: verif-hooks = [\"ignore/verif-hooks\"] plus the fault-before-open hook in crates/core/search.rs)",
            "enable": "the harness crate /verif/harness depends on /repo/crates/{searcher,regex,ignore} by path with features = [\"verif-hooks\"]; the rg binary used by CLI-level checks is built without the feature; a second binary (target/rg-jitter) is built with --features verif-hooks and used only for C08's timing jitter (VERIF_YIELD_JITTER) and C15's files vanishing between listing and opening (VERIF_FAULT_BEFORE_OPEN)",
            "baseline_off_cmd": "cd /repo && cargo test --workspace --no-fail-fast --offline",
            "source_commits": hook_commits(),
            "add_only": True,
        },
        "engines": [
            {"name": "vcheck", "path": "/verif/harness", "serves_properties": [c["property_id"] for c in checks],
             "kind_free_text": "Rust harness: proptest-driven choice tapes (seeded by VERIF_SEED, shrinking, replay files), small-scope exhaustive enumerators, reference models and differential oracles; libFuzzer targets under /verif/fuzz reuse the same generators in the thorough tier"},
        ],
        "checks": checks,
        "not_applicable": na,
        "notes": "Exit codes: 0 held, 1 VIOLATION, 2 inconclusive. Known findings: /verif/known_findings.json. Regression corpus: /verif/replays/<ID>/ (replayed first by every run).",
    }
    json.dump(m, open(os.path.join(HERE, "MANIFEST.json"), "w"), indent=1)
    print("MANIFEST.json:", len(checks), "checks,", len(na), "not_applicable")

main()
