#!/bin/sh
# Usage: tools/run_all.sh [tier] — run every registered check once, print one line each.
T="${1:-quick}"
cd /verif
for id in $(python3 -c "import json; print(' '.join(c['property_id'] for c in json.load(open('MANIFEST.json'))['checks']))"); do
  s=$(date +%s)
  out=$(./check $id $T 2>&1); rc=$?
  e=$(date +%s)
  echo "$id rc=$rc $((e-s))s $(echo "$out" | grep -a "$id $T:" | tail -1 | cut -c1-160)"
  echo "$out" | grep -a -E "^VIOLATION|^INCONCLUSIVE" | head -3
done
