#!/usr/bin/env python3
"""Scan the repository's tests and sources for string literals that look like search patterns
(first argument position cannot be decided syntactically, so: every literal of 1..60 chars that
contains at least one regex-ish or letter character and no newline escape is kept; the check
itself sorts them into accepted / rejected by the real builder)."""
import re, glob, sys
files = glob.glob('/repo/tests/*.rs') + glob.glob('/repo/crates/regex/src/*.rs') + glob.glob('/repo/crates/searcher/src/**/*.rs', recursive=True) + glob.glob('/repo/crates/printer/src/*.rs') + glob.glob('/repo/crates/matcher/tests/*.rs')
lit = re.compile(r'r#"(.*?)"#|r"([^"\n]*)"|"((?:[^"\\\n]|\\.)*)"')
out = set()
for f in files:
    src = open(f, encoding='utf-8', errors='replace').read()
    for m in lit.finditer(src):
        if m.group(1) is not None: s = m.group(1)
        elif m.group(2) is not None: s = m.group(2)
        else:
            s = m.group(3)
            try: s = bytes(s, 'utf-8').decode('unicode_escape') if '\\' in s and not re.search(r'\\[pPwWdDsSbBAzx{u]', s) else s.replace('\\\\', '\\').replace('\\"', '"')
            except Exception: continue
        if not (1 <= len(s) <= 60): continue
        if '\n' in s or '\t' in s: continue
        if not re.search(r'[A-Za-z\\.\[\(\*\+\?\^\$]', s): continue
        if s.startswith('-') or s.startswith('/') or ' ' in s and len(s.split()) > 4: continue
        out.add(s)
open('/verif/harness/corpus/repo_patterns.txt', 'w').write('\n'.join(sorted(out)) + '\n')
print(len(out), 'patterns')
