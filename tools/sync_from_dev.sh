#!/bin/sh
# Usage: tools/sync_from_dev.sh [work-name]   (default: dev)
# Copies harness sources edited in the isolated scratch copy /tmp/work-<name> (tools/mkwork.sh) back into
# /verif/harness. Only changed files are copied and their mtime is set to now: cargo decides by mtime, and a
# file edited in the scratch copy before the last /verif build would otherwise be taken as already built.
N="${1:-dev}"; W="/tmp/work-$N/harness"
[ -d "$W/src" ] || { echo "no $W"; exit 2; }
cd "$W" && find src corpus -type f | while read f; do
  if ! cmp -s "$f" "/verif/harness/$f"; then mkdir -p "$(dirname /verif/harness/$f)"; cp "$f" "/verif/harness/$f"; touch "/verif/harness/$f"; echo "synced $f"; fi
done
