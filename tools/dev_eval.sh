#!/bin/sh
# Usage: tools/dev_eval.sh <patch.diff> <check-id>...   (needs tools/mkwork.sh dev)
# Runs quick checks of the scratch harness /tmp/work-dev/harness against /tmp/work-dev/repo + patch,
# i.e. without touching /repo or /verif (usable while other runs build from /repo). Reverts afterwards.
set -u
P="$1"; shift
W=/tmp/work-${DEV_NAME:-dev}
cd $W/repo || exit 2
git diff --quiet || { echo "$W/repo dirty; refusing"; exit 3; }
# (the binaries are rebuilt from the reverted tree on the way out: a later run must not meet a patched rg)
trap 'cd $W/repo && git checkout -- . && ( CARGO_PROFILE_DEV_OPT_LEVEL=1 CARGO_TARGET_DIR=$W/rgtarget cargo build --offline --bin rg; CARGO_PROFILE_DEV_OPT_LEVEL=1 CARGO_TARGET_DIR=$W/rgjtarget cargo build --offline --bin rg --features verif-hooks; cd $W/harness && CARGO_TARGET_DIR=$W/target cargo build --offline ) >/dev/null 2>&1' EXIT INT TERM
git apply "$P" || { echo "patch does not apply"; exit 3; }
export CARGO_NET_OFFLINE=true
( CARGO_PROFILE_DEV_OPT_LEVEL=1 CARGO_TARGET_DIR=$W/rgtarget cargo build --offline --bin rg && CARGO_PROFILE_DEV_OPT_LEVEL=1 CARGO_TARGET_DIR=$W/rgjtarget cargo build --offline --bin rg --features verif-hooks ) >/tmp/dev_eval_build.log 2>&1 || { tail -20 /tmp/dev_eval_build.log; exit 2; }
. $W/env.sh
export VERIF_RG_JITTER=$W/rgjtarget/debug/rg
( cd $W/harness && cargo build --offline ) >>/tmp/dev_eval_build.log 2>&1 || { tail -20 /tmp/dev_eval_build.log; exit 2; }
for c in "$@"; do
  s=$(date +%s); out=$($W/target/debug/vcheck run $c quick 2>&1); rc=$?; e=$(date +%s)
  echo "   $c rc=$rc $((e-s))s $(echo "$out" | grep -a -E '^VIOLATION|^INCONCLUSIVE' | head -1 | cut -c1-160)"
  echo "$out" | grep -a -A6 "^--- failure" | head -9 | cut -c1-260 | sed 's/^/      /'
done
