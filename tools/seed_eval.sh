#!/bin/sh
# Usage: tools/seed_eval.sh <PROP-ID> [worktree] [check-ids...]
# Confirms a seeded change produced by an independent agent and runs our checks against it:
#  1. demo fails with the change, passes without it (in the agent's worktree)
#  2. the existing test suite passes with the change (in the worktree)
#  3. ./check <ids> quick on /repo with the patch applied (reverted afterwards)
# SEED_PHASE=A runs only steps 1-2 (safe to run for several worktrees in parallel), SEED_PHASE=B only step 3.
set -u
ID="$1"; WT="${2:-/tmp/seed-$(echo $ID | tr A-Z a-z)}"; shift; [ $# -gt 0 ] && shift
CHECKS="${*:-$ID}"
D="$WT/seed_demo"
[ -f "$D/patch.diff" ] || { echo "no patch.diff in $D"; exit 3; }
RUN="$D/demo.sh"; [ -f "$RUN" ] || RUN="$D/run.sh"
SH=sh; head -1 "$RUN" | grep -q bash && SH=bash
PHASE="${SEED_PHASE:-AB}"
case "$PHASE" in *A*)
echo "== [$ID] demo WITH change"
( cd "$WT" && git diff --quiet && git apply "$D/patch.diff" ) 2>/dev/null
( cd "$WT" && timeout 1800 $SH "$RUN" >"$D/with.log" 2>&1 ); W=$?
echo "   exit=$W"
echo "== [$ID] existing tests WITH change"
# (own TMPDIR: the integration tests create /tmp/ripgrep-tests/<name>/<counter>, which collides between parallel runs)
mkdir -p "/tmp/seedtmp-$ID"
( cd "$WT" && TMPDIR="/tmp/seedtmp-$ID" timeout 3000 cargo test --workspace --offline --no-fail-fast >"$D/tests.log" 2>&1 ); T=$?
rm -rf "/tmp/seedtmp-$ID"
grep -E "^test result" "$D/tests.log" | awk '{p+=$4; f+=$6} END{print "   passed",p,"failed",f}'
echo "   cargo test exit=$T"
echo "== [$ID] demo WITHOUT change"
( cd "$WT" && git diff -- . ':!seed_demo' > "$D/applied.diff" && git checkout -- . )
( cd "$WT" && timeout 1800 $SH "$RUN" >"$D/without.log" 2>&1 ); O=$?
echo "   exit=$O"
( cd "$WT" && git apply "$D/patch.diff" )
echo "PHASEA $ID demo_with=$W demo_without=$O tests_exit=$T" | tee "$D/phaseA.txt"
;; esac
case "$PHASE" in *B*) ;; *) exit 0;; esac
[ -f "$D/phaseA.txt" ] && cat "$D/phaseA.txt"
echo "== [$ID] our checks on /repo + patch: $CHECKS"
git -C /repo diff --quiet || { echo "/repo dirty; refusing"; exit 3; }
trap 'git -C /repo checkout -- .; git -C /verif checkout -- evidence 2>/dev/null' EXIT INT TERM
git -C /repo apply "$D/patch.diff" || { echo "patch does not apply to /repo"; exit 3; }
for c in $CHECKS; do
  s=$(date +%s); out=$(/verif/check $c quick 2>&1); rc=$?; e=$(date +%s)
  git -C /repo diff --quiet && echo "   WARNING: /repo no longer carries the patch after this check (something reverted it): the result below is void"
  echo "   $c rc=$rc $((e-s))s $(echo "$out" | grep -a -E "^VIOLATION|^INCONCLUSIVE" | head -2 | cut -c1-200)"
  echo "$out" | grep -a -A6 "^--- failure" | head -12 | cut -c1-300 | sed 's/^/      /'
done
echo "SUMMARY $ID demo_with=${W:-see-phaseA} demo_without=${O:-see-phaseA} tests_exit=${T:-see-phaseA}"
