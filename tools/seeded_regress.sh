#!/bin/sh
# Usage: tools/seeded_regress.sh [seed-dir-name...]
# Re-runs, for every kept seeded change (seeded/<name>/patch.diff), the quick check named first in its
# meta.json "caught_by" on /repo + patch and reports whether the change is (still) caught (rc=1).
# /repo is reverted and evidence/ restored after every seed, also on interruption.
set -u
cd /verif
git -C /repo diff --quiet || { echo "/repo dirty; refusing"; exit 3; }
trap 'git -C /repo checkout -- .; git -C /verif checkout -- evidence 2>/dev/null' EXIT INT TERM
NAMES="${*:-$(ls seeded)}"
ok=0; bad=0
for n in $NAMES; do
  d="seeded/$n"
  [ -f "$d/patch.diff" ] || continue
  id=$(python3 - "$d/meta.json" <<'PY'
import json,re,sys
m=json.load(open(sys.argv[1]))
x=re.search(r'C\d\d', m.get('caught_by',''))
print(x.group(0) if x else m['property'])
PY
)
  git -C /repo apply "/verif/$d/patch.diff" || { echo "$n: patch does not apply"; bad=$((bad+1)); continue; }
  s=$(date +%s); out=$(./check $id quick 2>&1); rc=$?; e=$(date +%s)
  git -C /repo diff --quiet && echo "$n: WARNING /repo no longer carried the patch after the check (something reverted it): result void"
  git -C /repo checkout -- .
  if [ $rc -eq 1 ]; then ok=$((ok+1)); r=caught; else bad=$((bad+1)); r="NOT-CAUGHT(rc=$rc)"; fi
  echo "$n $id $r $((e-s))s $(echo "$out" | grep -a -E '^VIOLATION|^INCONCLUSIVE' | head -1 | cut -c1-120)"
done
echo "seeded_regress: caught=$ok not_caught=$bad"
[ $bad -eq 0 ]
