#!/bin/sh
# Usage: tools/seed_sweep.sh "<seeds>" [ids...] — quick tier of every check under several seeds; restores evidence afterwards.
SEEDS="$1"; shift
IDS="${*:-$(python3 -c "import json; print(' '.join(c['property_id'] for c in json.load(open('/verif/MANIFEST.json'))['checks']))")}"
cd /verif
for s in $SEEDS; do
  for id in $IDS; do
    out=$(VERIF_SEED=$s ./check $id quick 2>&1); rc=$?
    echo "seed=$s $id rc=$rc $(echo "$out" | grep -a "$id quick:" | tail -1 | cut -c1-140)"
    if [ $rc -ne 0 ]; then echo "$out" | grep -a -E "^VIOLATION|^INCONCLUSIVE" | head -3; echo "$out" | grep -a -A8 "^--- failure" | head -12 | cut -c1-400; fi
  done
done
git -C /verif checkout -- evidence
