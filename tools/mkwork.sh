#!/bin/sh
# Usage: tools/mkwork.sh <name>
# Creates an isolated scratch copy under /tmp/work-<name>: a git worktree of /repo (HEAD), a copy of the
# harness pointing at it, own target dirs, own VERIF_ROOT. Prints the environment to use.
set -eu
N="$1"; W="/tmp/work-$N"
rm -rf "$W"; mkdir -p "$W/verif"
git -C /repo worktree prune
git -C /repo worktree add -f --detach "$W/repo" HEAD >/dev/null 2>&1
cp -r /verif/harness "$W/harness"
rm -rf "$W/harness/.cargo"; mkdir -p "$W/harness/.cargo"
printf '[net]\noffline = true\n' > "$W/harness/.cargo/config.toml"
sed -i "s#/repo/crates#$W/repo/crates#g" "$W/harness/Cargo.toml"
cp /verif/known_findings.json "$W/verif/"; cp -r /verif/replays "$W/verif/" 2>/dev/null || true
cat > "$W/env.sh" <<EOT
export CARGO_NET_OFFLINE=true
export CARGO_TARGET_DIR=$W/target
export VERIF_ROOT=$W/verif
export VERIF_RG=$W/rgtarget/debug/rg
# build harness:  (cd $W/harness && cargo build --offline)
# build rg:       (cd $W/repo && CARGO_TARGET_DIR=$W/rgtarget cargo build --offline --bin rg)
# run a check:    $W/target/debug/vcheck run <ID> quick
EOT
echo "created $W; source $W/env.sh"
