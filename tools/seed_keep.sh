#!/bin/sh
# Usage: tools/seed_keep.sh <PROP-ID> <name> <worktree> "<needs>" "<caught-by>" "<what-we-ran>"
set -eu
ID="$1"; NAME="$2"; WT="$3"; NEEDS="$4"; CAUGHT="$5"; RAN="$6"
D="/verif/seeded/$ID-$NAME"; mkdir -p "$D"
cp "$WT/seed_demo/patch.diff" "$D/patch.diff"
mkdir -p "$D/demo"; (cd "$WT/seed_demo" && for f in *; do case "$f" in target|*.log|applied.diff) ;; *) cp -r "$f" "$D/demo/";; esac; done)
rm -rf "$D/demo/target"
python3 - "$ID" "$NAME" "$NEEDS" "$CAUGHT" "$RAN" "$D" <<'PY'
import json,sys
pid,name,needs,caught,ran,d=sys.argv[1:7]
json.dump({"property":pid,"name":name,"breaks":pid,"needs_to_manifest":needs,"caught_by":caught,"what_we_ran":ran,
 "origin":"independent sub-agent given only the property text and a scratch worktree (nothing from /verif)"},open(d+"/meta.json","w"),indent=1)
PY
echo "kept $D"
