#!/bin/sh
# Usage: tools/seeded_regress_dev.sh [seed-dir-name...]      (needs tools/mkwork.sh dev)
# Like tools/seeded_regress.sh, but on the scratch copy: applies every kept seeded change to
# /tmp/work-dev/repo (a worktree of /repo at the same commit) and runs the quick check named first in its
# meta.json with the scratch harness /tmp/work-dev/harness (keep it in step with /verif/harness:
# tools/sync_from_dev.sh). Neither /repo nor /verif is touched, so it can run next to a `vp run` chain.
set -u
W=/tmp/work-dev
cd $W/repo || exit 2
git diff --quiet || { echo "$W/repo dirty; refusing"; exit 3; }
[ "$(git rev-parse HEAD)" = "$(git -C /repo rev-parse HEAD)" ] || { echo "$W/repo is not at /repo's HEAD"; exit 3; }
for f in $(cd /verif/harness && find src -type f); do cmp -s "/verif/harness/$f" "$W/harness/$f" || { echo "scratch harness differs from /verif/harness in $f"; exit 3; }; done
export CARGO_NET_OFFLINE=true
build() { ( cd $W/repo && CARGO_PROFILE_DEV_OPT_LEVEL=1 CARGO_TARGET_DIR=$W/rgtarget cargo build --offline --bin rg && CARGO_PROFILE_DEV_OPT_LEVEL=1 CARGO_TARGET_DIR=$W/rgjtarget cargo build --offline --bin rg --features verif-hooks && cd $W/harness && CARGO_TARGET_DIR=$W/target cargo build --offline ) >/tmp/seeded_regress_dev_build.log 2>&1; }
trap 'cd $W/repo && git checkout -- . && build' EXIT INT TERM
. $W/env.sh
export VERIF_RG_JITTER=$W/rgjtarget/debug/rg
NAMES="${*:-$(ls /verif/seeded)}"
ok=0; bad=0
for n in $NAMES; do
  d="/verif/seeded/$n"
  [ -f "$d/patch.diff" ] || continue
  id=$(python3 - "$d/meta.json" <<'PY'
import json,re,sys
m=json.load(open(sys.argv[1]))
x=re.search(r'C\d\d', m.get('caught_by',''))
print(x.group(0) if x else m['property'])
PY
)
  cd $W/repo
  git apply "$d/patch.diff" || { echo "$n: patch does not apply"; bad=$((bad+1)); continue; }
  if ! build; then echo "$n: build failed"; tail -5 /tmp/seeded_regress_dev_build.log; git checkout -- .; bad=$((bad+1)); continue; fi
  s=$(date +%s); out=$($W/target/debug/vcheck run $id quick 2>&1); rc=$?; e=$(date +%s)
  git diff --quiet && echo "$n: WARNING the scratch repository no longer carried the patch after the check: result void"
  git checkout -- .
  if [ $rc -eq 1 ]; then ok=$((ok+1)); r=caught; else bad=$((bad+1)); r="NOT-CAUGHT(rc=$rc)"; fi
  echo "$n $id $r $((e-s))s $(echo "$out" | grep -a -E '^VIOLATION|^INCONCLUSIVE' | head -1 | cut -c1-120)"
done
echo "seeded_regress_dev: caught=$ok not_caught=$bad"
[ $bad -eq 0 ]
