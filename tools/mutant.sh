#!/bin/sh
# Usage: tools/mutant.sh <patch.diff> <ID> [tier]   — apply a patch to /repo, run the check, revert (always).
set -u
P="$1"; ID="$2"; T="${3:-quick}"
git -C /repo diff --quiet || { echo "/repo has uncommitted changes; refusing"; exit 3; }
trap 'git -C /repo checkout -- .; git -C /verif checkout -- evidence 2>/dev/null' EXIT INT TERM
git -C /repo apply "$P" || { echo "patch does not apply"; exit 3; }
/verif/check "$ID" "$T" 2>&1 | grep -a -E "VIOLATION|INCONCLUSIVE|violations=|^--- failure" | cut -c1-300
