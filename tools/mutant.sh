#!/bin/sh
# Usage: tools/mutant.sh <patch.diff> <ID> [tier]   — apply a patch to /repo, run the check, revert.
set -u
P="$1"; ID="$2"; T="${3:-quick}"
git -C /repo apply "$P" || { echo "patch does not apply"; exit 3; }
/verif/check "$ID" "$T" 2>&1 | grep -a -E "VIOLATION|INCONCLUSIVE|violations=|^--- failure" | cut -c1-300
git -C /repo checkout -- .
