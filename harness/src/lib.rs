pub mod bs;
pub mod mat;
pub mod model;
pub mod props;
pub mod runner;
pub mod sea;
pub mod tape;
