//! C19 — replacement output equals the regex library's replace-all of each
//! matching line.
//!
//! Two subchecks:
//! * `interpolate`: `grep_matcher::Captures::interpolate` (through a
//!   `grep_regex::RegexMatcher`) versus `regex::bytes::Captures::expand`,
//!   per match, plus `Matcher::replace_with_captures` versus
//!   `Regex::replace_all` on the whole haystack.
//! * `printer`: `grep_printer::Standard` with a replacement, driven by a
//!   `grep_searcher::Searcher`, versus the regex crate applied to every line
//!   (block, in multi-line mode) the searcher reports.

use std::panic::{catch_unwind, AssertUnwindSafe};

use grep_matcher::{Captures as _, Matcher};
use grep_printer::StandardBuilder;
use grep_regex::RegexMatcher;
use serde::{Deserialize, Serialize};
use termcolor::NoColor;

use crate::bs::Bs;
use crate::cli::{Rg, TempDir};
use crate::gen::{self, GroupKind, Re, ReOpts};
use crate::mat::{CaseMode, PatCfg};
use crate::model;
use crate::oracle::{self, LineOracle, OracleErr};
use crate::runner::{Fail, Info, PropCtx, Verdict};
use crate::sea::{self, ChunkReader, Event, SCfg, Strat, Term};
use crate::tape::Tape;

// ---------------------------------------------------------------------------
// Template grammar helpers (classification only; the oracle is the library)
// ---------------------------------------------------------------------------

fn is_cap_letter(b: u8) -> bool {
    b.is_ascii_alphanumeric() || b == b'_'
}

#[derive(Clone, Debug, PartialEq, Eq)]
pub enum RefKind {
    Num(usize),
    Name(String),
}

#[derive(Clone, Debug)]
pub struct TRef {
    pub kind: RefKind,
    pub braced: bool,
    /// braced reference whose content is empty or has a byte outside
    /// `[0-9A-Za-z_]`
    pub nonident: bool,
}

fn mk_ref(name: &str, braced: bool, nonident: bool) -> TRef {
    let kind = match name.parse::<usize>() {
        Ok(n) => RefKind::Num(n),
        Err(_) => RefKind::Name(name.to_string()),
    };
    TRef { kind, braced, nonident }
}

/// The references of a template as regex 1.10 (`regex-automata`
/// `util::interpolate`) reads them. Only used to classify cases.
pub fn scan_refs(tpl: &[u8]) -> Vec<TRef> {
    let mut out = vec![];
    let mut i = 0;
    while i < tpl.len() {
        if tpl[i] != b'$' {
            i += 1;
            continue;
        }
        match tpl.get(i + 1) {
            Some(b'$') => i += 2,
            Some(b'{') => {
                let start = i + 2;
                match tpl[start..].iter().position(|b| *b == b'}') {
                    Some(k) => match std::str::from_utf8(&tpl[start..start + k]) {
                        Ok(name) => {
                            let nonident = name.is_empty() || !name.bytes().all(is_cap_letter);
                            out.push(mk_ref(name, true, nonident));
                            i = start + k + 1;
                        }
                        Err(_) => i += 1,
                    },
                    None => i += 1,
                }
            }
            Some(_) => {
                let start = i + 1;
                let mut e = start;
                while e < tpl.len() && is_cap_letter(tpl[e]) {
                    e += 1;
                }
                if e == start {
                    i += 1;
                } else {
                    out.push(mk_ref(std::str::from_utf8(&tpl[start..e]).unwrap(), false, false));
                    i = e;
                }
            }
            None => i += 1,
        }
    }
    out
}

/// Rewrite every braced reference the library accepts but whose name is
/// empty or not `[0-9A-Za-z_]+` into literal text (`${X}` -> `$${X}`),
/// walking the template the way the in-repo port does. The library's
/// expansion of the result is what an implementation that restricts braced
/// names to identifier bytes prints. Used (a) to classify the known
/// braced-name divergence precisely, (b) to keep that shape out of the
/// printer subcheck while the divergence exists.
pub fn sanitize_braced(tpl: &[u8]) -> Vec<u8> {
    let mut out = Vec::with_capacity(tpl.len() + 4);
    let mut i = 0;
    while i < tpl.len() {
        if tpl[i] != b'$' {
            out.push(tpl[i]);
            i += 1;
            continue;
        }
        match tpl.get(i + 1) {
            Some(b'$') => {
                out.extend_from_slice(b"$$");
                i += 2;
            }
            Some(b'{') => {
                let start = i + 2;
                let close = tpl[start..].iter().position(|b| *b == b'}');
                let lib_ref = close.map_or(false, |k| std::str::from_utf8(&tpl[start..start + k]).is_ok());
                let ident = close.map_or(false, |k| k > 0 && tpl[start..start + k].iter().all(|b| is_cap_letter(*b)));
                if lib_ref && ident {
                    let k = close.unwrap();
                    out.extend_from_slice(&tpl[i..start + k + 1]);
                    i = start + k + 1;
                } else if lib_ref {
                    out.extend_from_slice(b"$$");
                    i += 1;
                } else {
                    out.push(b'$');
                    i += 1;
                }
            }
            _ => {
                out.push(b'$');
                i += 1;
            }
        }
    }
    out
}

const T_LITS: &[&[u8]] = &[
    b"a", b"b", b" ", b"-", b".", b"_", b"0", b"1", b"x", "é".as_bytes(), b"[", b"]", b"{", b"}", b"|", b":", "☃".as_bytes(), b"\\", b"(", b"\xFF",
    b"\t",
];
const T_UNKNOWN_NAMES: &[&str] = &["nope", "x", "n1", "_"];
const T_WEIRD_BRACED: &[&[u8]] = &[
    b"${}", b"${ }", b"${a b}", b"${+1}", b"${-1}", "${é}".as_bytes(), b"${\xFF}", b"${1a}", b"${a$1}", b"${01}", b"${ 1}", b"${a.b}", b"${a[0]}",
    b"${n.}", b"${$1}", b"${1 }",
];
const T_STRAY: &[&[u8]] = &[b"$", b"$ ", b"$-", b"${", b"${1", b"${a", b"$}", b"$.", "$é".as_bytes()];
const T_ADJ: &[&[u8]] = &[b"a", b"_", b"0", b"Z"];

fn gen_num(t: &mut Tape, ngroups: usize) -> String {
    match t.weighted(&[6, 3, 3, 2]) {
        0 => t.below(4).to_string(),
        1 => ngroups.saturating_sub(1).to_string(),
        2 => ngroups.to_string(),
        _ => t.pick(&["9", "10", "99", "007", "4294967295", "4294967296", "4294967297", "18446744073709551616"]).to_string(),
    }
}

/// A replacement template over the reference grammar. `names` are the
/// pattern's group names. `full == false` keeps braced names to
/// `[0-9A-Za-z_]+` (see `sanitize_braced`).
pub fn gen_template(t: &mut Tape, names: &[String], ngroups: usize, full: bool, allow_nl: bool) -> Vec<u8> {
    let n = 1 + t.small(6);
    let mut v: Vec<u8> = vec![];
    let ident_names: Vec<&String> = names.iter().filter(|n| n.bytes().all(is_cap_letter)).collect();
    for _ in 0..n {
        let mut is_ref = true;
        match t.weighted(&[4, 5, 4, 3, 4, 1, 1, 2]) {
            0 => {
                is_ref = false;
                let k = 1 + t.small(2);
                for _ in 0..k {
                    v.extend_from_slice(*t.pick(T_LITS));
                }
                if allow_nl && t.chance(1, 6) {
                    v.push(b'\n');
                }
            }
            1 => {
                v.push(b'$');
                v.extend_from_slice(gen_num(t, ngroups).as_bytes());
            }
            2 => {
                v.extend_from_slice(b"${");
                v.extend_from_slice(gen_num(t, ngroups).as_bytes());
                v.push(b'}');
            }
            3 => {
                v.push(b'$');
                if !ident_names.is_empty() && !t.chance(1, 4) {
                    v.extend_from_slice(t.pick(&ident_names).as_bytes());
                } else if !names.is_empty() && t.chance(1, 2) {
                    // `$a.b`: the unbraced form stops at the first non-identifier byte
                    v.extend_from_slice(t.pick(names).as_bytes());
                } else {
                    v.extend_from_slice(t.pick(T_UNKNOWN_NAMES).as_bytes());
                }
            }
            4 => {
                v.extend_from_slice(b"${");
                if !names.is_empty() && !t.chance(1, 4) {
                    v.extend_from_slice(t.pick(names).as_bytes());
                } else {
                    v.extend_from_slice(t.pick(T_UNKNOWN_NAMES).as_bytes());
                }
                v.push(b'}');
            }
            5 => {
                is_ref = false;
                v.extend_from_slice(b"$$");
            }
            6 => {
                is_ref = false;
                v.extend_from_slice(*t.pick(T_STRAY));
            }
            _ => {
                is_ref = false;
                v.extend_from_slice(*t.pick(T_WEIRD_BRACED));
            }
        }
        if is_ref && t.chance(1, 4) {
            v.extend_from_slice(*t.pick(T_ADJ));
        }
    }
    if !full {
        v = sanitize_braced(&v);
    }
    v
}

// ---------------------------------------------------------------------------
// Patterns with capture groups
// ---------------------------------------------------------------------------

const NAMES: &[&str] = &["n", "a1", "a_b", "a.b", "a[0]", "Z", "_x", "w.1]"];

fn cap(t: &mut Tape, inner: Re) -> Re {
    let kind = if t.chance(1, 3) { GroupKind::Named(t.pick(NAMES).to_string()) } else { GroupKind::Cap };
    Re::Group(kind, Box::new(inner))
}

/// A pattern that has capture groups most of the time: optional, nested,
/// named, alternated and empty-matching groups around `gen_re` pieces.
pub fn gen_cap_re(t: &mut Tape, o: &ReOpts) -> Re {
    let mut small = *o;
    small.max_nodes = 4;
    let shape = t.weighted(&[3, 2, 2, 2, 2, 2, 2, 2, 2]);
    if shape == 0 {
        return gen::gen_re(t, o);
    }
    let a = gen::gen_re(t, &small);
    let b = gen::gen_re(t, &small);
    match shape {
        1 => {
            let (ca, cb) = (cap(t, a), cap(t, b));
            Re::Cat(vec![ca, Re::Rep(Box::new(cb), "?".into())])
        }
        2 => {
            let (ca, cb) = (cap(t, a), cap(t, b));
            Re::Alt(vec![ca, cb])
        }
        3 => {
            let c = gen::gen_re(t, &small);
            let (ca, cc) = (cap(t, a), cap(t, c));
            Re::Cat(vec![ca, b, Re::Rep(Box::new(cc), "?".into())])
        }
        4 => {
            let ca = cap(t, a);
            let outer = cap(t, Re::Alt(vec![ca, b]));
            Re::Rep(Box::new(outer), t.pick(&["+", "*", "{1,2}"]).to_string())
        }
        5 => {
            let ca = cap(t, Re::Rep(Box::new(a), "*".into()));
            let cb = cap(t, b);
            Re::Cat(vec![ca, cb])
        }
        6 => {
            let ca = cap(t, a);
            Re::Cat(vec![Re::Rep(Box::new(ca), "?".into()), b])
        }
        7 => {
            let c = gen::gen_re(t, &small);
            let (ca, cb) = (cap(t, a), cap(t, b));
            Re::Cat(vec![Re::Group(GroupKind::NonCap, Box::new(Re::Alt(vec![ca, cb]))), c])
        }
        _ => {
            let ca = cap(t, a);
            let cb = cap(t, Re::Rep(Box::new(b), "?".into()));
            cap(t, Re::Cat(vec![ca, cb]))
        }
    }
}

fn group_names(re: &regex::bytes::Regex) -> Vec<String> {
    re.capture_names().flatten().map(|s| s.to_string()).collect()
}

/// Does this tree's interpolation already agree with the library on braced
/// names such as `${a.b}`? (Decides whether the printer subcheck generates
/// them; the `interpolate` subcheck always does.)
pub fn braced_names_follow_library() -> bool {
    let Ok(m) = PatCfg::simple("(?P<a.b>x)", Term::Lf).build() else { return false };
    let Ok(mut caps) = m.new_captures() else { return false };
    if !m.captures(b"x", &mut caps).unwrap_or(false) {
        return false;
    }
    let mut dst = vec![];
    caps.interpolate(|n| m.capture_index(n), b"x", b"${a.b}|${}", &mut dst);
    dst == b"x|"
}

// ---------------------------------------------------------------------------
// Subcheck (a): interpolate vs expand
// ---------------------------------------------------------------------------

#[derive(Clone, Debug, Serialize, Deserialize)]
pub struct ICase {
    pub pattern: String,
    pub case_insensitive: bool,
    pub unicode: bool,
    pub hay: Bs,
    /// each template is one (captures, template) pair per match
    pub templates: Vec<Bs>,
}

fn icase_pat(c: &ICase) -> PatCfg {
    let mut pat = PatCfg::simple(&c.pattern, Term::Lf);
    // no line terminator on the matcher: nothing is stripped from the pattern
    pat.multiline = true;
    pat.unicode = c.unicode;
    pat.case = if c.case_insensitive { CaseMode::Insensitive } else { CaseMode::Sensitive };
    pat
}

pub fn gen_icase(t: &mut Tape) -> ICase {
    let mut o = ReOpts::line_mode();
    o.max_nodes = 8;
    let pattern = gen_cap_re(t, &o).render();
    let case_insensitive = t.chance(1, 8);
    let unicode = !t.chance(1, 8);
    let hir = gen::parse_hir(&pattern, case_insensitive, unicode, false, false);
    let hirs: Vec<_> = hir.into_iter().collect();
    // one "line" or a few, joined by LF (an ordinary byte here)
    let mut hay = vec![];
    let n = 1 + t.small(3);
    for i in 0..n {
        if i > 0 {
            hay.extend_from_slice(*t.pick(&[b" ".as_slice(), b"\n", b"", b"-"]));
        }
        hay.extend(gen::gen_line(t, &hirs, b"abxy", Term::Lf));
    }
    let (names, ngroups) = match regex::bytes::Regex::new(&pattern) {
        Ok(re) => (group_names(&re), re.captures_len()),
        Err(_) => (vec![], 1),
    };
    let k = 1 + t.below(4);
    let templates = (0..k).map(|_| Bs(gen_template(t, &names, ngroups, true, true))).collect();
    ICase { pattern, case_insensitive, unicode, hay: Bs(hay), templates }
}

#[derive(Clone, Debug, PartialEq, Eq)]
struct MatchRec {
    groups: Vec<Option<(usize, usize)>>,
    expansion: Vec<u8>,
}

fn lib_matches(re: &regex::bytes::Regex, hay: &[u8], tpl: &[u8]) -> Vec<MatchRec> {
    re.captures_iter(hay)
        .map(|c| {
            let mut dst = vec![];
            c.expand(tpl, &mut dst);
            MatchRec { groups: (0..c.len()).map(|i| c.get(i).map(|m| (m.start(), m.end()))).collect(), expansion: dst }
        })
        .collect()
}

fn classify_refs(info: &mut Info, refs: &[TRef]) {
    info.class_if(refs.iter().any(|r| !r.braced && matches!(r.kind, RefKind::Num(_))), "ref_$n");
    info.class_if(refs.iter().any(|r| r.braced && matches!(r.kind, RefKind::Num(_))), "ref_${n}");
    info.class_if(refs.iter().any(|r| !r.braced && matches!(r.kind, RefKind::Name(_))), "ref_$name");
    info.class_if(refs.iter().any(|r| r.braced && matches!(r.kind, RefKind::Name(_))), "ref_${name}");
    info.class_if(refs.iter().any(|r| r.nonident), "ref_braced_nonident");
}

/// (some reference resolves to a participating group, some reference
/// resolves to nothing) for one library match.
fn ref_participation(refs: &[TRef], c: &regex::bytes::Captures<'_>) -> (bool, bool) {
    let mut yes = false;
    let mut no = false;
    for r in refs {
        let hit = match &r.kind {
            RefKind::Num(n) => c.get(*n).is_some(),
            RefKind::Name(s) => c.name(s).is_some(),
        };
        if hit {
            yes = true;
        } else {
            no = true;
        }
    }
    (yes, no)
}

pub fn check_icase(c: &ICase) -> Verdict {
    let v = check_icase_inner(c);
    if let Verdict::Fail(_) = &v {
        let pat = icase_pat(c);
        if let (Ok(m), Ok(o)) = (pat.build(), oracle::build(&pat)) {
            return crate::mat::attribute_engine(v, &m, Some(&o.re), &c.hay.0, b'\n', false);
        }
    }
    v
}

fn check_icase_inner(c: &ICase) -> Verdict {
    let pat = icase_pat(c);
    let matcher = match pat.build() {
        Ok(m) => m,
        Err(_) => return Verdict::Reject("builder rejected the pattern"),
    };
    let orc = match oracle::build(&pat) {
        Ok(o) => o,
        Err(OracleErr::Excluded(why)) => return Verdict::Reject(why),
        Err(OracleErr::Invalid(_)) => return Verdict::Reject("oracle cannot compile the pattern text"),
    };
    let hay = &c.hay.0;
    let mut info = Info::new(false);
    let mut caps = matcher.new_captures().expect("captures");
    let mut known_shape: Option<Fail> = None;
    for tpl in &c.templates {
        let tpl = &tpl.0;
        let want = lib_matches(&orc.re, hay, tpl);
        let mut got: Vec<MatchRec> = vec![];
        let _ = matcher.captures_iter(hay, &mut caps, |caps| {
            let mut dst = vec![];
            caps.interpolate(|n| matcher.capture_index(n), hay, tpl, &mut dst);
            got.push(MatchRec { groups: (0..caps.len()).map(|i| caps.get(i).map(|m| (m.start(), m.end()))).collect(), expansion: dst });
            true
        });
        let want_all = orc.re.replace_all(hay, tpl.as_slice()).into_owned();
        let mut got_all = vec![];
        let _ = matcher.replace_with_captures(hay, &mut caps, &mut got_all, |caps, dst| {
            caps.interpolate(|n| matcher.capture_index(n), hay, tpl, dst);
            true
        });
        let describe = |msg: String| {
            format!(
                "{msg}\n pattern={:?} case_insensitive={} unicode={}\n haystack={:?}\n template={:?}\n library  (regex::bytes captures_iter + expand): {}\n in-repo  (RegexMatcher captures_iter + Captures::interpolate): {}\n library replace_all: {:?}\n in-repo replace_with_captures+interpolate: {:?}",
                c.pattern,
                c.case_insensitive,
                c.unicode,
                c.hay,
                Bs(tpl.clone()),
                show_recs(&want),
                show_recs(&got),
                Bs(want_all.clone()),
                Bs(got_all.clone()),
            )
        };
        let spans = |v: &[MatchRec]| v.iter().map(|r| r.groups.clone()).collect::<Vec<_>>();
        if spans(&want) != spans(&got) {
            return Verdict::Fail(Fail::new(describe("match / group spans differ between the library and the RegexMatcher".into())).fact("group-spans-differ"));
        }
        if want != got || want_all != got_all {
            // Is it exactly the braced-name divergence? Then the library's
            // expansion of the sanitized template reproduces the in-repo output.
            let san = sanitize_braced(tpl);
            let mut f = Fail::new(describe("expansion differs".into()));
            if san != *tpl && lib_matches(&orc.re, hay, &san) == got && orc.re.replace_all(hay, san.as_slice()).as_ref() == got_all.as_slice() {
                f = f.fact("braced-reference-name-not-[0-9A-Za-z_]+").fact("in-repo-interpolation-leaves-it-as-literal-text");
                // explained: keep checking the other templates of this case
                known_shape.get_or_insert(f);
                continue;
            }
            return Verdict::Fail(f);
        }
        let refs = scan_refs(tpl);
        let mut part = false;
        let mut nonpart = false;
        let mut both = false;
        for cps in orc.re.captures_iter(hay) {
            let (y, n) = ref_participation(&refs, &cps);
            part |= y;
            nonpart |= n;
            both |= y && n;
        }
        info.nontrivial |= both || want.len() >= 2;
        classify_refs(&mut info, &refs);
        info.class_if(part, "ref_to_participating_group");
        info.class_if(nonpart, "ref_to_nonparticipating_or_unknown_group");
        info.class_if(both, "both_kinds_in_one_match");
        info.class_if(want.len() >= 2, "two_or_more_matches");
        info.class_if(want.is_empty(), "no_match");
        info.class_if(want.iter().any(|r| r.groups[0].map_or(false, |(s, e)| s == e)), "empty_match");
        info.class_if(want.iter().any(|r| r.groups.len() > 1 && r.groups[1..].iter().any(|g| g.is_none())), "group_did_not_participate");
        info.class_if(tpl.windows(2).any(|w| w == b"$$"), "dollar_dollar");
        info.class_if(std::str::from_utf8(tpl).is_err(), "template_invalid_utf8");
    }
    if let Some(f) = known_shape {
        return Verdict::Fail(f);
    }
    info.class_if(orc.re.capture_names().flatten().any(|n| !n.bytes().all(is_cap_letter)), "group_name_with_dot_or_bracket");
    match c.templates.len() {
        0 => {}
        1 => info.class("templates_1"),
        2 => info.class("templates_2"),
        3 => info.class("templates_3"),
        _ => info.class("templates_4_or_more"),
    }
    Verdict::Pass(info)
}

fn show_recs(v: &[MatchRec]) -> String {
    v.iter().map(|r| format!("{:?}=>{:?}", r.groups, Bs(r.expansion.clone()))).collect::<Vec<_>>().join(" ; ")
}

// ---------------------------------------------------------------------------
// Subcheck (b): the standard printer with a replacement
// ---------------------------------------------------------------------------

#[derive(Clone, Debug, Serialize, Deserialize)]
pub struct Case {
    pub pat: PatCfg,
    pub cfg: SCfg,
    pub strat: Strat,
    pub template: Bs,
    pub only_matching: bool,
    pub column: bool,
    pub input: Bs,
    /// also run the real binary on this case
    pub cli: bool,
}

fn line_opts(crlf: bool) -> ReOpts {
    ReOpts {
        max_nodes: 8,
        allow_newline: false,
        allow_literal_newline: false,
        allow_unicode: true,
        allow_captures: true,
        allow_look: true,
        allow_flags: true,
        allow_bytes: true,
        allow_cr_nul: !crlf,
    }
}

pub fn gen_case(t: &mut Tape, full_templates: bool) -> Case {
    let multiline = t.chance(1, 5);
    let term = *t.pick(&[Term::Lf, Term::Lf, Term::Crlf]);
    let crlf = term == Term::Crlf;
    let mut pat = if multiline {
        let mut o = super::c13::ml_opts();
        o.allow_cr_nul = !crlf;
        let base = gen_cap_re(t, &o).render();
        let p = match t.below(8) {
            0 => base,
            1 => format!("(?:{base})\\n"),
            2 => format!("(?:{base})(\\s)"),
            3 => format!("(\\n)?(?:{base})"),
            4 => format!("(?:{base})\\n?({})", gen::gen_re(t, &o).render()),
            // a look-around assertion right after a matched line terminator: it
            // has to see the first byte of the following line
            5 => format!("(?:{base})\\n{}", *t.pick(&["\\b", "\\B", "\\b{start}", "(?-u:\\b)", "\\b{start-half}"])),
            6 => format!("(?:{base})\\n?{}", *t.pick(&["\\b{end-half}", "\\B", "\\b", "$"])),
            _ => format!("(?:{base})\\s+{}", *t.pick(&["\\b", "\\B", "$"])),
        };
        let mut pc = PatCfg::simple(&p, term);
        pc.multiline = true;
        pc.word = t.chance(1, 8);
        pc.dotall = t.chance(1, 5);
        pc
    } else {
        let mut pc = PatCfg::simple(&gen_cap_re(t, &line_opts(crlf)).render(), term);
        if t.chance(1, 10) {
            pc.patterns.push(gen_cap_re(t, &line_opts(crlf)).render());
        }
        match t.weighted(&[8, 1, 1]) {
            0 => {}
            1 => pc.word = true,
            _ => pc.whole_line = true,
        }
        pc
    };
    pat.case = if t.chance(1, 6) { CaseMode::Insensitive } else { CaseMode::Sensitive };
    pat.unicode = !t.chance(1, 8);
    let ci = pat.case == CaseMode::Insensitive;
    let hirs: Vec<_> = pat.patterns.iter().filter_map(|p| gen::parse_hir(p, ci, pat.unicode, crlf, pat.dotall)).collect();
    let input = if multiline {
        super::c13::gen_ml_haystack(t, &hirs, term)
    } else {
        let mut alpha = vec![];
        for h in &hirs {
            gen::literal_alphabet(h, &mut alpha);
        }
        alpha.retain(|b| *b != b'\n');
        let n = t.small(8);
        let lines: Vec<Vec<u8>> = (0..n)
            .map(|_| {
                let mut l = gen::gen_line(t, &hirs, &alpha, term);
                // several matches on one line
                let extra = t.weighted(&[3, 2, 1]);
                for _ in 0..extra {
                    l.extend_from_slice(*t.pick(&[b"".as_slice(), b" ", b"-", b"a"]));
                    l.extend(gen::gen_line(t, &hirs, &alpha, term));
                }
                l
            })
            .collect();
        let final_term = !t.chance(1, 4);
        gen::join_lines(t, &lines, term, final_term)
    };
    let (names, ngroups) = match oracle::build(&pat) {
        Ok(o) => (group_names(&o.re), o.re.captures_len()),
        Err(_) => (vec![], 1),
    };
    let template = gen_template(t, &names, ngroups, full_templates, multiline);
    let only_matching = t.chance(1, 3);
    let invert = !multiline && t.chance(1, 5);
    let ctx = if multiline && only_matching { false } else { invert || t.chance(1, 4) };
    let (before, after, passthru) = if !ctx {
        (0, 0, false)
    } else if t.chance(1, 6) {
        (0, 0, true)
    } else {
        (t.small(2), t.small(2), false)
    };
    let mut line_number = !t.chance(1, 4);
    let mut column = t.chance(1, 3);
    if multiline && only_matching {
        line_number = false;
        column = false;
    }
    let cli = t.chance(1, 25);
    if cli && column {
        line_number = true; // the command line turns -n on with --column
    }
    let cfg = SCfg { term, invert, before, after, passthru, line_number, multi_line: multiline, bom_sniffing: false, warm: gen::gen_warm(t, term), ..SCfg::default() };
    let strat = if t.chance(1, 2) {
        Strat::Slice
    } else {
        Strat::Reader { chunks: super::c03::gen_chunks(t), capacity: if t.chance(1, 3) { None } else { Some(t.small(32)) } }
    };
    Case { pat, cfg, strat, template: Bs(template), only_matching, column, input: Bs(input), cli }
}

/// One oracle match: span of the whole match and the library's expansion.
#[derive(Clone, Debug, PartialEq, Eq)]
struct Cap {
    s: usize,
    e: usize,
    exp: Vec<u8>,
}

#[derive(Clone, Debug)]
enum Tok {
    Exact(Vec<u8>),
    /// one or more ASCII digits (a column number whose value is not C19's business)
    Digits,
}

/// Deviations with a known root cause; the exact expectation is tried first.
#[derive(Clone, Copy, Debug, PartialEq, Eq)]
struct Tol {
    /// CRLF mode: a replaced line / every line of a replaced block is
    /// re-terminated with CRLF even if the input line ended in a lone LF
    crlf_rewrite: bool,
    /// an empty match at the very end of an unterminated last line is not
    /// replaced
    drop_trailing_empty: bool,
    /// line path: replaced text that itself ends in LF gets no terminator
    lf_swallow: bool,
}

struct Model<'a> {
    case: &'a Case,
    orc: &'a LineOracle,
    input: &'a [u8],
    lines: Vec<model::Line>,
    crlf: bool,
    term_cfg: &'static [u8],
    uni_word: bool,
    ml_path: bool,
    global: Vec<Cap>,
}

type Rej = &'static str;

fn splice(text: &[u8], base: usize, end: usize, caps: &[Cap]) -> Vec<u8> {
    let mut out = vec![];
    let mut last = base;
    for c in caps {
        out.extend_from_slice(&text[last.min(c.s)..c.s]);
        out.extend_from_slice(&c.exp);
        last = c.e;
    }
    if last < end {
        out.extend_from_slice(&text[last..end]);
    }
    out
}

impl<'a> Model<'a> {
    fn caps_of(&self, c: regex::bytes::Captures<'_>, shift: usize) -> Cap {
        let m = c.get(0).unwrap();
        let mut exp = vec![];
        c.expand(&self.case.template.0, &mut exp);
        Cap { s: m.start() + shift, e: m.end() + shift, exp }
    }

    fn line_index(&self, offset: u64, len: usize) -> Result<usize, String> {
        let i = self.lines.iter().position(|l| l.start as u64 == offset).ok_or_else(|| format!("delivered offset {offset} is not a line start"))?;
        if self.lines[i].end - self.lines[i].start != len {
            return Err(format!("delivered bytes at offset {offset} are not exactly one line"));
        }
        Ok(i)
    }

    /// The library's matches in one line's content (offsets relative to the
    /// content).
    fn line_caps(&self, li: usize) -> Result<Vec<Cap>, Rej> {
        let l = &self.lines[li];
        let content = model::content(self.input, l, self.crlf);
        if self.uni_word && li > 0 && content.first().map_or(false, |b| (0x80..=0xBF).contains(b)) {
            return Err("Unicode word assertion + line starting with stray UTF-8 continuation bytes (regex engine look-behind; C01 known finding)");
        }
        let caps: Vec<Cap> = self.orc.re.captures_iter(content).map(|c| self.caps_of(c, 0)).collect();
        if self.crlf && content.contains(&b'\r') && caps.iter().any(|c| content[c.s..c.e].contains(&b'\r')) {
            return Err("CRLF mode: an oracle match contains a bare CR (the documented matcher never matches CR)");
        }
        Ok(caps)
    }

    fn prelude(&self, toks: &mut Vec<Tok>, lineno: Option<u64>, sep: u8, column: bool) {
        if let Some(n) = lineno {
            let mut v = n.to_string().into_bytes();
            v.push(sep);
            toks.push(Tok::Exact(v));
        }
        if column && self.case.column {
            toks.push(Tok::Digits);
            toks.push(Tok::Exact(vec![sep]));
        }
    }

    fn unaltered(&self, toks: &mut Vec<Tok>, lineno: Option<u64>, sep: u8, bytes: &[u8]) {
        self.prelude(toks, lineno, sep, false);
        let mut v = bytes.to_vec();
        if v.last() != Some(&b'\n') {
            v.extend_from_slice(self.term_cfg);
        }
        toks.push(Tok::Exact(v));
    }

    /// A line in which the matches are to be replaced (line path).
    fn replaced_line(&self, toks: &mut Vec<Tok>, li: usize, lineno: Option<u64>, sep: u8, caps: &[Cap], tol: Tol) {
        let l = &self.lines[li];
        let content = model::content(self.input, l, self.crlf);
        let term_orig = &self.input[l.start + content.len()..l.end];
        let mut caps = caps;
        let dropped = tol.drop_trailing_empty && !l.terminated && caps.last().map_or(false, |c| c.s == c.e && c.s == content.len());
        if dropped {
            caps = &caps[..caps.len() - 1];
        }
        if caps.is_empty() {
            return self.unaltered(toks, lineno, sep, &self.input[l.start..l.end]);
        }
        if self.case.only_matching {
            for c in caps {
                self.prelude(toks, lineno, sep, true);
                let mut v = c.exp.clone();
                if v.last() != Some(&b'\n') {
                    v.extend_from_slice(self.term_cfg);
                }
                toks.push(Tok::Exact(v));
            }
        } else {
            self.prelude(toks, lineno, sep, true);
            let mut v = if dropped {
                splice(content, 0, content.len(), caps)
            } else {
                // the oracle proper
                self.orc.re.replace_all(content, self.case.template.0.as_slice()).into_owned()
            };
            if tol.lf_swallow && v.last() == Some(&b'\n') {
                // nothing appended
            } else if term_orig.is_empty() {
                if v.last() != Some(&b'\n') {
                    v.extend_from_slice(self.term_cfg);
                }
            } else if tol.crlf_rewrite {
                v.extend_from_slice(self.term_cfg);
            } else {
                v.extend_from_slice(term_orig);
            }
            toks.push(Tok::Exact(v));
        }
    }

    /// Block-local iteration as both the library's iterator and the printer
    /// define it, starting at `s`, over the whole input.
    fn local_caps(&self, s: usize, e: usize) -> Vec<Cap> {
        let mut out = vec![];
        let mut pos = s;
        let mut last_end: Option<usize> = None;
        while pos <= self.input.len() {
            let Some(c) = self.orc.re.captures_at(self.input, pos) else { break };
            let cap = self.caps_of(c, 0);
            if cap.s >= e && !(cap.s == e && e == self.input.len() && cap.s == cap.e && self.lines.last().map_or(false, |l| !l.terminated)) {
                break;
            }
            if cap.s == cap.e {
                pos = cap.e + 1;
                if last_end == Some(cap.e) {
                    continue;
                }
            } else {
                pos = cap.e;
            }
            last_end = Some(cap.e);
            out.push(cap);
        }
        out
    }

    fn block_caps(&self, s: usize, e: usize) -> Result<Vec<Cap>, Rej> {
        if self.input.len() - e >= 128 {
            return Err("multi-line: more than the printer's look-ahead window follows the block");
        }
        let at_end = e == self.input.len() && self.lines.last().map_or(false, |l| !l.terminated);
        let g: Vec<Cap> = self.global.iter().filter(|c| (c.s >= s && c.s < e) || (at_end && c.s == e && c.e == e)).cloned().collect();
        if g != self.local_caps(s, e) {
            return Err("multi-line: whole-input and block-local iteration give different matches (which one a block's replace-all means is not documented)");
        }
        if g.iter().any(|c| c.e > e) {
            return Err("multi-line: a match extends beyond the reported block (searcher-level disagreement, C13)");
        }
        Ok(g)
    }

    /// Expected tokens of a replaced multi-line block (not only-matching).
    fn replaced_block(&self, toks: &mut Vec<Tok>, s: usize, e: usize, caps: &[Cap], tol: Tol) {
        let mut caps = caps;
        if tol.drop_trailing_empty && caps.last().map_or(false, |c| c.s == c.e && c.s == e) {
            caps = &caps[..caps.len() - 1];
        }
        if caps.is_empty() {
            for l in self.input[s..e].split_inclusive(|b| *b == b'\n') {
                self.unaltered(toks, None, b':', l);
                if self.case.cfg.line_number {
                    let body = toks.pop().unwrap();
                    toks.push(Tok::Digits);
                    toks.push(Tok::Exact(vec![b':']));
                    toks.push(body);
                }
            }
            return;
        }
        let dst = splice(self.input, s, e, caps);
        for l in dst.split_inclusive(|b| *b == b'\n') {
            if self.case.cfg.line_number {
                toks.push(Tok::Digits);
                toks.push(Tok::Exact(vec![b':']));
            }
            self.prelude(toks, None, b':', true);
            let mut v = l.to_vec();
            if tol.crlf_rewrite {
                if v.last() == Some(&b'\n') {
                    v.pop();
                    if v.last() == Some(&b'\r') {
                        v.pop();
                    }
                }
                v.extend_from_slice(self.term_cfg);
            } else if v.last() != Some(&b'\n') {
                v.extend_from_slice(self.term_cfg);
            }
            toks.push(Tok::Exact(v));
        }
    }

    /// The expected output as labelled token groups, one per sink event.
    fn expected(&self, events: &[Event], tol: Tol) -> Result<Result<Vec<(String, Vec<Tok>)>, Rej>, String> {
        let mut out = vec![];
        let invert = self.case.cfg.invert;
        for ev in events {
            let mut toks = vec![];
            match ev {
                Event::Begin | Event::Finish { .. } | Event::Binary { .. } => continue,
                Event::Break => {
                    let mut v = b"--".to_vec();
                    v.extend_from_slice(self.term_cfg);
                    toks.push(Tok::Exact(v));
                }
                Event::Match { line, offset, bytes } if !self.ml_path => {
                    let li = self.line_index(*offset, bytes.len())?;
                    let caps = match self.line_caps(li) {
                        Ok(c) => c,
                        Err(r) => return Ok(Err(r)),
                    };
                    if invert {
                        if !caps.is_empty() {
                            return Ok(Err("searcher and per-line oracle disagree on whether a line matches (C01)"));
                        }
                        self.unaltered(&mut toks, *line, b':', &bytes.0);
                    } else {
                        if caps.is_empty() {
                            return Ok(Err("searcher and per-line oracle disagree on whether a line matches (C01)"));
                        }
                        self.replaced_line(&mut toks, li, *line, b':', &caps, tol);
                    }
                }
                Event::Context { line, offset, bytes, .. } if !self.ml_path => {
                    let li = self.line_index(*offset, bytes.len())?;
                    let caps = match self.line_caps(li) {
                        Ok(c) => c,
                        Err(r) => return Ok(Err(r)),
                    };
                    if invert {
                        // a context line of an inverted search holds matches;
                        // the printer documents that they are replaced
                        if caps.is_empty() {
                            return Ok(Err("searcher and per-line oracle disagree on whether a line matches (C01)"));
                        }
                        self.replaced_line(&mut toks, li, *line, b'-', &caps, tol);
                    } else {
                        if !caps.is_empty() {
                            return Ok(Err("searcher and per-line oracle disagree on whether a line matches (C01)"));
                        }
                        self.unaltered(&mut toks, *line, b'-', &bytes.0);
                    }
                }
                Event::Match { offset, bytes, .. } => {
                    let (s, e) = (*offset as usize, *offset as usize + bytes.len());
                    if self.input.get(s..e) != Some(bytes.0.as_slice()) {
                        return Err(format!("delivered block at offset {offset} is not the input's bytes"));
                    }
                    let caps = match self.block_caps(s, e) {
                        Ok(c) => c,
                        Err(r) => return Ok(Err(r)),
                    };
                    if caps.is_empty() {
                        return Ok(Err("multi-line: searcher reports a block in which the oracle finds no match (C13)"));
                    }
                    self.replaced_block(&mut toks, s, e, &caps, tol);
                }
                Event::Context { offset, bytes, .. } => {
                    let (s, e) = (*offset as usize, *offset as usize + bytes.len());
                    if self.global.iter().any(|c| c.s < e && (c.e > s || c.s >= s)) {
                        return Ok(Err("multi-line: a context line overlaps an oracle match (C13)"));
                    }
                    self.unaltered(&mut toks, None, b'-', &bytes.0);
                    if self.case.cfg.line_number {
                        let body = toks.pop().unwrap();
                        toks.push(Tok::Digits);
                        toks.push(Tok::Exact(vec![b'-']));
                        toks.push(body);
                    }
                }
            }
            out.push((ev.short(), toks));
        }
        Ok(Ok(out))
    }
}

fn match_tokens(groups: &[(String, Vec<Tok>)], out: &[u8]) -> Result<(), String> {
    let mut pos = 0;
    for (label, toks) in groups {
        for t in toks {
            match t {
                Tok::Exact(b) => {
                    if !out[pos..].starts_with(b) {
                        let upto = (pos + b.len() + 8).min(out.len());
                        return Err(format!("at output byte {pos}, for event {label}: expected {:?} but the output continues with {:?}", Bs(b.clone()), Bs(out[pos..upto].to_vec())));
                    }
                    pos += b.len();
                }
                Tok::Digits => {
                    let n = out[pos..].iter().take_while(|b| b.is_ascii_digit()).count();
                    if n == 0 {
                        let upto = (pos + 8).min(out.len());
                        return Err(format!("at output byte {pos}, for event {label}: expected a column number but the output continues with {:?}", Bs(out[pos..upto].to_vec())));
                    }
                    pos += n;
                }
            }
        }
    }
    if pos != out.len() {
        return Err(format!("output has {} extra bytes after everything expected: {:?}", out.len() - pos, Bs(out[pos..].to_vec())));
    }
    Ok(())
}

fn render_tokens(groups: &[(String, Vec<Tok>)]) -> String {
    let mut v = vec![];
    for (_, toks) in groups {
        for t in toks {
            match t {
                Tok::Exact(b) => v.extend_from_slice(b),
                Tok::Digits => v.extend_from_slice(b"<N>"),
            }
        }
    }
    format!("{:?}", Bs(v))
}

/// Non-empty lines, trailing CRs dropped: what the multi-line only-matching
/// output is compared on (its record framing is not documented).
fn norm_lines(b: &[u8]) -> Vec<Vec<u8>> {
    b.split(|x| *x == b'\n')
        .map(|l| {
            let mut l = l.to_vec();
            while l.last() == Some(&b'\r') {
                l.pop();
            }
            l
        })
        .filter(|l| !l.is_empty())
        .collect()
}

fn run_printer(case: &Case, matcher: &RegexMatcher) -> Result<Vec<u8>, String> {
    let r = catch_unwind(AssertUnwindSafe(|| {
        let mut searcher = sea::build_searcher(&case.cfg, &case.strat);
        let mut printer = StandardBuilder::new()
            .replacement(Some(case.template.0.clone()))
            .only_matching(case.only_matching)
            .column(case.column)
            .per_match_one_line(true)
            .build(NoColor::new(vec![]));
        // an earlier file searched with the same searcher and printer (ripgrep reuses both):
        // what it leaves behind must not leak into this file's output
        let mut skip = 0;
        if let Some(w) = &case.cfg.warm {
            let _ = searcher.search_slice(matcher, &w.0, printer.sink(matcher));
            skip = printer.get_mut().get_ref().len();
        }
        let res = match &case.strat {
            Strat::Slice => searcher.search_slice(matcher, &case.input.0, printer.sink(matcher)),
            Strat::Reader { chunks, .. } | Strat::HeapLimit { chunks, .. } => {
                let mut rdr = ChunkReader::new(&case.input.0, chunks, None);
                searcher.search_reader(matcher, &mut rdr, printer.sink(matcher))
            }
            _ => searcher.search_slice(matcher, &case.input.0, printer.sink(matcher)),
        };
        res.map(|_| printer.into_inner().into_inner()[skip..].to_vec()).map_err(|e| format!("search failed: {e}"))
    }));
    match r {
        Ok(x) => x,
        Err(p) => {
            let msg = p.downcast_ref::<String>().cloned().or_else(|| p.downcast_ref::<&str>().map(|s| s.to_string())).unwrap_or_default();
            Err(format!("PANIC in searcher/printer: {msg}"))
        }
    }
}

fn cli_args(case: &Case) -> Vec<std::ffi::OsString> {
    use std::os::unix::ffi::OsStringExt;
    let mut a: Vec<std::ffi::OsString> = ["--no-config", "--color", "never", "--no-heading", "--no-filename", "-a", "--no-mmap", "-E", "none", "-j1"].iter().map(|s| s.into()).collect();
    let mut r = b"--replace=".to_vec();
    r.extend_from_slice(&case.template.0);
    a.push(std::ffi::OsString::from_vec(r));
    a.push(if case.cfg.line_number { "-n" } else { "-N" }.into());
    if case.column {
        a.push("--column".into());
    }
    if case.only_matching {
        a.push("-o".into());
    }
    if case.cfg.invert {
        a.push("-v".into());
    }
    if case.cfg.passthru {
        a.push("--passthru".into());
    } else {
        if case.cfg.before > 0 {
            a.push(format!("-B{}", case.cfg.before).into());
        }
        if case.cfg.after > 0 {
            a.push(format!("-A{}", case.cfg.after).into());
        }
    }
    if case.cfg.term == Term::Crlf {
        a.push("--crlf".into());
    }
    if case.pat.multiline {
        a.push("-U".into());
        if case.pat.dotall {
            a.push("--multiline-dotall".into());
        }
    }
    a.push(if case.pat.case == CaseMode::Insensitive { "-i" } else { "-s" }.into());
    if !case.pat.unicode {
        a.push("--no-unicode".into());
    }
    if case.pat.word {
        a.push("-w".into());
    }
    if case.pat.whole_line {
        a.push("-x".into());
    }
    for p in &case.pat.patterns {
        a.push("-e".into());
        a.push(p.into());
    }
    a.push("f".into());
    a
}

pub fn check(case: &Case) -> Verdict {
    let v = check_inner(case);
    if let Verdict::Fail(_) = &v {
        // attribute failures on inputs where the regex engine contradicts itself
        if let (Ok(m), Ok(o)) = (case.pat.build(), oracle::build(&case.pat)) {
            let term = case.cfg.term;
            return crate::mat::attribute_engine(v, &m, Some(&o.re), &case.input.0, term.byte(), term == Term::Crlf);
        }
    }
    v
}

fn check_inner(case: &Case) -> Verdict {
    if crate::gen::starts_with_bom(&case.input.0) {
        return Verdict::Reject("input starts with a byte-order mark (transcoding is C17's subject)");
    }
    if case.cfg.term == Term::Nul {
        return Verdict::Reject("NUL-terminated lines are not part of this check");
    }
    if case.pat.fixed || case.pat.case == CaseMode::Smart {
        return Verdict::Reject("fixed strings / smart case are not part of this check");
    }
    if case.template.0.contains(&b'\n') && !case.pat.multiline {
        return Verdict::Reject("line mode: template containing the line terminator");
    }
    let matcher = match case.pat.build() {
        Ok(m) => m,
        Err(_) => return Verdict::Reject("builder rejected the pattern"),
    };
    if case.pat.patterns.iter().any(|p| oracle::mentions_haystack_anchor(p)) {
        return Verdict::Reject("haystack anchor");
    }
    let orc = match oracle::build(&case.pat) {
        Ok(o) => o,
        Err(OracleErr::Excluded(why)) => return Verdict::Reject(why),
        Err(OracleErr::Invalid(_)) => return Verdict::Reject("oracle cannot compile the pattern text"),
    };
    let input = &case.input.0;
    let searcher = sea::build_searcher(&case.cfg, &case.strat);
    let ml_path = searcher.multi_line_with_matcher(&matcher);
    if ml_path && case.cfg.invert {
        return Verdict::Reject("multi-line with -v (context lines are re-searched in isolation; not modelled)");
    }
    if ml_path && case.only_matching && (case.cfg.line_number || case.column || case.cfg.before + case.cfg.after > 0 || case.cfg.passthru) {
        return Verdict::Reject("multi-line -o with prefixes or context (record framing not documented)");
    }
    let crlf = case.cfg.term == Term::Crlf;
    let uni_word = regex_syntax::ParserBuilder::new()
        .utf8(false)
        .unicode(case.pat.unicode)
        .build()
        .parse(&orc.pattern)
        .map(|h| h.properties().look_set().contains_word_unicode())
        .unwrap_or(false);
    let mut m = Model {
        case,
        orc: &orc,
        input,
        lines: model::split_lines(input, b'\n'),
        crlf,
        term_cfg: case.cfg.term.bytes(),
        uni_word,
        ml_path,
        global: vec![],
    };
    if ml_path {
        m.global = orc.re.captures_iter(input).map(|c| m.caps_of(c, 0)).collect();
    }
    let rec = sea::run(&matcher, &case.cfg, &case.strat, input, None, None);
    let cmd = {
        let mut rg = Rg::new(std::path::Path::new("."));
        rg = rg.args(cli_args(case));
        rg.cmdline()
    };
    let describe = |msg: String, exp: &str, got: &[u8]| {
        format!(
            "{msg}\n patterns={:?} (case={:?} word={} whole_line={} unicode={} multiline={} dotall={}) oracle regex={:?}\n template={:?}\n searcher: {:?} strategy={} multi-line path={ml_path}\n printer: only_matching={} column={}\n input={:?}\n sink events: {}\n expected output: {exp}\n observed output: {:?}\n equivalent command (input in file f): {cmd}",
            case.pat.patterns,
            case.pat.case,
            case.pat.word,
            case.pat.whole_line,
            case.pat.unicode,
            case.pat.multiline,
            case.pat.dotall,
            orc.pattern,
            case.template,
            case.cfg,
            case.strat.label(),
            case.only_matching,
            case.column,
            case.input,
            sea::show_events(&rec.events),
            Bs(got.to_vec()),
        )
    };
    if let Err(e) = &rec.result {
        return Verdict::Fail(Fail::new(describe(format!("recording search failed: {e}"), "-", b"")));
    }
    let exact = Tol { crlf_rewrite: false, drop_trailing_empty: false, lf_swallow: false };
    let groups = match m.expected(&rec.events, exact) {
        Err(e) => return Verdict::Fail(Fail::new(describe(e, "-", b""))),
        Ok(Err(r)) => return Verdict::Reject(r),
        Ok(Ok(g)) => g,
    };
    let got = match run_printer(case, &matcher) {
        Ok(o) => o,
        Err(e) => return Verdict::Fail(Fail::new(describe(e, &render_tokens(&groups), b"")).fact("printer-error-or-panic")),
    };
    // all expansions, in order (for multi-line -o and for classification)
    let compare = |out: &[u8], label: &str| -> Option<Fail> {
        if ml_path && case.only_matching {
            let build = |drop_tail: bool| -> Vec<u8> {
                let mut want = vec![];
                for ev in &rec.events {
                    if let Event::Match { offset, bytes, .. } = ev {
                        let (s, e) = (*offset as usize, *offset as usize + bytes.len());
                        let mut caps = m.block_caps(s, e).unwrap_or_default();
                        if drop_tail {
                            caps.retain(|c| !(c.s == e && c.e == e));
                            if caps.is_empty() {
                                // no match left: the block is printed as it is
                                want.extend_from_slice(&bytes.0);
                                want.push(b'\n');
                            }
                        }
                        for c in caps {
                            want.extend_from_slice(&c.exp);
                            want.push(b'\n');
                        }
                    }
                }
                want
            };
            let want = build(false);
            if norm_lines(&want) != norm_lines(out) {
                let mut f = Fail::new(describe(
                    format!("{label}: multi-line only-matching output differs from the expansions (compared as non-empty lines)"),
                    &format!("{:?}", Bs(want.clone())),
                    out,
                ));
                if norm_lines(&build(true)) == norm_lines(out) {
                    f = f.fact("empty-match-at-end-of-unterminated-last-line-is-not-replaced");
                }
                return Some(f);
            }
            return None;
        }
        match match_tokens(&groups, out) {
            Ok(()) => None,
            Err(why) => {
                let mut f = Fail::new(describe(format!("{label}: {why}"), &render_tokens(&groups), out));
                for bits in 1..8u8 {
                    let (a, b, c) = (bits & 1 != 0, bits & 2 != 0, bits & 4 != 0);
                    let tol = Tol { crlf_rewrite: a, drop_trailing_empty: b, lf_swallow: c };
                    if (a && !crlf) || (c && (ml_path || !case.template.0.contains(&b'\n'))) {
                        continue;
                    }
                    if let Ok(Ok(g)) = m.expected(&rec.events, tol) {
                        if match_tokens(&g, out).is_ok() {
                            if a {
                                f = f.fact("crlf-mode").fact("replaced-line-ending-in-lone-LF-is-printed-with-CRLF");
                            }
                            if b {
                                f = f.fact("empty-match-at-end-of-unterminated-last-line-is-not-replaced");
                            }
                            if c {
                                f = f.fact("replaced-text-ending-in-LF-gets-no-line-terminator");
                            }
                            break;
                        }
                    }
                }
                Some(f)
            }
        }
    };
    if let Some(f) = compare(&got, "in-process printer") {
        return Verdict::Fail(f);
    }
    let mut cli_ran = false;
    if case.cli && std::str::from_utf8(&case.template.0).is_ok() && !case.template.0.contains(&0) && (!case.column || case.cfg.line_number) {
        let dir = TempDir::new("c19");
        dir.write("f", input);
        let out = Rg::new(&dir.path).args(cli_args(case)).run();
        if !out.timed_out {
            cli_ran = true;
            if !(out.status == Some(0) || out.status == Some(1)) {
                return Verdict::Fail(Fail::new(describe(format!("rg exited with {:?}: {:?}", out.status, Bs(out.stderr.clone())), &render_tokens(&groups), &out.stdout)).fact("cli"));
            }
            if let Some(f) = compare(&out.stdout, "rg binary") {
                return Verdict::Fail(f.fact("cli"));
            }
        }
    }
    // classification
    let refs = scan_refs(&case.template.0);
    let mut part = false;
    let mut nonpart = false;
    let mut both = false;
    let mut two_on_a_line = false;
    let mut empty_match = false;
    let mut match_at_end = false;
    let mut replaced_ctx = false;
    let mut replaced_lines = 0;
    let mut lone_lf_replaced = false;
    for ev in &rec.events {
        let (is_ctx, offset, bytes) = match ev {
            Event::Match { offset, bytes, .. } => (false, *offset as usize, bytes),
            Event::Context { offset, bytes, .. } => (true, *offset as usize, bytes),
            _ => continue,
        };
        if is_ctx != case.cfg.invert {
            continue;
        }
        let text: &[u8] = if ml_path { input } else { model::content(input, &m.lines[m.line_index(offset as u64, bytes.len()).unwrap()], crlf) };
        let (lo, hi) = if ml_path { (offset, offset + bytes.len()) } else { (0, text.len() + 1) };
        let mut n = 0;
        for cps in orc.re.captures_iter(text) {
            let g0 = cps.get(0).unwrap();
            if g0.start() < lo || g0.start() >= hi {
                continue;
            }
            n += 1;
            let (y, no) = ref_participation(&refs, &cps);
            part |= y;
            nonpart |= no;
            both |= y && no;
            empty_match |= g0.start() == g0.end();
            match_at_end |= !ml_path && g0.end() == text.len();
        }
        two_on_a_line |= n >= 2;
        if n > 0 {
            replaced_lines += 1;
            replaced_ctx |= is_ctx;
            if crlf && !ml_path && bytes.0.ends_with(b"\n") && !bytes.0.ends_with(b"\r\n") {
                lone_lf_replaced = true;
            }
        }
    }
    let mut info = Info::new(replaced_lines > 0 && (both || two_on_a_line));
    classify_refs(&mut info, &refs);
    info.class_if(replaced_lines > 0, "some_line_replaced");
    info.class_if(part, "ref_to_participating_group");
    info.class_if(nonpart, "ref_to_nonparticipating_or_unknown_group");
    info.class_if(both, "both_kinds_in_one_match");
    info.class_if(two_on_a_line, "two_or_more_matches_on_a_line");
    info.class_if(empty_match, "empty_match");
    info.class_if(match_at_end, "match_ends_at_line_end");
    info.class_if(replaced_ctx, "invert_context_line_replaced");
    info.class_if(case.only_matching && replaced_lines > 0, "only_matching");
    info.class_if(case.column && replaced_lines > 0, "column");
    info.class_if(ml_path && replaced_lines > 0, "multi_line_path");
    info.class_if(case.cfg.warm.is_some(), "searcher_and_printer_reused_after_another_input");
    info.class_if(case.pat.multiline && !ml_path, "multi_line_flag_but_line_path");
    info.class_if(crlf && replaced_lines > 0, "crlf");
    info.class_if(lone_lf_replaced, "crlf_lone_lf_line_replaced");
    info.class_if(case.cfg.invert, "invert");
    info.class_if(case.cfg.before + case.cfg.after > 0 || case.cfg.passthru, "context");
    info.class_if(matches!(case.strat, Strat::Reader { .. }), "reader_strategy");
    info.class_if(m.lines.last().map_or(false, |l| !l.terminated), "unterminated_last_line");
    info.class_if(case.pat.word || case.pat.whole_line, "word_or_whole_line");
    info.class_if(case.pat.patterns.len() > 1, "two_patterns");
    info.class_if(orc.re.capture_names().flatten().any(|n| !n.bytes().all(is_cap_letter)), "group_name_with_dot_or_bracket");
    info.class_if(cli_ran, "cli_run");
    Verdict::Pass(info)
}

pub fn run(pc: &PropCtx) {
    pc.rule(
        "interpolate: generated (pattern with optional/nested/named/alternated/empty-matching groups, pattern-directed haystack, template over $n ${n} $name ${name} $$ stray-$ unknown names adjacent text large indices weird braces); per match Captures::interpolate vs regex::bytes::Captures::expand, plus replace_with_captures vs replace_all. printer: generated (pattern, template, pattern-directed input, -o, -U, --crlf, --column, -v, -A/-B/passthru, slice/reader); grep_printer::Standard with the replacement driven by the Searcher; expected output derived from the recorded sink events: every line the searcher reports as matching (with -v: every context line) = regex::bytes::Regex::replace_all(content, template) + original terminator, with -o one record per captures_iter match = expand; other lines unaltered; 4% of the cases also through the rg binary. Non-trivial = one match whose template references both a participating group and a non-participating/unknown one, or >= 2 matches on one line; distinct by hash",
    );
    pc.assume("regex::bytes::Regex (same regex engine, compiled from the pattern text without grep-regex's rewriting) is the reference for match positions and expansion");
    pc.assume("column numbers are parsed but their values are not asserted (C09); CRLF lines whose oracle matches contain a bare CR, Unicode word assertions next to stray continuation bytes at a line start, and multi-line blocks where block-local and whole-input iteration differ are excluded (counted under 'rejected')");
    pc.assume("multi-line -o output is compared as the sequence of non-empty lines (record framing of expansions that are empty or contain the terminator is not documented)");
    let full = braced_names_follow_library();
    pc.note(format!(
        "braced references with names outside [0-9A-Za-z_]+ in the printer subcheck: {}",
        if full { "generated (this tree's interpolation follows the library)" } else { "excluded by construction (known divergence of interpolate.rs; exercised by the interpolate subcheck)" }
    ));
    // 1..=4 templates per (pattern, haystack): 2.5 pairs per case on average
    let n_unit = pc.tier.pick(20_000, 400_000);
    pc.run_tape("interpolate", n_unit, (64, 700), gen_icase, check_icase);
    let n_pr = pc.tier.pick(5_000, 100_000);
    pc.run_tape("printer", n_pr, (128, 1500), |t| gen_case(t, full), check);
    pc.bound("interpolate_cases", serde_json::json!(n_unit));
    let pairs = pc.class_count("interpolate:templates_1") + 2 * pc.class_count("interpolate:templates_2") + 3 * pc.class_count("interpolate:templates_3") + 4 * pc.class_count("interpolate:templates_4_or_more");
    pc.bound("interpolate_pattern_template_pairs_checked", serde_json::json!(pairs));
    pc.bound("printer_cases", serde_json::json!(n_pr));
    let (u, p) = (n_unit as u64, n_pr as u64);
    pc.require_class("interpolate:both_kinds_in_one_match", u / 20);
    pc.require_class("interpolate:two_or_more_matches", u / 20);
    pc.require_class("interpolate:ref_${name}", u / 50);
    pc.require_class("interpolate:ref_braced_nonident", u / 100);
    pc.require_class("interpolate:group_name_with_dot_or_bracket", u / 100);
    pc.require_class("printer:some_line_replaced", p / 4);
    pc.require_class("printer:both_kinds_in_one_match", p / 20);
    pc.require_class("printer:two_or_more_matches_on_a_line", p / 20);
    pc.require_class("printer:only_matching", p / 20);
    pc.require_class("printer:multi_line_path", p / 50);
    pc.require_class("printer:crlf", p / 20);
    pc.require_class("printer:column", p / 20);
    pc.require_class("printer:invert_context_line_replaced", p / 100);
    pc.require_class("printer:cli_run", p / 100);
}

pub fn replay(_pc: &PropCtx, sub: &str, case: &serde_json::Value) -> Result<Verdict, String> {
    match sub {
        "interpolate" => {
            let c: ICase = serde_json::from_value(case.clone()).map_err(|e| e.to_string())?;
            Ok(check_icase(&c))
        }
        "printer" => {
            let c: Case = serde_json::from_value(case.clone()).map_err(|e| e.to_string())?;
            Ok(check(&c))
        }
        other => Err(format!("unknown subcheck {other:?}")),
    }
}
