//! C05 — which files are searched follows the documented precedence of
//! filters.
//!
//! A generated sandbox `T/o/w/...` (cwd = `T/o/w`) carries rule files of the
//! seven sources at any level (also in `T` and `T/o`, i.e. above every search
//! root), `.git` directories at some levels, and is listed with
//! `rg --files [flags] [roots]`. The oracle is `FilterModel`, written from the
//! documentation only (GUIDE.md "Automatic filtering"/"Manual filtering", the
//! flag docs in `crates/core/flags/defs.rs`, the `WalkBuilder` "Ignore rules"
//! docs). Rules come from a tiny sub-grammar so that a single rule is
//! trivially decidable and all pressure is on precedence.

use std::collections::{BTreeMap, BTreeSet};

use serde::{Deserialize, Serialize};

use crate::cli::{Rg, TempDir};
use crate::runner::{Fail, Info, PropCtx, Verdict};
use crate::tape::Tape;

/// The cwd of every run, relative to the sandbox top `T`.
const CWD: &str = "o/w";

// ---------------------------------------------------------------------------
// case
// ---------------------------------------------------------------------------

/// Rule sources in documented precedence order (highest first).
#[derive(Clone, Copy, Debug, PartialEq, Eq, PartialOrd, Ord, Serialize, Deserialize)]
pub enum Src {
    Glob,
    Rg,
    Dot,
    Git,
    Excl,
    Global,
    File,
}

impl Src {
    fn idx(self) -> usize {
        self as usize
    }
    fn name(self) -> &'static str {
        ["-g", ".rgignore", ".ignore", ".gitignore", ".git/info/exclude", "global-gitignore", "--ignore-file"][self.idx()]
    }
}

/// One per-directory rule file. `dir` is relative to `T` ("" = `T` itself).
/// For `Excl` the file is `dir/.git/info/exclude`.
#[derive(Clone, Debug, Serialize, Deserialize)]
pub struct RuleFile {
    pub src: Src,
    pub dir: String,
    pub lines: Vec<String>,
}

#[derive(Clone, Debug, Serialize, Deserialize)]
pub struct Global {
    /// 0: `$XDG_CONFIG_HOME/git/ignore`; 1: `core.excludesFile` in
    /// `$HOME/.gitconfig`; 2: `$HOME/.config/git/ignore` (XDG_CONFIG_HOME empty)
    pub via: u8,
    pub lines: Vec<String>,
}

#[derive(Clone, Debug, Serialize, Deserialize)]
pub struct IgnFile {
    /// pass the path absolute (else relative to the cwd: `../../if<i>`)
    pub abs: bool,
    pub lines: Vec<String>,
}

#[derive(Clone, Debug, Default, Serialize, Deserialize)]
pub struct Flags {
    pub hidden: bool,
    pub no_ignore: bool,
    pub no_ignore_vcs: bool,
    pub no_ignore_dot: bool,
    pub no_ignore_exclude: bool,
    pub no_ignore_global: bool,
    pub no_ignore_parent: bool,
    pub no_ignore_files: bool,
    /// number of `-u`
    pub unrestricted: u8,
    pub no_require_git: bool,
    /// (negated, type name) in command-line order; names: rust, txt, obj
    pub types: Vec<(bool, String)>,
    /// `--type-add 'obj:*.o'`
    pub type_add_obj: bool,
    pub max_depth: Option<usize>,
    /// `-j1`: serial walker
    pub j1: bool,
}

/// 0: as is (`a/b`, `.` for the cwd); 1: `./a/b` (`./` for the cwd); 2: absolute;
/// 3: with a trailing slash (`a/b/`, directories below the cwd only)
#[derive(Clone, Debug, Serialize, Deserialize)]
pub struct RootArg {
    /// relative to the cwd; "" = the cwd itself
    pub path: String,
    pub style: u8,
}

#[derive(Clone, Debug, Serialize, Deserialize)]
pub struct Case {
    /// directories below the cwd, relative to `T` (e.g. `o/w/a/b`)
    pub dirs: Vec<String>,
    /// payload files, relative to `T`
    pub files: Vec<String>,
    /// directories (relative to `T`) that contain a `.git` directory
    pub gits: Vec<String>,
    pub rule_files: Vec<RuleFile>,
    pub global: Option<Global>,
    pub ignore_files: Vec<IgnFile>,
    /// `-g` values in order
    pub globs: Vec<String>,
    pub flags: Flags,
    /// empty = no path argument (implicit cwd)
    pub roots: Vec<RootArg>,
}

// ---------------------------------------------------------------------------
// the rule sub-grammar
// ---------------------------------------------------------------------------

#[derive(Clone, Debug)]
struct Rule {
    neg: bool,
    dir_only: bool,
    anchored: bool,
    /// path components; a component is a literal or `*.ext`
    comps: Vec<String>,
}

fn parse_rule(line: &str) -> Rule {
    let mut s = line;
    let neg = s.starts_with('!');
    if neg {
        s = &s[1..];
    }
    let dir_only = s.ends_with('/');
    if dir_only {
        s = &s[..s.len() - 1];
    }
    let lead = s.starts_with('/');
    if lead {
        s = &s[1..];
    }
    let anchored = lead || s.contains('/');
    Rule { neg, dir_only, anchored, comps: s.split('/').map(String::from).collect() }
}

fn comp_matches(pat: &str, name: &str) -> bool {
    match pat.strip_prefix('*') {
        Some(suffix) => name.ends_with(suffix),
        None => pat == name,
    }
}

/// `rel` is the entry's path relative to the directory the rule is rooted at.
fn rule_matches(r: &Rule, rel: &str, is_dir: bool) -> bool {
    if r.dir_only && !is_dir {
        return false;
    }
    let parts: Vec<&str> = rel.split('/').collect();
    if r.anchored {
        parts.len() == r.comps.len() && r.comps.iter().zip(&parts).all(|(p, n)| comp_matches(p, n))
    } else {
        comp_matches(&r.comps[0], parts[parts.len() - 1])
    }
}

#[derive(Clone, Copy, Debug, PartialEq, Eq)]
enum V {
    None,
    Ignore,
    White,
}

/// gitignore file semantics: the last matching line decides.
fn file_verdict(lines: &[String], rel: &str, is_dir: bool) -> V {
    for l in lines.iter().rev() {
        let r = parse_rule(l);
        if rule_matches(&r, rel, is_dir) {
            return if r.neg { V::White } else { V::Ignore };
        }
    }
    V::None
}

fn is_anchored_line(l: &str) -> bool {
    parse_rule(l).anchored
}

// ---------------------------------------------------------------------------
// path helpers (all paths relative to T, "" = T)
// ---------------------------------------------------------------------------

fn join(a: &str, b: &str) -> String {
    if a.is_empty() {
        b.to_string()
    } else if b.is_empty() {
        a.to_string()
    } else {
        format!("{a}/{b}")
    }
}

fn parent(p: &str) -> &str {
    match p.rfind('/') {
        Some(i) => &p[..i],
        None => "",
    }
}

fn base(p: &str) -> &str {
    match p.rfind('/') {
        Some(i) => &p[i + 1..],
        None => p,
    }
}

/// `d` is `p` or an ancestor directory of `p`.
fn is_at_or_below(p: &str, d: &str) -> bool {
    d.is_empty() || p == d || (p.starts_with(d) && p.as_bytes().get(d.len()) == Some(&b'/'))
}

/// `p` relative to its ancestor `d`.
fn rel_to<'a>(p: &'a str, d: &str) -> &'a str {
    if d.is_empty() {
        p
    } else if p == d {
        ""
    } else {
        &p[d.len() + 1..]
    }
}

/// `dir` and all its ancestors up to `T`, nearest first.
fn chain(dir: &str) -> Vec<&str> {
    let mut out = vec![dir];
    let mut d = dir;
    while !d.is_empty() {
        d = parent(d);
        out.push(d);
    }
    out
}

// ---------------------------------------------------------------------------
// FilterModel
// ---------------------------------------------------------------------------

/// What is enabled after the flags (each flag removes exactly its own source).
#[derive(Clone, Debug)]
struct Eff {
    hidden_filter: bool,
    dot: bool,
    vcs: bool,
    excl: bool,
    global: bool,
    parent: bool,
    files: bool,
    require_git: bool,
}

fn effective(f: &Flags) -> Eff {
    // -u == --no-ignore; -uu == --no-ignore --hidden; -uuu adds --binary.
    // --no-ignore implies -dot, -exclude, -global, -parent, -vcs (not -files).
    let ni = f.no_ignore || f.unrestricted >= 1;
    let vcs = !(f.no_ignore_vcs || ni);
    Eff {
        hidden_filter: !(f.hidden || f.unrestricted >= 2),
        dot: !(f.no_ignore_dot || ni),
        vcs,
        excl: vcs && !(f.no_ignore_exclude || ni),
        global: vcs && !(f.no_ignore_global || ni),
        parent: !(f.no_ignore_parent || ni),
        files: !f.no_ignore_files,
        require_git: !f.no_require_git,
    }
}

/// Emulation of a diagnosed defect, used only to attach root-cause facts to
/// a failure (never to accept an output): rule files in directories above a
/// search root see the entry as `base_root/<path with the bytes of the
/// containing directory's path stripped>` instead of its real location.
#[derive(Clone, Debug)]
struct Rebase {
    /// per root: T-relative directory used as "absolute base"
    base_of_root: Vec<String>,
}

struct Model<'a> {
    case: &'a Case,
    eff: Eff,
    /// directory -> sorted (name, is_dir)
    children: BTreeMap<String, Vec<(String, bool)>>,
    gits: BTreeSet<String>,
    rule_at: BTreeMap<(usize, String), &'a RuleFile>,
    rebase: Option<Rebase>,
}

/// Per-entry record of which sources had an opinion (for classes).
#[derive(Default, Debug)]
struct Stats {
    /// (deciding source, overruled source, same_dir) for conflicting verdicts
    conflicts: BTreeSet<(usize, usize, bool)>,
    same_src_depth_conflict: bool,
    hidden_whitelisted_by: BTreeSet<&'static str>,
    rule_above_root_decided: bool,
    rule_above_cwd_decided: bool,
    git_rule_skipped_no_repo: bool,
    git_rule_skipped_above_repo: bool,
    git_rule_applied_in_repo: bool,
    git_rule_applied_no_require_git: bool,
    parent_rule_skipped_by_flag: bool,
    disabled_source_had_opinion: BTreeSet<usize>,
    override_unmatched_skip: bool,
    override_whitelist_beats_ignore: bool,
    type_ignored: bool,
    type_whitelist: bool,
    whitelist_then_type_ignore: bool,
    ignored_dir_pruned: bool,
    dir_only_rule_vs_file: bool,
    depth_cut: bool,
    visited: usize,
}

impl<'a> Model<'a> {
    fn new(case: &'a Case) -> Model<'a> {
        let mut children: BTreeMap<String, BTreeSet<(String, bool)>> = BTreeMap::new();
        let mut add = |p: &str, is_dir: bool| {
            // register p and all its ancestors
            let mut cur = p.to_string();
            let mut d = is_dir;
            loop {
                let par = parent(&cur).to_string();
                children.entry(par.clone()).or_default().insert((base(&cur).to_string(), d));
                if par.is_empty() {
                    break;
                }
                cur = par;
                d = true;
            }
        };
        add(CWD, true);
        for d in &case.dirs {
            add(d, true);
        }
        for f in &case.files {
            add(f, false);
        }
        let mut gits = BTreeSet::new();
        for g in &case.gits {
            gits.insert(g.clone());
            add(&join(g, ".git"), true);
        }
        let mut rule_at = BTreeMap::new();
        for rf in &case.rule_files {
            match rf.src {
                Src::Rg => add(&join(&rf.dir, ".rgignore"), false),
                Src::Dot => add(&join(&rf.dir, ".ignore"), false),
                Src::Git => add(&join(&rf.dir, ".gitignore"), false),
                Src::Excl => {
                    gits.insert(rf.dir.clone());
                    add(&join(&rf.dir, ".git/info/exclude"), false)
                }
                _ => {}
            }
            rule_at.insert((rf.src.idx(), rf.dir.clone()), rf);
        }
        let children = children.into_iter().map(|(k, v)| (k, v.into_iter().collect())).collect();
        Model { case, eff: effective(&case.flags), children, gits, rule_at, rebase: None }
    }

    fn is_dir(&self, p: &str) -> bool {
        p == CWD || self.children.get(parent(p)).map_or(false, |v| v.iter().any(|(n, d)| n == base(p) && *d))
    }

    fn exists_file(&self, p: &str) -> bool {
        self.children.get(parent(p)).map_or(false, |v| v.iter().any(|(n, d)| n == base(p) && !*d))
    }

    /// Verdict of one per-directory source for an entry.
    /// `root_t`: the search root the entry was reached from.
    fn per_dir_source(&self, src: Src, entry: &str, is_dir: bool, root_t: &str, root_idx: usize, st: &mut Stats, opinions: &mut Vec<(usize, String, V)>) -> V {
        let enabled = match src {
            Src::Rg | Src::Dot => self.eff.dot,
            Src::Git => self.eff.vcs,
            Src::Excl => self.eff.excl,
            _ => unreachable!(),
        };
        let dirs = chain(parent(entry));
        let git_src = matches!(src, Src::Git | Src::Excl);
        // the repository the entry lives in: nearest directory at or above
        // the entry's directory that has a `.git`
        let repo_idx = dirs.iter().position(|d| self.gits.contains(*d));
        let mut result = V::None;
        for (i, d) in dirs.iter().enumerate() {
            let Some(rf) = self.rule_at.get(&(src.idx(), d.to_string())) else { continue };
            let above_root = !is_at_or_below(d, root_t);
            let rel = match (&self.rebase, above_root) {
                (Some(rb), true) => self.rebased_rel(rb, entry, root_t, root_idx, d),
                _ => rel_to(entry, d).to_string(),
            };
            let v = file_verdict(&rf.lines, &rel, is_dir);
            if v == V::None {
                if !is_dir && file_verdict(&rf.lines, &rel, true) != V::None {
                    st.dir_only_rule_vs_file = true;
                }
                continue;
            }
            if !enabled {
                st.disabled_source_had_opinion.insert(src.idx());
                continue;
            }
            if above_root && !self.eff.parent {
                st.parent_rule_skipped_by_flag = true;
                continue;
            }
            if git_src && self.eff.require_git {
                match repo_idx {
                    None => {
                        st.git_rule_skipped_no_repo = true;
                        continue;
                    }
                    Some(r) if i > r => {
                        // the file sits above the repository root
                        st.git_rule_skipped_above_repo = true;
                        continue;
                    }
                    Some(_) => st.git_rule_applied_in_repo = true,
                }
            } else if git_src {
                st.git_rule_applied_no_require_git = true;
            }
            opinions.push((src.idx(), d.to_string(), v));
            if result == V::None {
                // nearest directory first within one source
                result = v;
                if above_root {
                    st.rule_above_root_decided = true;
                }
                if !is_at_or_below(d, CWD) {
                    st.rule_above_cwd_decided = true;
                }
            }
        }
        result
    }

    /// The defect emulation (see `Rebase`).
    fn rebased_rel(&self, rb: &Rebase, entry: &str, root_t: &str, root_idx: usize, d: &str) -> String {
        let root = &self.case.roots.get(root_idx);
        // the walker's path strings, after the leading "./" was stripped
        let root_str = match root {
            None => String::new(), // "./" -> ""
            Some(r) => match r.style {
                0 => {
                    if r.path.is_empty() {
                        ".".to_string()
                    } else {
                        r.path.clone()
                    }
                }
                1 | 3 => r.path.clone(), // "./a" -> "a", "./" -> "", "a/" ~ "a"
                _ => format!("/ABS/{}", join(CWD, &r.path)),
            },
        };
        let rel_root = rel_to(entry, root_t); // entry relative to its root
        let dir_rel = parent(rel_root);
        let (path_str, dir_str) = if root_str == "." {
            // "./x" is stripped to "x", the directory "." stays "." at depth 1
            (rel_root.to_string(), if dir_rel.is_empty() { ".".to_string() } else { dir_rel.to_string() })
        } else {
            (join(&root_str, rel_root), join(&root_str, dir_rel))
        };
        let p = match path_str.strip_prefix(dir_str.as_str()) {
            None => path_str.clone(),
            Some(p) => p.strip_prefix('/').unwrap_or(p).to_string(),
        };
        let fake = join(&rb.base_of_root[root_idx], &p);
        if is_at_or_below(&fake, d) {
            rel_to(&fake, d).to_string()
        } else {
            rel_to(entry, d).to_string()
        }
    }

    /// true = the entry is skipped.
    fn skip(&self, entry: &str, is_dir: bool, root_t: &str, root_idx: usize, st: &mut Stats) -> bool {
        let name = base(entry);
        let rel_cwd = rel_to(entry, CWD);
        let mut whitelisted: Option<&'static str> = None;
        let mut opinions: Vec<(usize, String, V)> = vec![];

        // 1. -g overrides: decide whenever they match; `!` means ignore here.
        //    An unmatched *file* is skipped when there is any whitelist glob.
        let mut ov = V::None;
        if !self.case.globs.is_empty() {
            // inverted gitignore semantics, matched relative to the cwd
            ov = match file_verdict(&self.case.globs, rel_cwd, is_dir) {
                V::White => V::Ignore,
                V::Ignore => V::White,
                V::None => V::None,
            };
            if ov == V::None && !is_dir && self.case.globs.iter().any(|g| !g.starts_with('!')) {
                st.override_unmatched_skip = true;
                return true;
            }
        }

        // 2. ignore files, in documented source order; computed even when an
        //    override decides, for the conflict statistics.
        let mut ig = V::None;
        let mut decided_by = usize::MAX;
        for src in [Src::Rg, Src::Dot, Src::Git, Src::Excl] {
            let v = self.per_dir_source(src, entry, is_dir, root_t, root_idx, st, &mut opinions);
            if ig == V::None && v != V::None {
                ig = v;
                decided_by = src.idx();
            }
        }
        // global gitignore: git-sourced, so only inside a repository
        if let Some(g) = &self.case.global {
            let v = file_verdict(&g.lines, rel_cwd, is_dir);
            if v != V::None {
                let in_repo = chain(parent(entry)).iter().any(|d| self.gits.contains(*d));
                if !self.eff.global {
                    st.disabled_source_had_opinion.insert(Src::Global.idx());
                } else if self.eff.require_git && !in_repo {
                    st.git_rule_skipped_no_repo = true;
                } else {
                    if self.eff.require_git {
                        st.git_rule_applied_in_repo = true;
                    } else {
                        st.git_rule_applied_no_require_git = true;
                    }
                    opinions.push((Src::Global.idx(), "~".into(), v));
                    if ig == V::None {
                        ig = v;
                        decided_by = Src::Global.idx();
                    }
                }
            }
        }
        // --ignore-file: lowest; later files beat earlier ones; relative to cwd
        let mut fv = V::None;
        for (i, f) in self.case.ignore_files.iter().enumerate().rev() {
            let v = file_verdict(&f.lines, rel_cwd, is_dir);
            if v != V::None {
                if !self.eff.files {
                    st.disabled_source_had_opinion.insert(Src::File.idx());
                    continue;
                }
                opinions.push((Src::File.idx(), format!("#{i}"), v));
                if fv == V::None {
                    fv = v;
                }
            }
        }
        if ig == V::None && fv != V::None {
            ig = fv;
            decided_by = Src::File.idx();
        }

        // conflict statistics
        if ov != V::None {
            for (s, _, v) in &opinions {
                if *v != ov {
                    st.conflicts.insert((Src::Glob.idx(), *s, false));
                    if ov == V::White && *v == V::Ignore {
                        st.override_whitelist_beats_ignore = true;
                    }
                }
            }
        } else if ig != V::None {
            let dec_dir = opinions.iter().find(|(s, _, _)| *s == decided_by).map(|(_, d, _)| d.clone()).unwrap_or_default();
            for (s, d, v) in &opinions {
                if *v != ig {
                    if *s == decided_by {
                        st.same_src_depth_conflict = true;
                    } else {
                        st.conflicts.insert((decided_by, *s, *d == dec_dir));
                    }
                }
            }
        }

        if ov == V::Ignore {
            return true;
        }
        if ov == V::White {
            // "If a path matches a glob override, then matching stops."
            if name.starts_with('.') && self.eff.hidden_filter {
                st.hidden_whitelisted_by.insert("hidden_whitelisted_by_glob");
            }
            return false;
        }
        if ig == V::Ignore {
            return true;
        }
        if ig == V::White {
            whitelisted = Some("hidden_whitelisted_by_ignore_file");
        }

        // 3. file types (files only)
        if !is_dir && !self.case.flags.types.is_empty() {
            let glob_of = |t: &str| match t {
                "rust" => ".rs",
                "txt" => ".txt",
                _ => ".o",
            };
            let any_selected = self.case.flags.types.iter().any(|(neg, _)| !*neg);
            // selections are disjoint by construction, so at most one matches
            let hit = self.case.flags.types.iter().rev().find(|(_, t)| name.ends_with(glob_of(t)));
            match hit {
                Some((true, _)) => {
                    st.type_ignored = true;
                    if ig == V::White {
                        st.whitelist_then_type_ignore = true;
                    }
                    return true;
                }
                Some((false, _)) => {
                    st.type_whitelist = true;
                    whitelisted = Some("hidden_whitelisted_by_type");
                }
                None if any_selected => {
                    st.type_ignored = true;
                    if ig == V::White {
                        st.whitelist_then_type_ignore = true;
                    }
                    return true;
                }
                None => {}
            }
        }

        // 4. hidden entries are skipped unless whitelisted
        if self.eff.hidden_filter && name.starts_with('.') {
            match whitelisted {
                Some(by) => {
                    st.hidden_whitelisted_by.insert(by);
                }
                None => return true,
            }
        }
        false
    }

    fn root_t(r: &RootArg) -> String {
        join(CWD, &r.path)
    }

    /// Printed prefix for entries below a root (top = absolute path of T).
    fn root_prefix(r: &RootArg, top: &str) -> String {
        match r.style {
            0 => {
                if r.path.is_empty() {
                    ".".into()
                } else {
                    r.path.clone()
                }
            }
            1 => format!("./{}", r.path),
            3 => r.path.clone(),
            _ => format!("{top}/{}", join(CWD, &r.path)),
        }
    }

    fn walk_dir(&self, dir: &str, depth: usize, prefix: &str, root_t: &str, root_idx: usize, st: &mut Stats, out: &mut Vec<String>) {
        if let Some(m) = self.case.flags.max_depth {
            if depth >= m {
                if self.children.get(dir).map_or(false, |c| !c.is_empty()) {
                    st.depth_cut = true;
                }
                return;
            }
        }
        let Some(kids) = self.children.get(dir) else { return };
        for (name, is_dir) in kids {
            let entry = join(dir, name);
            st.visited += 1;
            if self.skip(&entry, *is_dir, root_t, root_idx, st) {
                if *is_dir && self.children.get(&entry).map_or(false, |c| !c.is_empty()) {
                    st.ignored_dir_pruned = true;
                }
                continue;
            }
            let printed = if prefix.is_empty() {
                name.clone()
            } else if prefix.ends_with('/') {
                format!("{prefix}{name}")
            } else {
                format!("{prefix}/{name}")
            };
            if *is_dir {
                self.walk_dir(&entry, depth + 1, &printed, root_t, root_idx, st, out);
            } else {
                out.push(printed);
            }
        }
    }

    /// The expected output lines of `rg --files`, sorted.
    fn expected(&self, top: &str, st: &mut Stats) -> Vec<String> {
        let mut out = vec![];
        if self.case.roots.is_empty() {
            self.walk_dir(CWD, 0, "", CWD, 0, st, &mut out);
        }
        for (i, r) in self.case.roots.iter().enumerate() {
            let rt = Self::root_t(r);
            let prefix = Self::root_prefix(r, top);
            if self.is_dir(&rt) {
                self.walk_dir(&rt, 0, &prefix, &rt, i, st, &mut out);
            } else {
                // a path named explicitly is always searched
                out.push(prefix);
            }
        }
        out.sort();
        out
    }
}

// ---------------------------------------------------------------------------
// generator
// ---------------------------------------------------------------------------

const FILE_NAMES: &[&str] = &["x.rs", "y.txt", "z.o", "n", ".h", ".x.rs", "b"];
const DIR_NAMES: &[&str] = &["a", "b", ".hd"];

fn gen_dir(t: &mut Tape, dir: &str, depth: usize, dirs: &mut Vec<String>, files: &mut Vec<String>) {
    let mut sub = vec![];
    if depth < 3 {
        for d in DIR_NAMES {
            let (num, den) = match depth {
                0 => (2, 3),
                1 => (2, 5),
                _ => (1, 5),
            };
            if t.chance(num, den) {
                sub.push(*d);
            }
        }
    }
    for f in FILE_NAMES {
        let (num, den) = match *f {
            "x.rs" => (3, 4),
            "y.txt" => (1, 2),
            "b" => (1, 6),
            _ => (1, 3),
        };
        if t.chance(num, den) && !sub.contains(f) {
            files.push(join(dir, f));
        }
    }
    for d in sub {
        let p = join(dir, d);
        dirs.push(p.clone());
        gen_dir(t, &p, depth + 1, dirs, files);
    }
}

fn ext_of(name: &str) -> Option<&str> {
    match name.rfind('.') {
        Some(i) if i > 0 => Some(&name[i..]),
        _ => None,
    }
}

/// A rule body (without `!`) that matches the entry `rel` (relative to the
/// directory the rule is rooted at) — or, with small probability, a
/// near-miss (`name/` for a file).
fn gen_form(t: &mut Tape, rel: &str, is_dir: bool, allow_anchored: bool) -> String {
    let name = base(rel);
    let mut opts: Vec<String> = vec![name.to_string()];
    if allow_anchored {
        if rel.contains('/') {
            opts.push(rel.to_string());
            opts.push(format!("/{rel}"));
        } else {
            opts.push(format!("/{name}"));
        }
    }
    if let Some(e) = ext_of(name) {
        opts.push(format!("*{e}"));
        if allow_anchored && rel.contains('/') {
            opts.push(format!("{}/*{e}", parent(rel)));
        }
    }
    if is_dir {
        opts.push(format!("{name}/"));
        if allow_anchored {
            opts.push(format!("/{rel}/"));
        }
    } else if t.chance(1, 12) {
        return format!("{name}/");
    }
    t.pick(&opts).clone()
}

fn gen_noise_form(t: &mut Tape, allow_anchored: bool) -> String {
    let name: &str = if t.chance(1, 3) { *t.pick(DIR_NAMES) } else { *t.pick(FILE_NAMES) };
    let k = if allow_anchored { t.below(6) } else { t.below(3) };
    match k {
        0 => name.to_string(),
        1 => match ext_of(name) {
            Some(e) => format!("*{e}"),
            None => name.to_string(),
        },
        2 => format!("{name}/"),
        3 => format!("/{name}"),
        4 => format!("a/{name}"),
        _ => format!("b/{name}"),
    }
}

fn push_rule(case: &mut Case, src: Src, dir: &str, file_slot: usize, line: String) {
    match src {
        Src::Glob => case.globs.push(line),
        Src::Global => match &mut case.global {
            Some(g) => g.lines.push(line),
            None => case.global = Some(Global { via: 0, lines: vec![line] }),
        },
        Src::File => {
            while case.ignore_files.len() <= file_slot {
                case.ignore_files.push(IgnFile { abs: true, lines: vec![] });
            }
            case.ignore_files[file_slot].lines.push(line);
        }
        _ => {
            if src == Src::Excl && !case.gits.iter().any(|g| g == dir) {
                case.gits.push(dir.to_string());
            }
            match case.rule_files.iter_mut().find(|rf| rf.src == src && rf.dir == dir) {
                Some(rf) => rf.lines.push(line),
                None => case.rule_files.push(RuleFile { src, dir: dir.to_string(), lines: vec![line] }),
            }
        }
    }
}

fn with_polarity(src: Src, ignore: bool, body: String) -> String {
    // in ignore files `!` whitelists; on the command line `!` ignores
    let bang = if src == Src::Glob { ignore } else { !ignore };
    if bang {
        format!("!{body}")
    } else {
        body
    }
}

fn gen_src(t: &mut Tape) -> Src {
    [Src::Git, Src::Dot, Src::Rg, Src::Excl, Src::Global, Src::File, Src::Glob][t.weighted(&[4, 3, 3, 2, 2, 2, 2])]
}

fn gen_flags(t: &mut Tape) -> Flags {
    let mut f = Flags::default();
    f.hidden = t.chance(1, 5);
    let family = |t: &mut Tape, f: &mut Flags| match t.weighted(&[16, 1, 1, 1, 1, 1, 1, 1, 1]) {
        0 => {}
        1 => f.no_ignore_parent = true,
        2 => f.no_ignore_vcs = true,
        3 => f.no_ignore_dot = true,
        4 => f.no_ignore_exclude = true,
        5 => f.no_ignore_global = true,
        6 => f.no_ignore_files = true,
        7 => f.no_ignore = true,
        _ => f.unrestricted = 1 + t.below(3) as u8,
    };
    family(t, &mut f);
    if t.chance(1, 6) {
        family(t, &mut f);
    }
    f.no_require_git = t.chance(1, 4);
    match t.weighted(&[21, 1, 1, 1, 1, 1, 1, 1]) {
        0 => {}
        1 => f.types.push((false, "rust".into())),
        2 => f.types.push((true, "rust".into())),
        3 => f.types.push((false, "txt".into())),
        4 => f.types.push((true, "txt".into())),
        5 => {
            f.type_add_obj = true;
            f.types.push((t.bool(), "obj".into()));
        }
        6 => {
            f.types.push((false, "rust".into()));
            f.types.push((true, "txt".into()));
        }
        _ => {
            f.types.push((true, "rust".into()));
            f.types.push((false, "txt".into()));
        }
    }
    if t.chance(1, 8) {
        f.max_depth = Some(t.below(4));
    }
    f.j1 = t.chance(1, 4);
    f
}

fn gen_roots(t: &mut Tape, dirs: &[String], files: &[String], target: Option<&str>) -> Vec<RootArg> {
    // a directory root, preferring an ancestor of the target (so that rule
    // files between the cwd and the target end up above the root)
    let dir_root = |t: &mut Tape, style: u8| -> RootArg {
        let mut cands: Vec<String> = vec![];
        if let Some(tg) = target {
            for d in chain(parent(tg)) {
                if d != CWD && is_at_or_below(d, CWD) {
                    cands.push(rel_to(d, CWD).to_string());
                }
            }
        }
        if cands.is_empty() || t.chance(1, 4) {
            cands = dirs.iter().map(|d| rel_to(d, CWD).to_string()).collect();
        }
        if cands.is_empty() {
            return RootArg { path: String::new(), style };
        }
        RootArg { path: t.pick(&cands).clone(), style }
    };
    let file_root = |t: &mut Tape| -> Option<RootArg> {
        let f = match target {
            Some(tg) if files.iter().any(|f| f == tg) && t.chance(3, 4) => tg.to_string(),
            _ => {
                if files.is_empty() {
                    return None;
                }
                t.pick(files).clone()
            }
        };
        Some(RootArg { path: rel_to(&f, CWD).to_string(), style: [0u8, 0, 1, 2][t.below(4)] })
    };
    let one = |t: &mut Tape| -> RootArg {
        match t.weighted(&[2, 1, 3, 1, 2]) {
            0 => RootArg { path: String::new(), style: 0 },
            1 => RootArg { path: String::new(), style: 1 },
            2 => dir_root(t, 0),
            3 => {
                let mut r = dir_root(t, 1);
                if !r.path.is_empty() && t.chance(1, 3) {
                    r.style = 3;
                }
                r
            }
            _ => {
                if t.chance(1, 3) {
                    RootArg { path: String::new(), style: 2 }
                } else {
                    dir_root(t, 2)
                }
            }
        }
    };
    match t.weighted(&[4, 8, 2, 2]) {
        0 => vec![],
        1 => vec![one(t)],
        2 => {
            let a = one(t);
            let b = one(t);
            if a.path == b.path && a.style == b.style {
                vec![a]
            } else {
                vec![a, b]
            }
        }
        _ => match file_root(t) {
            None => vec![],
            Some(f) => {
                if t.bool() {
                    vec![f]
                } else if t.bool() {
                    vec![one(t), f]
                } else {
                    vec![f, one(t)]
                }
            }
        },
    }
}

pub fn gen_case(t: &mut Tape) -> Case {
    let mut dirs = vec![];
    let mut files = vec![];
    gen_dir(t, CWD, 0, &mut dirs, &mut files);
    let mut case = Case {
        dirs,
        files,
        gits: vec![],
        rule_files: vec![],
        global: None,
        ignore_files: vec![],
        globs: vec![],
        flags: Flags::default(),
        roots: vec![],
    };
    // where repositories are
    let some_dir = |t: &mut Tape, c: &Case| -> String {
        if c.dirs.is_empty() {
            CWD.to_string()
        } else {
            t.pick(&c.dirs).clone()
        }
    };
    match t.weighted(&[2, 3, 2, 1, 2, 1, 1]) {
        0 => {}
        1 => case.gits.push(CWD.into()),
        2 => case.gits.push("o".into()),
        3 => case.gits.push("".into()),
        4 => {
            let d = some_dir(t, &case);
            case.gits.push(d)
        }
        5 => {
            case.gits.push(CWD.into());
            let d = some_dir(t, &case);
            if d != CWD {
                case.gits.push(d);
            }
        }
        _ => {
            case.gits.push("o".into());
            let d = some_dir(t, &case);
            case.gits.push(d);
        }
    }
    // the contested entry
    let mut entries: Vec<(String, bool)> = case.files.iter().map(|f| (f.clone(), false)).collect();
    entries.extend(case.dirs.iter().map(|d| (d.clone(), true)));
    let target = if entries.is_empty() { None } else { Some(entries[t.below(entries.len())].clone()) };
    if let Some((tg, is_dir)) = &target {
        let k = 2 + t.below(4);
        let mut ignore = t.bool();
        let places = chain(parent(tg)).iter().map(|s| s.to_string()).collect::<Vec<_>>();
        for _ in 0..k {
            let src = gen_src(t);
            let (dir, rel, anchored_ok) = match src {
                Src::Glob | Src::File => (String::new(), rel_to(tg, CWD).to_string(), true),
                Src::Global => (String::new(), rel_to(tg, CWD).to_string(), false),
                _ => {
                    let d = t.pick(&places).clone();
                    let rel = rel_to(tg, &d).to_string();
                    (d, rel, true)
                }
            };
            let body = gen_form(t, &rel, *is_dir, anchored_ok);
            let slot = if src == Src::File { t.below(2) } else { 0 };
            push_rule(&mut case, src, &dir, slot, with_polarity(src, ignore, body));
            ignore = !ignore;
        }
    }
    // unrelated rules
    let noise = t.small(3);
    let mut all_dirs: Vec<String> = vec!["".into(), "o".into(), CWD.into()];
    all_dirs.extend(case.dirs.iter().cloned());
    for _ in 0..noise {
        let src = gen_src(t);
        let dir = t.pick(&all_dirs).clone();
        let body = gen_noise_form(t, src != Src::Global);
        let ignore = !t.chance(1, 3);
        let slot = if src == Src::File { t.below(2) } else { 0 };
        push_rule(&mut case, src, &dir, slot, with_polarity(src, ignore, body));
    }
    if let Some(g) = &mut case.global {
        g.via = t.below(3) as u8;
    }
    for f in &mut case.ignore_files {
        f.abs = !t.chance(1, 3);
    }
    case.flags = gen_flags(t);
    case.roots = gen_roots(t, &case.dirs, &case.files, target.as_ref().map(|x| x.0.as_str()));
    case
}

// ---------------------------------------------------------------------------
// running rg and comparing
// ---------------------------------------------------------------------------

/// Sandboxes are built on tmpfs when there is one: a case creates and removes
/// ~50 files, which costs ~40 ms on the disk-backed /tmp and ~1 ms on tmpfs.
fn new_tmp(tag: &str) -> TempDir {
    if std::env::var_os("VERIF_C05_ON_TMPDIR").is_none() && std::path::Path::new("/dev/shm").is_dir() {
        TempDir::new_in("/dev/shm", tag)
    } else {
        TempDir::new(tag)
    }
}

struct Sandbox {
    tmp: TempDir,
}

impl Sandbox {
    fn top(&self) -> String {
        self.tmp.path.to_string_lossy().into_owned()
    }
}

fn build_sandbox(case: &Case) -> Sandbox {
    let tmp = new_tmp("c05");
    let mk = |rel: &str| {
        std::fs::create_dir_all(tmp.path.join(rel)).expect("mkdir");
    };
    mk(CWD);
    mk("home");
    mk("xdg");
    for d in &case.dirs {
        mk(d);
    }
    for f in &case.files {
        tmp.write(f, b"x\n");
    }
    for g in &case.gits {
        mk(&join(g, ".git"));
    }
    let body = |lines: &[String]| {
        let mut s = String::new();
        for l in lines {
            s.push_str(l);
            s.push('\n');
        }
        s.into_bytes()
    };
    for rf in &case.rule_files {
        let name = match rf.src {
            Src::Rg => ".rgignore",
            Src::Dot => ".ignore",
            Src::Git => ".gitignore",
            Src::Excl => ".git/info/exclude",
            _ => continue,
        };
        tmp.write(&join(&rf.dir, name), &body(&rf.lines));
    }
    if let Some(g) = &case.global {
        match g.via {
            0 => {
                tmp.write("xdg/git/ignore", &body(&g.lines));
            }
            1 => {
                let p = tmp.write("home/gi", &body(&g.lines));
                tmp.write("home/.gitconfig", format!("[core]\n\texcludesFile = {}\n", p.display()).as_bytes());
            }
            _ => {
                tmp.write("home/.config/git/ignore", &body(&g.lines));
            }
        }
    }
    for (i, f) in case.ignore_files.iter().enumerate() {
        tmp.write(&format!("if{i}"), &body(&f.lines));
    }
    Sandbox { tmp }
}

fn build_cmd(case: &Case, sb: &Sandbox) -> Rg {
    let top = sb.top();
    let f = &case.flags;
    let mut rg = Rg::new(&sb.tmp.path.join(CWD)).args(["--no-config", "--files"]);
    rg = rg.env("HOME", &format!("{top}/home"));
    let xdg_empty = matches!(&case.global, Some(g) if g.via == 2);
    rg = rg.env("XDG_CONFIG_HOME", &if xdg_empty { String::new() } else { format!("{top}/xdg") });
    let sw = |on: bool, name: &str, rg: Rg| if on { rg.arg(name) } else { rg };
    rg = sw(f.hidden, "--hidden", rg);
    rg = sw(f.no_ignore, "--no-ignore", rg);
    rg = sw(f.no_ignore_vcs, "--no-ignore-vcs", rg);
    rg = sw(f.no_ignore_dot, "--no-ignore-dot", rg);
    rg = sw(f.no_ignore_exclude, "--no-ignore-exclude", rg);
    rg = sw(f.no_ignore_global, "--no-ignore-global", rg);
    rg = sw(f.no_ignore_parent, "--no-ignore-parent", rg);
    rg = sw(f.no_ignore_files, "--no-ignore-files", rg);
    rg = sw(f.no_require_git, "--no-require-git", rg);
    rg = sw(f.j1, "-j1", rg);
    match f.unrestricted {
        0 => {}
        1 => rg = rg.arg("-u"),
        2 => rg = rg.arg("-uu"),
        _ => rg = rg.arg("-uuu"),
    }
    if f.type_add_obj {
        rg = rg.args(["--type-add", "obj:*.o"]);
    }
    for (neg, name) in &f.types {
        rg = rg.args([if *neg { "-T" } else { "-t" }, name.as_str()]);
    }
    if let Some(d) = f.max_depth {
        rg = rg.args(["--max-depth".to_string(), d.to_string()]);
    }
    for g in &case.globs {
        rg = rg.args(["-g", g.as_str()]);
    }
    for (i, igf) in case.ignore_files.iter().enumerate() {
        let p = if igf.abs { format!("{top}/if{i}") } else { format!("../../if{i}") };
        rg = rg.args(["--ignore-file".to_string(), p]);
    }
    for r in &case.roots {
        let s = match r.style {
            0 => {
                if r.path.is_empty() {
                    ".".to_string()
                } else {
                    r.path.clone()
                }
            }
            1 => format!("./{}", r.path),
            3 => format!("{}/", r.path),
            _ => format!("{top}/{}", join(CWD, &r.path)),
        };
        rg = rg.arg(s);
    }
    rg
}

fn render_tree(case: &Case, m: &Model) -> String {
    let mut s = String::new();
    s.push_str("  tree (relative to the sandbox top T; cwd = T/o/w):\n");
    for (d, kids) in &m.children {
        let names: Vec<String> = kids.iter().map(|(n, is_dir)| if *is_dir { format!("{n}/") } else { n.clone() }).collect();
        s.push_str(&format!("    T/{d}: {}\n", names.join(" ")));
    }
    for rf in &case.rule_files {
        s.push_str(&format!("  {} in T/{}: {:?}\n", rf.src.name(), rf.dir, rf.lines));
    }
    if let Some(g) = &case.global {
        let via = ["$XDG_CONFIG_HOME/git/ignore", "core.excludesFile in $HOME/.gitconfig", "$HOME/.config/git/ignore (XDG_CONFIG_HOME empty)"][g.via as usize % 3];
        s.push_str(&format!("  global gitignore via {via}: {:?}\n", g.lines));
    }
    for (i, f) in case.ignore_files.iter().enumerate() {
        s.push_str(&format!("  --ignore-file T/if{i}: {:?}\n", f.lines));
    }
    s.push_str(&format!("  .git directories in: {:?}\n", m.gits.iter().map(|g| format!("T/{g}")).collect::<Vec<_>>()));
    s
}

fn well_formed(case: &Case) -> bool {
    let under = |p: &String| is_at_or_below(p, CWD) && p != CWD && !p.contains("//") && !p.ends_with('/');
    case.dirs.iter().all(under)
        && case.files.iter().all(under)
        && case.flags.unrestricted <= 3
        && case.flags.types.iter().all(|(_, n)| n == "rust" || n == "txt" || (n == "obj" && case.flags.type_add_obj))
        && case.roots.iter().all(|r| r.style <= 2 || (r.style == 3 && !r.path.is_empty()))
        && case.global.as_ref().map_or(true, |g| g.via <= 2 && g.lines.iter().all(|l| !is_anchored_line(l)))
}

pub fn check(case: &Case) -> Verdict {
    if !well_formed(case) {
        return Verdict::Reject("malformed case");
    }
    let mut model = Model::new(case);
    // every root must exist
    for r in &case.roots {
        let rt = Model::root_t(r);
        if !model.is_dir(&rt) && !model.exists_file(&rt) {
            return Verdict::Reject("root does not exist in the tree");
        }
    }
    // the flag documentation says --ignore-file rules are "matched relative to
    // the current working directory"; what that means for an anchored rule
    // when the walked path is absolute is not spelled out
    let eff = effective(&case.flags);
    let anchored_if = eff.files && case.ignore_files.iter().any(|f| f.lines.iter().any(|l| is_anchored_line(l)));
    if anchored_if && case.roots.iter().any(|r| r.style == 2 && model.is_dir(&Model::root_t(r))) {
        return Verdict::Reject("anchored --ignore-file rule with an absolute directory root (anchor undefined by the docs)");
    }

    let sb = build_sandbox(case);
    let top = sb.top();
    let mut st = Stats::default();
    let want = model.expected(&top, &mut st);
    let rg = build_cmd(case, &sb);
    let cmdline = rg.cmdline().replace(&top, "T");
    let out = rg.run();
    if out.timed_out {
        return Verdict::Reject("rg timed out (inconclusive)");
    }
    let mut got: Vec<String> = String::from_utf8_lossy(&out.stdout).lines().map(String::from).collect();
    got.sort();
    let strip = |v: &[String]| v.iter().map(|s| s.replace(&top, "T")).collect::<Vec<_>>();
    let describe = |what: &str, model: &Model| {
        let w = strip(&want);
        let g = strip(&got);
        let missing: Vec<&String> = w.iter().filter(|p| !g.contains(p)).collect();
        let extra: Vec<&String> = g.iter().filter(|p| !w.contains(p)).collect();
        format!(
            "{what}\n  command (cwd T/o/w): {cmdline}\n{}  expected: {:?}\n  observed: {:?}\n  listed by rg but not by the documented rules: {:?}\n  required by the documented rules but not listed: {:?}\n  exit status {:?}, stderr: {}",
            render_tree(case, model),
            w,
            g,
            extra,
            missing,
            out.status,
            String::from_utf8_lossy(&out.stderr).replace(&top, "T")
        )
    };
    if out.status == Some(2) || out.status.is_none() {
        return Verdict::Fail(Fail::new(describe("rg --files reported an error", &model)).fact("rg-error"));
    }
    if got != want {
        let mut fail = Fail::new(describe("the set of listed files differs from the documented precedence of filters", &model));
        // does the diagnosed parent-path defect explain exactly this output?
        if eff.parent {
            let n = case.roots.len().max(1);
            let cands: Vec<String> = if case.roots.is_empty() { vec![CWD.to_string()] } else { case.roots.iter().map(Model::root_t).collect() };
            let mut assign = vec![0usize; n];
            'outer: loop {
                model.rebase = Some(Rebase { base_of_root: assign.iter().map(|i| cands[*i].clone()).collect() });
                let mut st2 = Stats::default();
                if model.expected(&top, &mut st2) == got {
                    fail = fail.fact("parent-rule-path-rebased-on-containing-dir");
                    break;
                }
                // next assignment
                let mut k = 0;
                loop {
                    if k == n {
                        break 'outer;
                    }
                    assign[k] += 1;
                    if assign[k] < cands.len() {
                        break;
                    }
                    assign[k] = 0;
                    k += 1;
                }
            }
            model.rebase = None;
        }
        return Verdict::Fail(fail);
    }

    let nontrivial = !st.conflicts.is_empty() || st.same_src_depth_conflict;
    let mut info = Info::new(nontrivial);
    for (hi, lo, same_dir) in &st.conflicts {
        info.class(pair_name(*hi, *lo));
        info.class(if *same_dir { "conflict_same_dir" } else { "conflict_different_depth" });
    }
    info.class_if(nontrivial, "conflict_any");
    info.class_if(st.same_src_depth_conflict, "conflict_same_source_nearer_dir_wins");
    for c in &st.hidden_whitelisted_by {
        info.class(c);
    }
    info.class_if(st.rule_above_root_decided, "rule_above_search_root_decided");
    info.class_if(st.rule_above_cwd_decided, "rule_above_cwd_decided");
    info.class_if(st.git_rule_skipped_no_repo, "git_rule_inert_outside_repository");
    info.class_if(st.git_rule_skipped_above_repo, "git_rule_inert_above_repository_root");
    info.class_if(st.git_rule_applied_in_repo, "git_rule_applied_inside_repository");
    info.class_if(st.git_rule_applied_no_require_git, "git_rule_applied_by_no_require_git");
    info.class_if(st.parent_rule_skipped_by_flag, "parent_rule_removed_by_flag");
    for s in &st.disabled_source_had_opinion {
        info.class(disabled_name(*s));
    }
    info.class_if(st.override_unmatched_skip, "override_unmatched_file_skipped");
    info.class_if(st.override_whitelist_beats_ignore, "override_whitelist_beats_ignore_rule");
    info.class_if(st.type_ignored, "type_ignored");
    info.class_if(st.type_whitelist, "type_whitelisted");
    info.class_if(st.whitelist_then_type_ignore, "ignore_whitelist_then_type_ignore");
    info.class_if(st.ignored_dir_pruned, "ignored_dir_not_descended");
    info.class_if(st.dir_only_rule_vs_file, "dir_only_rule_vs_file");
    info.class_if(st.depth_cut, "depth_limit_cut");
    info.class_if(model.gits.is_empty(), "no_repository");
    info.class_if(model.gits.len() >= 2, "nested_or_several_repositories");
    info.class_if(case.roots.is_empty(), "root_implicit");
    info.class_if(case.roots.len() >= 2, "root_several");
    for r in &case.roots {
        let rt = Model::root_t(r);
        if !model.is_dir(&rt) {
            info.class("root_explicit_file");
            let mut st3 = Stats::default();
            if model.skip(&rt, false, parent(&rt), 0, &mut st3) {
                info.class("explicit_file_searched_despite_filters");
            }
        } else {
            info.class(match (r.style, r.path.is_empty()) {
                (0, true) => "root_dot",
                (1, true) => "root_dot_slash",
                (0, false) => "root_relative_dir",
                (1, false) => "root_dot_slash_dir",
                (3, _) => "root_trailing_slash_dir",
                (_, true) => "root_absolute_cwd",
                _ => "root_absolute_dir",
            });
        }
    }
    let f = &case.flags;
    info.class_if(f.hidden, "flag_hidden");
    info.class_if(f.no_ignore, "flag_no_ignore");
    info.class_if(f.no_ignore_vcs, "flag_no_ignore_vcs");
    info.class_if(f.no_ignore_dot, "flag_no_ignore_dot");
    info.class_if(f.no_ignore_exclude, "flag_no_ignore_exclude");
    info.class_if(f.no_ignore_global, "flag_no_ignore_global");
    info.class_if(f.no_ignore_parent, "flag_no_ignore_parent");
    info.class_if(f.no_ignore_files, "flag_no_ignore_files");
    info.class_if(f.unrestricted == 1, "flag_u");
    info.class_if(f.unrestricted == 2, "flag_uu");
    info.class_if(f.unrestricted == 3, "flag_uuu");
    info.class_if(f.no_require_git, "flag_no_require_git");
    info.class_if(!f.types.is_empty(), "flag_types");
    info.class_if(f.max_depth.is_some(), "flag_max_depth");
    info.class_if(f.j1, "serial_walker");
    info.class_if(!case.globs.is_empty(), "has_globs");
    info.class_if(want.is_empty(), "nothing_listed");
    info.class_if(st.visited >= 10, "visited>=10");
    Verdict::Pass(info)
}

const SRC_SHORT: [&str; 7] = ["glob", "rgignore", "ignore", "gitignore", "exclude", "global", "ignorefile"];

fn pair_name(hi: usize, lo: usize) -> &'static str {
    static NAMES: std::sync::OnceLock<Vec<&'static str>> = std::sync::OnceLock::new();
    let names = NAMES.get_or_init(|| {
        let mut v = vec![];
        for h in 0..7 {
            for l in 0..7 {
                let s: &'static str = Box::leak(format!("pair:{}>{}", SRC_SHORT[h], SRC_SHORT[l]).into_boxed_str());
                v.push(s);
            }
        }
        v
    });
    names[hi * 7 + lo]
}

fn disabled_name(s: usize) -> &'static str {
    ["", "disabled_rgignore_had_opinion", "disabled_ignore_had_opinion", "disabled_gitignore_had_opinion", "disabled_exclude_had_opinion", "disabled_global_had_opinion", "disabled_ignorefile_had_opinion"][s]
}

/// The sandbox lives under $TMPDIR; nothing above it may carry rules.
fn environment_is_clean() -> Result<(), String> {
    let probe = new_tmp("c05-probe");
    let mut d: Option<&std::path::Path> = probe.path.parent();
    while let Some(p) = d {
        for n in [".git", ".gitignore", ".ignore", ".rgignore"] {
            if p.join(n).exists() {
                return Err(format!("{} exists above the scratch directory", p.join(n).display()));
            }
        }
        d = p.parent();
    }
    Ok(())
}

pub fn run(pc: &PropCtx) {
    pc.rule(
        "a case is a sandbox T/o/w/<tree> (cwd T/o/w; tree depth <= 3 from names {x.rs,y.txt,z.o,n,.h,.x.rs,b | a,b,.hd}), .git directories at 0-2 levels (T, T/o, cwd, sub-directories), one contested existing entry that 2-4 rule sources (-g, .rgignore, .ignore, .gitignore, .git/info/exclude, global gitignore via XDG / core.excludesFile / $HOME/.config, --ignore-file) placed in any ancestor directory up to T rule on with ALTERNATING polarity, 0-3 unrelated rules, rule forms name | name/ | /name | dir/name | *.ext | dir/*.ext and their negations, flags from {--hidden, --no-ignore, --no-ignore-{vcs,dot,exclude,global,parent,files}, -u/-uu/-uuu, --no-require-git, -t/-T/--type-add, --max-depth, -j1}, roots: none, '.', './', relative dir, './dir', absolute dir, several, explicit files. Oracle: FilterModel written from GUIDE.md / flag docs / WalkBuilder docs; `rg --files` output compared as a sorted multiset in both directions. Non-trivial = on some entry reached by the documented traversal two enabled, applicable rule files give opposite verdicts (ignore vs whitelist); distinct by hash of the case",
    );
    pc.assume("no .git/.gitignore/.ignore/.rgignore exists in $TMPDIR or above (verified at start)");
    pc.assume("a single rule of the sub-grammar means what `man gitignore` says (C04/C12 own glob semantics)");
    pc.bound("tree_depth_below_cwd", serde_json::json!(3));
    pc.bound("rule_sources", serde_json::json!(7));
    if let Err(e) = environment_is_clean() {
        pc.inconclusive(e);
        return;
    }
    let cases = pc.tier.pick(20_000, 200_000);
    pc.run_tape("precedence", cases, (64, 400), gen_case, check);
    let n = cases as u64;
    pc.require_class("precedence:conflict_any", n * 3 / 10);
    pc.require_class("precedence:conflict_different_depth", n / 20);
    pc.require_class("precedence:rule_above_search_root_decided", n / 40);
    pc.require_class("precedence:rule_above_cwd_decided", n / 100);
    pc.require_class("precedence:git_rule_inert_outside_repository", n / 100);
    pc.require_class("precedence:git_rule_inert_above_repository_root", n / 200);
    pc.require_class("precedence:git_rule_applied_by_no_require_git", n / 100);
    pc.require_class("precedence:parent_rule_removed_by_flag", n / 200);
    pc.require_class("precedence:hidden_whitelisted_by_ignore_file", n / 200);
    pc.require_class("precedence:explicit_file_searched_despite_filters", n / 200);
    pc.require_class("precedence:override_unmatched_file_skipped", n / 100);
    pc.require_class("precedence:root_several", n / 40);
    pc.require_class("precedence:root_absolute_dir", n / 100);
    // every adjacent pair of the documented order must have been contested
    for (h, l) in [(0, 1), (1, 2), (2, 3), (3, 4), (4, 5), (5, 6)] {
        pc.require_class(&format!("precedence:{}", pair_name(h, l)), n / 400);
    }
}

pub fn replay(_pc: &PropCtx, _sub: &str, case: &serde_json::Value) -> Result<Verdict, String> {
    let c: Case = serde_json::from_value(case.clone()).map_err(|e| e.to_string())?;
    Ok(check(&c))
}
