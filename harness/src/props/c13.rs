//! C13 — multi-line search reports exactly the lines covered by the
//! pattern's matches.

use grep_matcher::Matcher;
use grep_regex::RegexMatcher;
use serde::{Deserialize, Serialize};

use crate::bs::Bs;
use crate::gen::{self, ReOpts};
use crate::mat::{CaseMode, PatCfg};
use crate::model;
use crate::runner::{Fail, Info, PropCtx, Verdict};
use crate::sea::{self, Event, SCfg, Strat, Term};
use crate::tape::Tape;

#[derive(Clone, Debug, Serialize, Deserialize)]
pub struct Case {
    pub pat: PatCfg,
    pub cfg: SCfg,
    pub input: Bs,
    pub strat: Strat,
}

pub fn ml_opts() -> ReOpts {
    ReOpts {
        max_nodes: 9,
        allow_newline: true,
        allow_literal_newline: true,
        allow_unicode: true,
        allow_captures: true,
        allow_look: true,
        allow_flags: true,
        allow_bytes: true,
        allow_cr_nul: true,
    }
}

const TEMPLATES: &[&str] = &[
    "x\\ny", "a|^b\\nc", "a|\\Bb\\nc", "\\s+", "a\\n?b", "(?s)a.b", "[^a]+", "a\\n\\nb", "\\n", "^$", "x|a\\nb", "a$\\n^b", "\\bb\\n", "a*\\n?", "(?s).+x", "b\\n|a",
    "\\w+\\n\\w+", "a\\s*$", "\\n\\n", "(?m)^a$\\n", "a\\nb|c",
];

pub fn gen_ml_haystack(t: &mut Tape, hirs: &[regex_syntax::hir::Hir], term: Term) -> Vec<u8> {
    let mut alpha = vec![];
    for h in hirs {
        gen::literal_alphabet(h, &mut alpha);
    }
    alpha.retain(|b| *b != b'\n' && *b != 0);
    if alpha.is_empty() {
        alpha.extend_from_slice(b"ab");
    }
    let mut v = vec![];
    let n = t.small(14);
    for _ in 0..n {
        match t.weighted(&[5, 3, 3, 1]) {
            0 => {
                if !hirs.is_empty() {
                    let h = &hirs[t.below(hirs.len())];
                    gen::sample_hir(t, h, &[], &mut v, 0);
                }
            }
            1 => {
                let k = t.small(4);
                for _ in 0..k {
                    v.push(*t.pick(&alpha));
                }
            }
            2 => {
                if term == Term::Crlf && t.chance(2, 3) {
                    v.push(b'\r');
                }
                v.push(term.byte());
            }
            _ => v.extend_from_slice(*t.pick(&[b" ".as_slice(), b"\r", b"\t", b"\xFF", "é".as_bytes(), b"x", b"\n\n"])),
        }
    }
    if !t.chance(1, 4) && !v.is_empty() && *v.last().unwrap() != term.byte() {
        v.push(term.byte());
    }
    v
}

pub fn gen_pat(t: &mut Tape) -> PatCfg {
    let term = *t.pick(&[Term::Lf, Term::Lf, Term::Lf, Term::Crlf, Term::Nul]);
    let p = if t.chance(1, 3) {
        t.pick(TEMPLATES).to_string()
    } else {
        let base = gen::gen_re(t, &ml_opts()).render();
        // make sure most patterns can really cross a line boundary
        match t.below(6) {
            0 => base,
            1 => format!("(?:{base})\\n"),
            2 => format!("(?:{base})\\s"),
            3 => format!("\\n(?:{base})"),
            4 => format!("(?:{base})\\n?(?:{})", gen::gen_re(t, &ml_opts()).render()),
            _ => format!("(?:{base})[^a]"),
        }
    };
    let mut pat = PatCfg::simple(&p, term);
    pat.multiline = true;
    pat.dotall = t.chance(1, 4);
    pat.case = if t.chance(1, 6) { CaseMode::Insensitive } else { CaseMode::Sensitive };
    pat.word = t.chance(1, 10);
    pat.whole_line = !pat.word && t.chance(1, 12);
    pat
}

pub fn gen_case(t: &mut Tape) -> Case {
    let pat = gen_pat(t);
    let term = pat.term;
    let hirs: Vec<_> =
        gen::parse_hir(&pat.patterns[0], pat.case == CaseMode::Insensitive, true, term == Term::Crlf, pat.dotall).into_iter().collect();
    let input = gen_ml_haystack(t, &hirs, term);
    let passthru = t.chance(1, 8);
    let cfg = SCfg {
        term,
        invert: t.chance(1, 4),
        before: t.small(3),
        after: t.small(3),
        passthru,
        line_number: !t.chance(1, 6),
        multi_line: true,
        warm: gen::gen_warm(t, term),
        ..SCfg::default()
    };
    let strat = match t.weighted(&[4, 4, 1, 1]) {
        0 => Strat::Slice,
        1 => Strat::Reader { chunks: super::c03::gen_chunks(t), capacity: None },
        2 => Strat::PathNoMmap,
        _ => Strat::PathMmap,
    };
    Case { pat, cfg, input: Bs(input), strat }
}

/// Successive matches over the whole input, as the searcher documents its
/// iteration: continue at the end of the match, one byte further after an
/// empty match. `skip_adjacent_empty` gives the regex crate's iterator rule
/// instead (an empty match right at the end of the previous match is not a
/// match).
pub fn enumerate_matches(m: &RegexMatcher, input: &[u8], skip_adjacent_empty: bool) -> Vec<(usize, usize)> {
    let mut out = vec![];
    let mut pos = 0;
    let mut last_end: Option<usize> = None;
    // the searcher searches only while something is left to search
    while pos < input.len() {
        let Ok(Some(mt)) = m.find_at(input, pos) else { break };
        let (s, e) = (mt.start(), mt.end());
        if skip_adjacent_empty && s == e && last_end == Some(e) {
            pos = e + 1;
            continue;
        }
        out.push((s, e));
        last_end = Some(e);
        pos = if s == e { e + 1 } else { e };
    }
    out
}

/// The line cover computed the way the inverted multi-line searcher
/// iterates: after a match, continue at the end of the last *line* the match
/// touches. Only used to classify the known finding.
pub fn covered_lines_invert_restart(m: &RegexMatcher, input: &[u8], lines: &[model::Line], _term: u8) -> Vec<bool> {
    let mut cov = vec![false; lines.len()];
    let mut pos = 0;
    while pos < input.len() {
        let Ok(Some(mt)) = m.find_at(input, pos) else { break };
        let c = covered_lines(lines, input.len(), &[(mt.start(), mt.end())]);
        let mut block_end = None;
        for (i, x) in c.iter().enumerate() {
            if *x {
                cov[i] = true;
                block_end = Some(lines[i].end);
            }
        }
        match block_end {
            Some(e) if e > pos => pos = e,
            _ => pos = mt.end().max(pos) + 1,
        }
    }
    cov
}

/// Lines overlapped by the matches (by index).
pub fn covered_lines(lines: &[model::Line], input_len: usize, matches: &[(usize, usize)]) -> Vec<bool> {
    let mut cov = vec![false; lines.len()];
    let line_of = |p: usize| lines.iter().position(|l| l.start <= p && p < l.end);
    for &(s, e) in matches {
        if s == e {
            let i = if s < input_len {
                line_of(s)
            } else {
                // at the very end: belongs to an unterminated last line only
                match lines.last() {
                    Some(l) if !l.terminated => Some(lines.len() - 1),
                    _ => None,
                }
            };
            if let Some(i) = i {
                cov[i] = true;
            }
        } else {
            let (Some(a), Some(b)) = (line_of(s), line_of(e - 1)) else { continue };
            for c in cov.iter_mut().take(b + 1).skip(a) {
                *c = true;
            }
        }
    }
    cov
}

pub fn check(case: &Case) -> Verdict {
    let v = check_inner(case);
    if let Verdict::Fail(_) = &v {
        // attribute failures on inputs where the regex engine contradicts itself
        if let Ok(m) = case.pat.build() {
            let term = case.cfg.term;
            // (no instance is known for this property, so such a case counts as undecidable
            // rather than as a finding)
            return match crate::mat::attribute_engine(v, &m, None, &case.input.0, term.byte(), term == Term::Crlf) {
                Verdict::Fail(f) if f.facts.iter().any(|x| x == crate::mat::ENGINE_FACT) => {
                    Verdict::Reject("the regex engine contradicts itself across start offsets on this input (undecidable; see the C01 finding)")
                }
                v => v,
            };
        }
    }
    v
}

fn check_inner(case: &Case) -> Verdict {
    let m = match case.pat.build() {
        Ok(m) => m,
        Err(_) => return Verdict::Reject("builder rejected the pattern"),
    };
    let searcher = sea::build_searcher(&case.cfg, &case.strat);
    if !searcher.multi_line_with_matcher(&m) {
        return Verdict::Reject("searcher selected line mode (covered by C02)");
    }
    let input = &case.input.0;
    if gen::starts_with_bom(input) {
        return Verdict::Reject("input starts with a byte-order mark (transcoding is C17's subject)");
    }
    let term = case.cfg.term;
    let lines = model::split_lines(input, term.byte());
    let ma = enumerate_matches(&m, input, false);
    let mb = enumerate_matches(&m, input, true);
    let cov_a = covered_lines(&lines, input.len(), &ma);
    let cov_b = covered_lines(&lines, input.len(), &mb);
    let out = sea::run(&m, &case.cfg, &case.strat, input, None, None);
    let (body, fin) = model::split_finish(&out.events);
    let mk_exp = |cov: &[bool]| {
        let success: Vec<bool> = cov.iter().map(|c| *c != case.cfg.invert).collect();
        model::expected(input, &case.cfg, &lines, &success, !case.cfg.invert)
    };
    let exp_a = mk_exp(&cov_a);
    let res_a = model::compare(&exp_a, body);
    let ambiguous = cov_a != cov_b;
    let fail = |msg: String| {
        let mut f = Fail::new(format!(
            "{msg}\n pattern={:?} (case={:?} word={} whole_line={} dotall={}) term={term:?}\n cfg={:?}\n strategy={}\n input={:?}\n matches over the whole input (find_at, advance rule): {:?}\n covered lines: {:?}\n expected: {}\n observed: {} -> {:?}",
            case.pat.patterns[0], case.pat.case, case.pat.word, case.pat.whole_line, case.pat.dotall,
            case.cfg, case.strat.label(), case.input, ma,
            cov_a.iter().enumerate().filter(|(_, c)| **c).map(|(i, _)| i + 1).collect::<Vec<_>>(),
            sea::show_events(&exp_a.events), sea::show_events(&out.events), out.result
        ));
        if case.cfg.invert {
            f = f.fact("invert");
        }
        f
    };
    if let Err(e) = &out.result {
        return Verdict::Fail(fail(format!("search failed: {e}")));
    }
    if let Err(e) = res_a {
        if ambiguous && model::compare(&mk_exp(&cov_b), body).is_ok() {
            let mut info = Info::new(false);
            info.class("iteration_ambiguous_accepted");
            return Verdict::Pass(info);
        }
        let mut f = fail(e);
        if case.cfg.invert {
            // Known finding: in inverted multi-line mode the searcher resumes
            // at the end of the last matched *line block*, so a match that
            // begins inside that block and extends beyond it is never seen.
            let cov_c = covered_lines_invert_restart(&m, input, &lines, term.byte());
            if cov_c != cov_a && model::compare(&mk_exp(&cov_c), body).is_ok() {
                f = f.fact("invert-restarts-search-at-line-block-end");
            }
        }
        return Verdict::Fail(f);
    }
    match fin {
        Some(Event::Finish { byte_count, .. }) => {
            if *byte_count != input.len() as u64 {
                return Verdict::Fail(fail(format!("completed search reports {byte_count} bytes searched, input has {}", input.len())).fact("byte_count"));
            }
        }
        _ => return Verdict::Fail(fail("no finish event".into())),
    }
    let spans_two = ma.iter().any(|&(s, e)| e > s && input[s..e - 1].contains(&term.byte()));
    let some_unreported = cov_a.iter().any(|c| !*c) && cov_a.iter().any(|c| *c);
    let mut info = Info::new(spans_two && some_unreported);
    info.class_if(spans_two, "match_spans_lines");
    info.class_if(case.cfg.invert, "invert");
    info.class_if(case.cfg.warm.is_some(), "searcher_reused_after_another_input");
    info.class_if(ambiguous, "iteration_ambiguous");
    info.class_if(ma.iter().any(|&(s, e)| s == e), "empty_match");
    info.class_if(
        ma.windows(2).any(|w| w[0].1 > 0 && w[0].1 < input.len() && input[w[0].1 - 1] != term.byte()),
        "resumption_point_inside_a_line",
    );
    info.class_if(term == Term::Crlf, "crlf");
    info.class_if(case.cfg.passthru || case.cfg.before + case.cfg.after > 0, "context");
    // adjacent covered lines coming from different matches (merge case)
    let mut merged = false;
    for w in ma.windows(2) {
        let (a, b) = (covered_lines(&lines, input.len(), &[w[0]]), covered_lines(&lines, input.len(), &[w[1]]));
        let la = a.iter().rposition(|x| *x);
        let fb = b.iter().position(|x| *x);
        if let (Some(la), Some(fb)) = (la, fb) {
            if fb == la + 1 || fb == la {
                merged = true;
            }
        }
    }
    info.class_if(merged, "adjacent_or_overlapping_ranges_merged");
    Verdict::Pass(info)
}

pub fn run(pc: &PropCtx) {
    pc.rule(
        "generated (pattern that may match the terminator, built as rg -U builds it; input assembled from strings sampled from the pattern's language, filler and terminators; -v, context, passthru, CRLF/NUL; slice/reader/file/mmap). Oracle: matches enumerated by Matcher::find_at over the WHOLE input with the documented advance rule, mapped to lines by the harness's own splitter, fed to the LineModel (merging adjacent reported lines). Non-trivial = at least one match spans two lines and at least one line is not covered; distinct by hash",
    );
    pc.assume("the matcher's find_at on the whole input is trusted here (the property is about the searcher's multi-line loop)");
    pc.assume("when the advance rule and the regex crate's iterator rule give different line sets, either is accepted (counted as iteration_ambiguous)");
    let cases = pc.tier.pick(150_000, 1_500_000);
    pc.run_tape("multi_line", cases, (128, 1500), gen_case, check);
    if pc.tier == crate::runner::Tier::Thorough {
        pc.run_fuzz("C13:multi_line", 20_000, 6000, &|v| replay(pc, "multi_line", v).unwrap_or(Verdict::Reject("unreadable")));
    }
    pc.require_class("multi_line:match_spans_lines", cases as u64 / 20);
}

pub fn replay(_pc: &PropCtx, _sub: &str, case: &serde_json::Value) -> Result<Verdict, String> {
    let c: Case = serde_json::from_value(case.clone()).map_err(|e| e.to_string())?;
    Ok(check(&c))
}
