//! C17 — transcoded input is searched as its UTF-8 equivalent.
//!
//! Differential oracle: `encoding_rs` one-shot decoding (BOM overrides the
//! label, malformed sequences become U+FFFD, the mark is removed) yields the
//! reference UTF-8 bytes. Searching those bytes with `bom_sniffing(false)`
//! and no encoding under `Strat::Slice` gives the expected event list; the
//! encoded input under every strategy and read fragmentation must give the
//! identical list (matches, context, line numbers, offsets in the transcoded
//! stream, final byte count). With `bom_sniffing(false)` (= `--encoding
//! none`) the expected events are those of the raw bytes, BOM included.

use std::collections::HashMap;
use std::io::{self, Read};
use std::sync::{Mutex, OnceLock};

use encoding_rs::{DecoderResult, Encoding, UTF_16BE, UTF_16LE, UTF_8};
use grep_regex::RegexMatcher;
use serde::{Deserialize, Serialize};

use crate::bs::Bs;
use crate::cli::{Rg, TempDir};
use crate::mat::PatCfg;
use crate::runner::{Fail, Info, PropCtx, Verdict};
use crate::sea::{self, ChunkReader, Event, RecSink, RunOut, SCfg, Strat, Term};
use crate::tape::Tape;

/// Size of the searcher's transcoding scratch buffer (`decode_buffer`).
const DECODE_BUF: usize = 8 * 1024;

#[derive(Clone, Debug, Serialize, Deserialize)]
pub struct Case {
    pub pat: PatCfg,
    /// `encoding` = explicit label, `bom_sniffing(false)` = `--encoding none`
    pub cfg: SCfg,
    /// the encoded bytes as they reach the searcher (BOM included, if any)
    pub input: Bs,
    /// strategies in addition to `Strat::Slice`, which is always run
    pub strats: Vec<Strat>,
    pub cli: bool,
    /// what the generator meant to build (evidence only; the oracle derives
    /// everything from `cfg` and `input`)
    pub shape: String,
}

// ---------------------------------------------------------------------------
// oracle
// ---------------------------------------------------------------------------

/// How the documented rules say the input is to be read.
#[derive(Clone, Copy, Debug, PartialEq, Eq)]
enum Eff {
    /// `bom_sniffing(false)`, no label: raw bytes, BOM included
    RawNone,
    /// sniffing on, no BOM, no label: searched as if it were UTF-8
    RawPlain,
    /// UTF-8 BOM: BOM removed, the rest passed through
    Utf8Bom { label: bool },
    /// decoded from this encoding; `bom` = encoding came from a BOM
    Decoded { enc: &'static Encoding, bom: bool, label: bool, label_agrees: bool },
}

struct Plan {
    eff: Eff,
    bom_len: usize,
    reference: Vec<u8>,
}

fn label_encoding(label: &str) -> Option<&'static Encoding> {
    Encoding::for_label_no_replacement(label.as_bytes())
}

/// The reference UTF-8 bytes, from the documentation alone:
/// * SearcherBuilder::bom_sniffing(false) without an encoding: bytes passed
///   through unchanged, BOM included;
/// * SearcherBuilder::encoding: transcoded from the label "unless a BOM is
///   present. If a BOM is present, then the encoding indicated by the BOM is
///   used instead"; errors become U+FFFD — exactly `Encoding::decode`;
/// * no label: a UTF-8 / UTF-16 BOM selects the encoding, otherwise the
///   bytes are searched as they are.
fn plan(cfg: &SCfg, input: &[u8]) -> Result<Plan, &'static str> {
    let label = match &cfg.encoding {
        None => None,
        Some(l) => Some(label_encoding(l).ok_or("unknown encoding label")?),
    };
    if !cfg.bom_sniffing {
        if label.is_some() {
            // not reachable from the command line, and the documentation of
            // bom_sniffing(false) only speaks about "no explicit encoding"
            return Err("explicit label together with bom_sniffing(false): undocumented");
        }
        return Ok(Plan { eff: Eff::RawNone, bom_len: 0, reference: input.to_vec() });
    }
    match (Encoding::for_bom(input), label) {
        (None, None) => Ok(Plan { eff: Eff::RawPlain, bom_len: 0, reference: input.to_vec() }),
        (Some((b, n)), l) if b == UTF_8 => {
            // the decoder is documented as pass-through for UTF-8 (2.9):
            // only valid content is in the domain
            if std::str::from_utf8(&input[n..]).is_err() {
                return Err("UTF-8 BOM followed by invalid UTF-8 (documented pass-through)");
            }
            Ok(Plan { eff: Eff::Utf8Bom { label: l.is_some() }, bom_len: n, reference: input[n..].to_vec() })
        }
        (Some((b, n)), l) => {
            // Encoding::decode: BOM sniffing takes precedence over `self`
            let (text, used, _) = l.unwrap_or(UTF_8).decode(input);
            if used != b {
                return Err("encoding_rs did not honour the BOM (harness assumption broken)");
            }
            Ok(Plan {
                eff: Eff::Decoded { enc: b, bom: true, label: l.is_some(), label_agrees: l == Some(b) },
                bom_len: n,
                reference: text.into_owned().into_bytes(),
            })
        }
        (None, Some(l)) => {
            // (an explicit utf-8 label installs a real decoder — only a sniffed
            // UTF-8 BOM is passed through —, so malformed sequences become
            // U+FFFD like for every other label)
            let (text, used, _) = l.decode(input);
            if used != l {
                return Err("encoding_rs changed the encoding without a BOM (harness assumption broken)");
            }
            Ok(Plan {
                eff: Eff::Decoded { enc: l, bom: false, label: true, label_agrees: true },
                bom_len: 0,
                reference: text.into_owned().into_bytes(),
            })
        }
    }
}

fn eff_tag(eff: &Eff) -> String {
    match eff {
        Eff::RawNone => "encoding-none".into(),
        Eff::RawPlain => "plain".into(),
        Eff::Utf8Bom { label: false } => "utf8-bom".into(),
        Eff::Utf8Bom { label: true } => "utf8-bom+label".into(),
        Eff::Decoded { enc, bom: true, label: false, .. } => format!("{}-bom", enc.name().to_ascii_lowercase()),
        Eff::Decoded { enc, bom: true, label: true, label_agrees: true } => {
            format!("{}-bom+same-label", enc.name().to_ascii_lowercase())
        }
        Eff::Decoded { enc, bom: true, label: true, label_agrees: false } => {
            format!("{}-bom+other-label", enc.name().to_ascii_lowercase())
        }
        Eff::Decoded { enc, .. } => format!("label-{}", enc.name().to_ascii_lowercase()),
    }
}

// ---------------------------------------------------------------------------
// source-character map (classification only)
// ---------------------------------------------------------------------------

#[derive(Clone, Copy, Debug, PartialEq, Eq)]
enum SpanKind {
    /// one UTF-16 code unit (BMP character)
    Unit,
    /// surrogate pair
    Pair,
    /// multi-byte character of a byte encoding
    Multi,
    /// malformed sequence (lone surrogate, odd byte, bad lead/trail)
    Malformed,
}

/// One source character (or malformed sequence): source bytes `s..e`
/// (absolute in the input) and transcoded bytes `os..oe`.
#[derive(Clone, Copy, Debug)]
struct Span {
    s: usize,
    e: usize,
    os: usize,
    oe: usize,
    kind: SpanKind,
}

fn utf8_len(u: u32) -> usize {
    match u {
        0..=0x7F => 1,
        0x80..=0x7FF => 2,
        0x800..=0xFFFF => 3,
        _ => 4,
    }
}

/// Spans of interest (length >= 2 or malformed) of UTF-16 text, parsed by hand.
fn spans_utf16(src: &[u8], le: bool, base: usize) -> Vec<Span> {
    let unit = |i: usize| -> u16 {
        if le {
            u16::from_le_bytes([src[i], src[i + 1]])
        } else {
            u16::from_be_bytes([src[i], src[i + 1]])
        }
    };
    let mut out = vec![];
    let (mut i, mut o) = (0usize, 0usize);
    while i + 1 < src.len() {
        let u = unit(i);
        let is_hi = (0xD800..0xDC00).contains(&u);
        let is_lo = (0xDC00..0xE000).contains(&u);
        if is_hi && i + 3 < src.len() && (0xDC00..0xE000).contains(&unit(i + 2)) {
            out.push(Span { s: base + i, e: base + i + 4, os: o, oe: o + 4, kind: SpanKind::Pair });
            i += 4;
            o += 4;
        } else if is_hi || is_lo {
            out.push(Span { s: base + i, e: base + i + 2, os: o, oe: o + 3, kind: SpanKind::Malformed });
            i += 2;
            o += 3;
        } else {
            let n = utf8_len(u as u32);
            out.push(Span { s: base + i, e: base + i + 2, os: o, oe: o + n, kind: SpanKind::Unit });
            i += 2;
            o += n;
        }
    }
    if i < src.len() {
        out.push(Span { s: base + i, e: base + i + 1, os: o, oe: o + 3, kind: SpanKind::Malformed });
    }
    out
}

/// Spans of a byte encoding, found by feeding the streaming decoder one byte
/// at a time (no replacement) and noting where output appears.
fn spans_bytewise(enc: &'static Encoding, src: &[u8], base: usize) -> Vec<Span> {
    let mut dec = enc.new_decoder_without_bom_handling();
    let mut out = vec![];
    let mut buf = [0u8; 32];
    let (mut pos, mut cur, mut o) = (0usize, 0usize, 0usize);
    let mut guard = 0usize;
    loop {
        guard += 1;
        if guard > 4 * src.len() + 16 {
            return vec![];
        }
        let last = pos >= src.len();
        let chunk: &[u8] = if last { &[] } else { &src[pos..pos + 1] };
        let (res, nin, nout) = dec.decode_to_utf8_without_replacement(chunk, &mut buf, last);
        pos += nin;
        let (mal_start, mal_end) = match res {
            DecoderResult::Malformed(bad, extra) => {
                let end = pos.saturating_sub(extra as usize);
                (end.saturating_sub(bad as usize), end)
            }
            _ => (pos, pos),
        };
        if nout > 0 {
            let end = if matches!(res, DecoderResult::Malformed(..)) { mal_start } else { pos };
            if end > cur + 1 {
                out.push(Span { s: base + cur, e: base + end, os: o, oe: o + nout, kind: SpanKind::Multi });
            }
            o += nout;
            cur = end;
        }
        match res {
            DecoderResult::Malformed(..) => {
                out.push(Span { s: base + mal_start, e: base + mal_end, os: o, oe: o + 3, kind: SpanKind::Malformed });
                o += 3;
                cur = mal_end;
            }
            DecoderResult::InputEmpty => {
                if last {
                    break;
                }
            }
            DecoderResult::OutputFull => {}
        }
    }
    out
}

/// The map is only used when it reproduces the one-shot decoding.
fn verified_spans(p: &Plan, input: &[u8]) -> Option<Vec<Span>> {
    let body = &input[p.bom_len..];
    let spans = match p.eff {
        Eff::RawNone | Eff::RawPlain => return Some(vec![]),
        Eff::Utf8Bom { .. } => {
            let s = std::str::from_utf8(body).ok()?;
            s.char_indices()
                .filter(|(_, c)| c.len_utf8() > 1)
                .map(|(i, c)| Span {
                    s: p.bom_len + i,
                    e: p.bom_len + i + c.len_utf8(),
                    os: i,
                    oe: i + c.len_utf8(),
                    kind: SpanKind::Multi,
                })
                .collect::<Vec<_>>()
        }
        Eff::Decoded { enc, .. } if enc == UTF_16LE => spans_utf16(body, true, p.bom_len),
        Eff::Decoded { enc, .. } if enc == UTF_16BE => spans_utf16(body, false, p.bom_len),
        Eff::Decoded { enc, .. } => spans_bytewise(enc, body, p.bom_len),
    };
    // cross-check: malformed spans sit on U+FFFD, the last span ends inside the reference
    for sp in &spans {
        if sp.oe > p.reference.len() {
            return None;
        }
        if sp.kind == SpanKind::Malformed && &p.reference[sp.os..sp.oe] != "\u{FFFD}".as_bytes() {
            return None;
        }
    }
    if let Eff::Decoded { enc, .. } = p.eff {
        if enc == UTF_16LE || enc == UTF_16BE {
            // the hand parser covers every source byte
            let total: usize = spans.last().map_or(0, |s| s.oe);
            if total != p.reference.len() {
                return None;
            }
        }
    }
    Some(spans)
}

// ---------------------------------------------------------------------------
// execution with a read log
// ---------------------------------------------------------------------------

struct LogReader<'a> {
    inner: ChunkReader<'a>,
    pos: usize,
    ends: Vec<usize>,
}

impl<'a> Read for LogReader<'a> {
    fn read(&mut self, buf: &mut [u8]) -> io::Result<usize> {
        let n = self.inner.read(buf)?;
        if n > 0 {
            self.pos += n;
            self.ends.push(self.pos);
        }
        Ok(n)
    }
}

/// Run one search; also return the source offsets at which one read of the
/// transcoder's input ended and the next began.
fn run_logged(m: &RegexMatcher, cfg: &SCfg, strat: &Strat, input: &[u8]) -> (RunOut, Vec<usize>) {
    let (out, mut ends) = match strat {
        Strat::Reader { chunks, .. } => {
            let mut searcher = sea::build_searcher(cfg, strat);
            let mut sink = RecSink::new(None);
            let mut rdr = LogReader { inner: ChunkReader::new(input, chunks, None), pos: 0, ends: vec![] };
            let result = searcher.search_reader(m, &mut rdr, &mut sink);
            let out = RunOut {
                events: sink.events,
                after_fault: sink.after_fault,
                result: result.map_err(|e| e.to_string()),
                reads: rdr.inner.reads,
                data_reads: rdr.inner.data_reads,
                read_fault_fired: false,
                buffer_mismatch: sink.buffer_mismatch,
            };
            (out, rdr.ends)
        }
        _ => {
            // slices, files and maps hand out as much as is asked for: the
            // BOM peek takes 3 bytes, every refill of the 8 KiB buffer 8192
            let out = sea::run(m, cfg, strat, input, None, None);
            let mut ends = vec![];
            let mut p = 3;
            while p < input.len() {
                ends.push(p);
                p += DECODE_BUF;
            }
            (out, ends)
        }
    };
    // the BOM peeker reads the first three bytes on its own and hands the
    // non-BOM rest of them to the decoder as one piece
    ends.retain(|b| *b > 3 && *b < input.len());
    if input.len() > 3 {
        ends.insert(0, 3);
    }
    ends.dedup();
    (out, ends)
}

fn strat_tag(s: &Strat) -> &'static str {
    match s {
        Strat::Slice => "slice",
        Strat::Reader { capacity: Some(c), .. } if *c < 4 => "reader-cap<4",
        Strat::Reader { .. } => "reader",
        Strat::HeapLimit { .. } => "heap-limit",
        Strat::PathNoMmap => "path",
        Strat::PathMmap => "mmap",
        Strat::PathFifo => "fifo",
        Strat::PathHeapLimit { .. } => "path-heap-limit",
    }
}

fn intern(s: String) -> &'static str {
    static TABLE: OnceLock<Mutex<HashMap<String, &'static str>>> = OnceLock::new();
    let mut t = TABLE.get_or_init(|| Mutex::new(HashMap::new())).lock().unwrap();
    if let Some(v) = t.get(&s) {
        return v;
    }
    let v: &'static str = Box::leak(s.clone().into_boxed_str());
    t.insert(s, v);
    v
}

fn split_kind(sp: &Span, b: usize) -> &'static str {
    match sp.kind {
        SpanKind::Unit => "code-unit",
        SpanKind::Pair if b == sp.s + 2 => "pair-between-units",
        SpanKind::Pair => "pair-inside-unit",
        SpanKind::Multi => "multibyte-char",
        SpanKind::Malformed => "malformed-seq",
    }
}

// ---------------------------------------------------------------------------
// the check
// ---------------------------------------------------------------------------

fn first_diff(a: &[Event], b: &[Event]) -> usize {
    a.iter().zip(b.iter()).position(|(x, y)| x != y).unwrap_or(a.len().min(b.len()))
}

fn window(ev: &[Event], at: usize) -> String {
    let lo = at.saturating_sub(2);
    let hi = (at + 3).min(ev.len());
    let mut s = format!("[{lo}..{hi} of {}] ", ev.len());
    s.push_str(&sea::show_events(&ev[lo..hi]));
    s
}

fn clip(b: &[u8]) -> String {
    if b.len() <= 600 {
        format!("{:?} ({} bytes)", Bs(b.to_vec()), b.len())
    } else {
        format!(
            "{:?} .. {:?} ({} bytes; the replay file has all of them)",
            Bs(b[..300].to_vec()),
            Bs(b[b.len() - 200..].to_vec()),
            b.len()
        )
    }
}

fn cli_flags(case: &Case) -> Vec<String> {
    let mut v: Vec<String> =
        ["--no-config", "--color", "never", "-a", "-n", "-b", "--no-heading", "--no-filename"].iter().map(|s| s.to_string()).collect();
    if case.cfg.invert {
        v.push("-v".into());
    }
    if case.cfg.passthru {
        v.push("--passthru".into());
    } else {
        v.extend(["-A".to_string(), case.cfg.after.to_string(), "-B".to_string(), case.cfg.before.to_string()]);
    }
    if case.cfg.stop_on_nonmatch {
        v.push("--stop-on-nonmatch".into());
    }
    if case.pat.multiline {
        v.push("-U".into());
    }
    match case.cfg.term {
        Term::Crlf => v.push("--crlf".into()),
        Term::Nul => v.push("--null-data".into()),
        Term::Lf => {}
    }
    v
}

fn enc_flags(cfg: &SCfg) -> Vec<String> {
    if !cfg.bom_sniffing {
        vec!["-E".into(), "none".into()]
    } else if let Some(l) = &cfg.encoding {
        vec!["-E".into(), l.clone()]
    } else {
        vec![]
    }
}

/// `-n -b --no-heading --no-filename` rendering of a line-mode event list.
fn render(ev: &[Event]) -> Option<Vec<u8>> {
    let mut out = vec![];
    for e in ev {
        let (sep, line, offset, bytes) = match e {
            Event::Match { line, offset, bytes } => (b':', line, offset, bytes),
            Event::Context { line, offset, bytes, .. } => (b'-', line, offset, bytes),
            Event::Break => {
                out.extend_from_slice(b"--\n");
                continue;
            }
            Event::Binary { .. } => return None,
            Event::Begin | Event::Finish { .. } => continue,
        };
        let line = (*line)?;
        out.extend_from_slice(line.to_string().as_bytes());
        out.push(sep);
        out.extend_from_slice(offset.to_string().as_bytes());
        out.push(sep);
        out.extend_from_slice(&bytes.0);
        if bytes.0.last() != Some(&b'\n') {
            out.push(b'\n');
        }
    }
    Some(out)
}

/// `rg [-E LABEL | -E none] --mmap f`, `--no-mmap f` and stdin print what
/// `rg -E none` prints for the transcoded file.
fn check_cli(case: &Case, p: &Plan, m: &RegexMatcher) -> Option<Fail> {
    let dir = TempDir::new("c17");
    dir.write("enc", &case.input.0);
    dir.write("ref", &p.reference);
    let base = |extra: &[String]| {
        Rg::new(&dir.path).args(cli_flags(case)).args(extra.iter().cloned()).arg("-e").arg(&case.pat.patterns[0])
    };
    let none: Vec<String> = vec!["-E".into(), "none".into(), "--no-mmap".into()];
    let r = base(&none).arg("ref");
    let ref_cmd = r.cmdline();
    let r = r.run();
    if r.timed_out {
        return None;
    }
    let ef = enc_flags(&case.cfg);
    let with = |more: &str| {
        let mut v = ef.clone();
        if !more.is_empty() {
            v.push(more.to_string());
        }
        v
    };
    let runs = [
        ("--mmap", base(&with("--mmap")).arg("enc")),
        ("--no-mmap", base(&with("--no-mmap")).arg("enc")),
        ("stdin", base(&with("")).stdin(case.input.0.clone())),
    ];
    for (name, rg) in runs {
        let cmd = rg.cmdline();
        let o = rg.run();
        if o.timed_out {
            return None;
        }
        if o.stdout != r.stdout || o.status != r.status {
            let explains = |alt: &[u8]| {
                dir.write("alt", alt);
                let a = base(&none).arg("alt").run();
                !a.timed_out && a.stdout == o.stdout && a.status == o.status
            };
            let facts = root_cause_facts(case, p, &explains);
            let mut f =
                Fail::new(format!(
                    "CLI: searching the encoded file differs from searching its UTF-8 transcoding ({name})\n encoded cmd: {cmd}{}\n reference cmd: {ref_cmd}\n input={}\n transcoded={}\n encoded: status={:?} stdout={} stderr={:?}\n reference: status={:?} stdout={} stderr={:?}",
                    if name == "stdin" { " < enc" } else { "" },
                    clip(&case.input.0),
                    clip(&p.reference),
                    o.status,
                    clip(&o.stdout),
                    Bs(o.stderr.clone()),
                    r.status,
                    clip(&r.stdout),
                    Bs(r.stderr.clone()),
                ))
                .fact("cli");
            for fact in facts {
                f = f.fact(fact);
            }
            return Some(f);
        }
    }
    // the reference run itself against the in-process expectation (line mode, LF)
    if !case.cfg.multi_line && case.cfg.term == Term::Lf {
        let cfg = SCfg { encoding: None, bom_sniffing: false, line_number: true, ..case.cfg.clone() };
        let exp = sea::run(m, &cfg, &Strat::Slice, &p.reference, None, None);
        if let (Ok(()), Some(text)) = (&exp.result, render(&exp.events)) {
            if text != r.stdout {
                return Some(
                    Fail::new(format!(
                        "CLI: rg on the transcoded file prints something else than the in-process search of the same bytes\n cmd: {ref_cmd}\n transcoded={}\n rg stdout={}\n expected={}",
                        clip(&p.reference),
                        clip(&r.stdout),
                        clip(&text)
                    ))
                    .fact("cli-render"),
                );
            }
        }
    }
    None
}

pub fn check(case: &Case) -> Verdict {
    let m = match case.pat.build() {
        Ok(m) => m,
        Err(_) => return Verdict::Reject("builder rejected the pattern"),
    };
    let input = &case.input.0;
    let p = match plan(&case.cfg, input) {
        Ok(p) => p,
        Err(why) => return Verdict::Reject(why),
    };
    let ref_cfg = SCfg { encoding: None, bom_sniffing: false, ..case.cfg.clone() };
    let expected = sea::run(&m, &ref_cfg, &Strat::Slice, &p.reference, None, None);
    if expected.result.is_err() {
        return Verdict::Reject("searching the reference bytes failed");
    }
    let tag = eff_tag(&p.eff);
    let spans = verified_spans(&p, input);
    let transcoding = !matches!(p.eff, Eff::RawNone | Eff::RawPlain);

    let mut info = Info::new(false);
    let mut split_before_match = false;
    let mut strats = vec![Strat::Slice];
    strats.extend(case.strats.iter().cloned());
    // end offsets (in the transcoded stream) of the reported matching lines
    let match_ends: Vec<usize> = expected
        .events
        .iter()
        .filter_map(|e| match e {
            Event::Match { offset, bytes, .. } => Some(*offset as usize + bytes.len()),
            _ => None,
        })
        .collect();
    let last_match_end = match_ends.iter().copied().max();

    let mut explained: Option<Fail> = None;
    for strat in &strats {
        let (out, ends) = run_logged(&m, &case.cfg, strat, input);
        if out.events != expected.events || out.result != expected.result {
            let at = first_diff(&out.events, &expected.events);
            let mut f = Fail::new(format!(
                "searching the encoded input differs from searching its UTF-8 transcoding ({tag}, {})\n pattern={:?} multiline={}\n cfg={:?}\n input={}\n transcoded (encoding_rs one-shot)={}\n first difference at event {at}\n expected: {} -> {:?}\n observed: {} -> {:?}\n as rg: rg {} {} -e {:?} FILE",
                strat.label(),
                case.pat.patterns[0],
                case.pat.multiline,
                case.cfg,
                clip(input),
                clip(&p.reference),
                window(&expected.events, at),
                expected.result,
                window(&out.events, at),
                out.result,
                cli_flags(case).join(" "),
                enc_flags(&case.cfg).join(" "),
                case.pat.patterns[0],
            ));
            let explains = |alt: &[u8]| {
                let e = sea::run(&m, &ref_cfg, &Strat::Slice, alt, None, None);
                e.events == out.events && e.result == out.result
            };
            let facts = root_cause_facts(case, &p, &explains);
            if facts.is_empty() {
                return Verdict::Fail(f);
            }
            // a deviation with a named root cause: remember it, but keep
            // looking at the other strategies so that it cannot hide an
            // unexplained one
            for fact in facts {
                f = f.fact(fact);
            }
            explained.get_or_insert(f);
            continue;
        }
        if out.buffer_mismatch {
            return Verdict::Fail(Fail::new(format!(
                "SinkMatch::buffer()[range] != bytes() under {} ({tag})\n pattern={:?}\n cfg={:?}\n input={}",
                strat.label(),
                case.pat.patterns[0],
                case.cfg,
                clip(input)
            )));
        }
        // which characters did this fragmentation split?
        if let (true, Some(spans)) = (transcoding, &spans) {
            let st = strat_tag(strat);
            for sp in spans {
                if sp.e - sp.s < 2 {
                    continue;
                }
                let i = ends.partition_point(|b| *b <= sp.s);
                if let Some(&b) = ends.get(i) {
                    if b < sp.e {
                        let kind = split_kind(sp, b);
                        info.class(intern(format!("split|{tag}|{kind}|{st}")));
                        info.class(intern(format!("split:{kind}")));
                        if b >= DECODE_BUF && (b - 3) % DECODE_BUF == 0 && !matches!(strat, Strat::Reader { chunks, .. } if !chunks.is_empty() && chunks.iter().all(|c| *c < 64)) {
                            info.class(intern(format!("split-at-8KiB-refill:{kind}")));
                        }
                        if last_match_end.map_or(false, |me| me >= sp.oe) {
                            split_before_match = true;
                            info.class(intern(format!("match-after-split:{kind}")));
                        }
                    }
                }
            }
        }
    }

    let mut after_malformed = false;
    if let Some(spans) = &spans {
        if let Some(first_mal) = spans.iter().find(|s| s.kind == SpanKind::Malformed) {
            info.class("has_malformed_sequence");
            if last_match_end.map_or(false, |me| me >= first_mal.oe) {
                after_malformed = true;
            }
        }
        info.class_if(spans.iter().any(|s| s.kind == SpanKind::Pair), "has_surrogate_pair");
    } else {
        info.class(intern(format!("charmap_unverified:{tag}")));
    }
    if case.cli {
        if let Some(f) = check_cli(case, &p, &m) {
            if f.facts.len() <= 1 {
                return Verdict::Fail(f);
            }
            explained.get_or_insert(f);
        }
    }
    if let Some(f) = explained {
        return Verdict::Fail(f);
    }

    info.nontrivial = transcoding && (split_before_match || after_malformed);
    info.class(intern(format!("enc:{tag}")));
    info.class_if(after_malformed, "match_after_malformed_sequence");
    info.class_if(case.cfg.warm.is_some(), "searcher_reused_after_another_input");
    info.class_if(split_before_match, "match_after_split_character");
    info.class_if(!match_ends.is_empty(), "has_match");
    info.class_if(input.len() > DECODE_BUF, "input>8KiB");
    let near = |n: usize| (1..=3).any(|k| (n as i64 - (k * DECODE_BUF + 3) as i64).abs() <= 3);
    info.class_if(near(input.len()), "input_ends_within_3_bytes_of_8KiB_refill");
    info.class_if(p.eff == Eff::RawNone && Encoding::for_bom(input).is_some(), "encoding_none_with_bom");
    info.class_if(matches!(p.eff, Eff::Decoded { bom: true, label: true, label_agrees: false, .. }), "bom_beats_conflicting_label");
    info.class_if(matches!(p.eff, Eff::Utf8Bom { label: true }), "utf8_bom_with_label");
    info.class_if(matches!(p.eff, Eff::Decoded { enc, .. } if enc == UTF_16LE || enc == UTF_16BE) && (input.len() - p.bom_len) % 2 == 1, "utf16_odd_byte_count");
    info.class_if(p.reference.starts_with("\u{FEFF}".as_bytes()) && transcoding, "text_begins_with_U+FEFF");
    if case.cfg.multi_line {
        let s = sea::build_searcher(&case.cfg, &Strat::Slice);
        info.class_if(s.multi_line_with_matcher(&m), "multi_line_strategy");
        info.class_if(s.multi_line_with_matcher(&m) && case.strats.iter().any(|s| matches!(s, Strat::PathNoMmap)), "multi_line_from_file");
    }
    info.class_if(case.strats.iter().any(|s| matches!(s, Strat::PathMmap)), "file_and_mmap");
    info.class_if(case.strats.iter().any(|s| matches!(s, Strat::Reader { capacity: Some(c), .. } if *c < 4)), "caller_buffer<4(tiny transcoder)");
    info.class_if(case.cfg.term == Term::Crlf, "crlf");
    info.class_if(case.cli, "cli_run");
    Verdict::Pass(info)
}

const FACT_A: &str = "utf8-bom-stripped-but-rest-decoded-with-the-label";
const FACT_B: &str = "leading-U+FEFF-of-the-text-removed-after-the-BOM";
const FACT_C: &str = "truncated-double-byte-character-at-end-of-input-dropped";
const FACT_D: &str = "end-of-input-flush-cut-short-by-a-caller-buffer-smaller-than-its-output";

/// Does the decoder still hold something when the end of `body` is reached:
/// an incomplete sequence, or the BMP unit that followed an unpaired high
/// surrogate (encoding_rs emits that one with the next call)?
fn pending_at_eof(enc: &'static Encoding, body: &[u8]) -> bool {
    let spans = if enc == UTF_16LE {
        spans_utf16(body, true, 0)
    } else if enc == UTF_16BE {
        spans_utf16(body, false, 0)
    } else if enc == UTF_8 {
        return false;
    } else {
        spans_bytewise(enc, body, 0)
    };
    match &spans[..] {
        [.., last] if last.kind == SpanKind::Malformed && last.e == body.len() => true,
        [.., prev, last] => {
            prev.kind == SpanKind::Malformed && last.kind == SpanKind::Unit && last.e == body.len() && last.oe - last.os >= 2
        }
        _ => false,
    }
}

/// Facts naming the root-cause shape of a mismatch, for known-finding
/// classification. Each is only attached when the observed events are exactly
/// those the named deviation (or the named combination) predicts.
fn root_cause_facts(case: &Case, p: &Plan, explains: &dyn Fn(&[u8]) -> bool) -> Vec<&'static str> {
    let input = &case.input.0;
    let body = &input[p.bom_len..];
    let fffd = "\u{FFFD}".as_bytes();
    let zwnbsp = "\u{FEFF}".as_bytes();
    // Is the observation what searching `alt` (= `src` decoded from `enc`)
    // gives, exactly or after one of the two end-of-input deviations?
    let via = |alt: &[u8], enc: &'static Encoding, src: &[u8]| -> Option<Vec<&'static str>> {
        if explains(alt) {
            return Some(vec![]);
        }
        let n = alt.len();
        // (D) the decoder still holds something when the end of input is seen
        // and the reader's caller offers fewer bytes than the flush produces:
        // only the first one or two bytes of the last character arrive
        // (encoding_rs_io checks `exhausted` before draining its tiny transcoder)
        if n >= 2 && pending_at_eof(enc, src) && (explains(&alt[..n - 1]) || explains(&alt[..n - 2])) {
            return Some(vec![FACT_D]);
        }
        // (C) a double-byte encoding whose last byte is a lead byte without
        // its trail: the final U+FFFD is missing when the end of input is
        // discovered by a refill of its own (encoding_rs drops the pending
        // lead when called with an empty, non-final input)
        if enc != UTF_16LE && enc != UTF_16BE && enc != UTF_8 && alt.ends_with(fffd) && !src.is_empty() {
            let (without_last, _) = enc.decode_without_bom_handling(&src[..src.len() - 1]);
            let truncated_lead = [without_last.as_bytes(), fffd].concat() == alt;
            if truncated_lead && explains(without_last.as_bytes()) {
                return Some(vec![FACT_C]);
            }
        }
        None
    };
    let mut facts = vec![];
    match p.eff {
        Eff::Utf8Bom { label: true } => {
            let Some(l) = case.cfg.encoding.as_deref().and_then(label_encoding) else { return facts };
            if l != UTF_8 {
                // (A) UTF-8 BOM with an explicit non-UTF-8 label: the BOM is
                // stripped but the rest is decoded with the label's encoding
                let (alt, _) = l.decode_without_bom_handling(body);
                if let Some(more) = via(alt.as_bytes(), l, body) {
                    facts.push(FACT_A);
                    facts.extend(more);
                }
            }
            // (B) through the UTF-8 decoder (label utf-8, or a build in which
            // the UTF-8 BOM does override the label)
            if facts.is_empty() && p.reference.starts_with(zwnbsp) && explains(&p.reference[zwnbsp.len()..]) {
                facts.push(FACT_B);
            }
        }
        Eff::Decoded { enc, bom, .. } => {
            if let Some(more) = via(&p.reference, enc, body) {
                facts.extend(more);
            } else if bom && p.reference.starts_with(zwnbsp) {
                // (B) the text itself begins with U+FEFF: removed a second time
                if let Some(more) = via(&p.reference[zwnbsp.len()..], enc, body) {
                    facts.push(FACT_B);
                    facts.extend(more);
                }
            }
        }
        _ => {}
    }
    facts
}

// ---------------------------------------------------------------------------
// generator
// ---------------------------------------------------------------------------

#[derive(Clone, Copy, Debug, PartialEq, Eq)]
enum Enc {
    U16Le,
    U16Be,
    U8,
    Latin1,
    Sjis,
    EucKr,
}

impl Enc {
    fn encoding(self) -> &'static Encoding {
        match self {
            Enc::U16Le => UTF_16LE,
            Enc::U16Be => UTF_16BE,
            Enc::U8 => UTF_8,
            Enc::Latin1 => encoding_rs::WINDOWS_1252,
            Enc::Sjis => encoding_rs::SHIFT_JIS,
            Enc::EucKr => encoding_rs::EUC_KR,
        }
    }
    fn labels(self) -> &'static [&'static str] {
        match self {
            Enc::U16Le => &["utf-16le", "utf-16"],
            Enc::U16Be => &["utf-16be"],
            Enc::U8 => &["utf-8", "utf8"],
            Enc::Latin1 => &["latin1", "windows-1252", "iso-8859-1"],
            Enc::Sjis => &["shift_jis", "sjis"],
            Enc::EucKr => &["euc-kr", "korean"],
        }
    }
    fn bom(self) -> &'static [u8] {
        match self {
            Enc::U16Le => b"\xFF\xFE",
            Enc::U16Be => b"\xFE\xFF",
            Enc::U8 => b"\xEF\xBB\xBF",
            _ => b"",
        }
    }
    fn is_utf16(self) -> bool {
        matches!(self, Enc::U16Le | Enc::U16Be)
    }
    /// bytes per ASCII character
    fn width(self) -> usize {
        if self.is_utf16() {
            2
        } else {
            1
        }
    }
}

#[derive(Clone, Copy, Debug)]
enum Atom {
    Ch(char),
    /// a raw UTF-16 code unit (lone surrogates)
    Unit(u16),
    /// a raw byte (malformed sequences of byte encodings; an odd byte in UTF-16)
    Raw(u8),
}

fn encode(enc: Enc, atoms: &[Atom]) -> Vec<u8> {
    let mut out = vec![];
    let mut pending = String::new();
    let flush = |pending: &mut String, out: &mut Vec<u8>| {
        if pending.is_empty() {
            return;
        }
        match enc {
            Enc::U16Le => pending.encode_utf16().for_each(|u| out.extend_from_slice(&u.to_le_bytes())),
            Enc::U16Be => pending.encode_utf16().for_each(|u| out.extend_from_slice(&u.to_be_bytes())),
            Enc::U8 => out.extend_from_slice(pending.as_bytes()),
            _ => out.extend_from_slice(&enc.encoding().encode(pending).0),
        }
        pending.clear();
    };
    for a in atoms {
        match *a {
            Atom::Ch(c) => pending.push(c),
            Atom::Unit(u) => {
                flush(&mut pending, &mut out);
                match enc {
                    Enc::U16Le => out.extend_from_slice(&u.to_le_bytes()),
                    Enc::U16Be => out.extend_from_slice(&u.to_be_bytes()),
                    _ => {}
                }
            }
            Atom::Raw(b) => {
                flush(&mut pending, &mut out);
                // UTF-8 content stays valid (DESIGN 2.9)
                if enc != Enc::U8 {
                    out.push(b);
                }
            }
        }
    }
    flush(&mut pending, &mut out);
    out
}

struct PatSpec {
    re: &'static str,
    needles: &'static [&'static str],
    multi: bool,
}

/// Simple literal / class patterns; simplest first.
const PATS: &[PatSpec] = &[
    PatSpec { re: "x", needles: &["x"], multi: false },
    PatSpec { re: "ab", needles: &["ab"], multi: false },
    PatSpec { re: "^a", needles: &["a"], multi: false },
    PatSpec { re: "b$", needles: &["b"], multi: false },
    PatSpec { re: "[0-9]+z", needles: &["7z", "42z"], multi: false },
    PatSpec { re: "[a-c]x", needles: &["ax", "cx", "x"], multi: false },
    PatSpec { re: r"\w+y", needles: &["oy", "y"], multi: false },
    PatSpec { re: "(?i)AB", needles: &["ab", "Ab"], multi: false },
    PatSpec { re: "^$", needles: &[], multi: false },
    PatSpec { re: "é", needles: &["é"], multi: false },
    PatSpec { re: "☃", needles: &["☃"], multi: false },
    PatSpec { re: "𝄞", needles: &["𝄞"], multi: false },
    PatSpec { re: "あ", needles: &["あ"], multi: false },
    PatSpec { re: "한", needles: &["한"], multi: false },
    // malformed sequences make this one match
    PatSpec { re: r"\x{FFFD}", needles: &["\u{FFFD}"], multi: false },
    // must not see the mark
    PatSpec { re: r"^\x{FEFF}", needles: &["\u{FEFF}"], multi: false },
    PatSpec { re: r"[^\x00-\x7F]x", needles: &["éx", "x"], multi: false },
    // multi-line (matcher built the -U way, searcher with multi_line)
    PatSpec { re: r"b\na", needles: &["b", "a"], multi: true },
    PatSpec { re: r"(?s)a.b", needles: &["a", "b"], multi: true },
    PatSpec { re: r"x\s+a", needles: &["x", "a"], multi: true },
    PatSpec { re: r"[^a]x", needles: &["x", "ax"], multi: true },
    PatSpec { re: r"\x{FFFD}\n", needles: &["\u{FFFD}"], multi: true },
];

const BMP: &[char] = &[
    'é', 'ß', '☃', 'あ', '한', '中', '\u{FFFD}', '\u{A0}', '\u{85}', '\u{7FF}', '\u{800}', '\u{FFFF}', '\u{D7FF}',
    '\u{E000}', '\u{2028}', '\u{FEFF}',
];
const ASTRAL: &[char] = &['𝄞', '😀', '\u{10000}', '\u{10FFFF}'];
const FILL: &[char] = &['o', 'p', 'y', ' ', 'q', '0'];

fn gen_group(t: &mut Tape, enc: Enc, needles: &[&str], out: &mut Vec<Atom>) {
    let kind = t.weighted(&[4, 4, 2, 2, 2]);
    gen_group_kind(t, enc, needles, kind, out)
}

/// kind: 0 filler, 1 needle, 2 BMP / high byte, 3 astral / double-byte run,
/// 4 malformed (where the encoding has such a thing)
fn gen_group_kind(t: &mut Tape, enc: Enc, needles: &[&str], kind: usize, out: &mut Vec<Atom>) {
    match kind {
        0 => {
            let n = 1 + t.below(4);
            for _ in 0..n {
                out.push(Atom::Ch(*t.pick(FILL)));
            }
        }
        1 => {
            if needles.is_empty() {
                out.push(Atom::Ch('o'));
            } else {
                out.extend(t.pick(needles).chars().map(Atom::Ch));
            }
        }
        2 => match enc {
            Enc::U16Le | Enc::U16Be | Enc::U8 => out.push(Atom::Ch(*t.pick(BMP))),
            Enc::Latin1 => {
                if t.bool() {
                    out.push(Atom::Ch(*t.pick(&['é', 'ß', '\u{A0}', 'ÿ', '€', '…'])));
                } else {
                    out.push(Atom::Raw(0x80 | t.byte()));
                }
            }
            Enc::Sjis => out.push(Atom::Ch(*t.pick(&['あ', '中', 'ｶ', '漢', '亜', '。', 'Ａ']))),
            Enc::EucKr => out.push(Atom::Ch(*t.pick(&['한', '글', '가', '中', '힣', 'Ａ']))),
        },
        3 => match enc {
            Enc::U16Le | Enc::U16Be | Enc::U8 => out.push(Atom::Ch(*t.pick(ASTRAL))),
            Enc::Latin1 => out.push(Atom::Raw(*t.pick(&[0x81u8, 0x8D, 0x8F, 0x90, 0x9D, 0xFF, 0x80]))),
            Enc::Sjis => out.extend("漢字ｶﾅ".chars().map(Atom::Ch)),
            Enc::EucKr => out.extend("한글".chars().map(Atom::Ch)),
        },
        _ => match enc {
            // lone and misordered surrogates
            Enc::U16Le | Enc::U16Be => match t.below(6) {
                0 => out.push(Atom::Unit(0xD800)),
                1 => out.push(Atom::Unit(0xDC00)),
                2 => out.push(Atom::Unit(0xDBFF)),
                3 => out.push(Atom::Unit(0xDFFF)),
                4 => out.extend([Atom::Unit(0xDC00), Atom::Unit(0xD800)]),
                _ => out.extend([Atom::Unit(0xD83D), Atom::Unit(0xD83D), Atom::Unit(0xDE00)]),
            },
            Enc::U8 => out.push(Atom::Ch(*t.pick(ASTRAL))),
            Enc::Latin1 => out.push(Atom::Raw(0x80 | t.byte())),
            // lone lead bytes (whatever follows becomes the trail), invalid
            // trails, bytes that are never valid
            Enc::Sjis => match t.below(6) {
                0 => out.push(Atom::Raw(*t.pick(&[0x81u8, 0x9F, 0xE0, 0xFC]))),
                1 => out.extend([Atom::Raw(0x81), Atom::Raw(0x7F)]),
                2 => out.extend([Atom::Raw(0x82), Atom::Raw(0x20)]),
                3 => out.push(Atom::Raw(*t.pick(&[0xA0u8, 0xFD, 0xFE, 0xFF]))),
                4 => out.extend([Atom::Raw(0xFC), Atom::Raw(0xFC)]),
                _ => out.push(Atom::Raw(0x80)),
            },
            Enc::EucKr => match t.below(5) {
                0 => out.push(Atom::Raw(*t.pick(&[0x81u8, 0xB0, 0xC8, 0xFE]))),
                1 => out.extend([Atom::Raw(0xB0), Atom::Raw(0x20)]),
                2 => out.push(Atom::Raw(*t.pick(&[0x80u8, 0xFF]))),
                3 => out.extend([Atom::Raw(0xC9), Atom::Raw(0xA1)]),
                _ => out.extend([Atom::Raw(0xB0), Atom::Raw(0xFF)]),
            },
        },
    }
}

fn push_term(term: Term, out: &mut Vec<Atom>) {
    match term {
        Term::Lf => out.push(Atom::Ch('\n')),
        Term::Crlf => out.extend([Atom::Ch('\r'), Atom::Ch('\n')]),
        Term::Nul => out.push(Atom::Ch('\0')),
    }
}

/// A few lines of text, as atoms.
fn gen_text(t: &mut Tape, enc: Enc, term: Term, needles: &[&str], max_lines: usize) -> Vec<Atom> {
    let mut out = vec![];
    let nlines = t.below(max_lines + 1);
    for i in 0..nlines {
        let groups = t.small(7);
        for _ in 0..groups {
            gen_group(t, enc, needles, &mut out);
        }
        if enc.is_utf16() && t.chance(1, 40) {
            // an odd byte in the middle: every later code unit is shifted
            out.push(Atom::Raw(*t.pick(&[0x61u8, 0x0A, 0x00, 0xD8])));
        }
        if i + 1 < nlines || !t.chance(1, 4) {
            push_term(term, &mut out);
        }
    }
    if enc.is_utf16() && t.chance(1, 5) {
        // odd byte count
        out.push(Atom::Raw(*t.pick(&[0x61u8, 0x0A, 0x00, 0xD8, 0xFF])));
    } else if matches!(enc, Enc::Sjis | Enc::EucKr) && t.chance(1, 10) {
        // truncated double-byte character at the very end
        out.push(Atom::Raw(if enc == Enc::Sjis { 0x82 } else { 0xB0 }));
    }
    out
}

/// `nbytes` (rounded down to whole characters) of plain filler lines.
fn filler(enc: Enc, term: Term, nbytes: usize, wrap: usize, needle: Option<&str>) -> Vec<u8> {
    let nchars = nbytes / enc.width();
    let mut s: Vec<char> = vec!['p'; nchars];
    let tl = if term == Term::Crlf { 2 } else { 1 };
    let mut i = wrap;
    let mut line = 0;
    while i <= nchars {
        if i >= tl {
            match term {
                Term::Lf => s[i - 1] = '\n',
                Term::Nul => s[i - 1] = '\0',
                Term::Crlf => {
                    s[i - 2] = '\r';
                    s[i - 1] = '\n';
                }
            }
        }
        if let Some(n) = needle {
            let start = i - wrap + 3;
            if line % 8 == 5 && n.is_ascii() && start + n.len() + tl < i {
                for (k, c) in n.chars().enumerate() {
                    s[start + k] = c;
                }
            }
        }
        line += 1;
        i += wrap;
    }
    // the interesting region starts at a line start
    if nchars >= tl {
        match term {
            Term::Lf => s[nchars - 1] = '\n',
            Term::Nul => s[nchars - 1] = '\0',
            Term::Crlf => {
                s[nchars - 2] = '\r';
                s[nchars - 1] = '\n';
            }
        }
    }
    let atoms: Vec<Atom> = s.into_iter().map(Atom::Ch).collect();
    encode(enc, &atoms)
}

const SMALL_SCHEDULES: &[&[usize]] =
    &[&[1], &[2], &[3], &[1, 2], &[2, 1, 3], &[5], &[7], &[3, 3, 1], &[4], &[6, 1], &[9], &[13, 2], &[17]];
const BIG_SCHEDULES: &[&[usize]] =
    &[&[], &[8191], &[8192], &[8193], &[4097], &[8189, 7], &[4095, 4098], &[3, 8190], &[1000, 1], &[2731]];

fn gen_strats(t: &mut Tape, big: bool) -> Vec<Strat> {
    let mut v = vec![];
    let n = 2 + t.below(2);
    for _ in 0..n {
        let chunks: Vec<usize> = if big && t.chance(2, 3) {
            t.pick(BIG_SCHEDULES).to_vec()
        } else if t.chance(1, 5) {
            let k = 1 + t.below(3);
            (0..k).map(|_| 1 + t.small(16)).collect()
        } else {
            t.pick(SMALL_SCHEDULES).to_vec()
        };
        let capacity = match t.weighted(&[2, 2, 1, 1, 1, 3]) {
            0 => Some(1),
            1 => None,
            2 => Some(2),
            3 => Some(3),
            4 => Some(4),
            _ => Some(5 + t.small(60)),
        };
        v.push(Strat::Reader { chunks, capacity });
    }
    if !big || t.chance(1, 2) {
        v.push(Strat::Reader { chunks: vec![1], capacity: Some(1) });
    }
    if t.chance(if big { 2 } else { 1 }, 3) {
        v.push(Strat::PathNoMmap);
        v.push(Strat::PathMmap);
    }
    if t.chance(1, 4) {
        // generous: the limit bounds the transcoded text (up to 3 bytes per encoded byte)
        v.push(Strat::PathHeapLimit { limit: 8 * 1024 * 1024 });
    }
    v
}

pub fn gen_case(t: &mut Tape) -> Case {
    // presentation: simplest first
    let mode = t.weighted(&[10, 10, 4, 2, 4, 1, 2]);
    let (enc, bom, label, sniff, mode_name): (Enc, bool, Option<Enc>, bool, &str) = match mode {
        0 => (*t.pick(&[Enc::U16Le, Enc::U16Be, Enc::U16Le, Enc::U16Be, Enc::U8]), true, None, true, "bom"),
        1 => {
            let e = *t.pick(&[Enc::U16Le, Enc::U16Be, Enc::Latin1, Enc::Sjis, Enc::Sjis, Enc::EucKr, Enc::EucKr, Enc::Latin1, Enc::U8, Enc::U16Le, Enc::U16Be]);
            (e, false, Some(e), true, "label")
        }
        2 => {
            // UTF-16 BOM plus a label naming something else
            let e = *t.pick(&[Enc::U16Le, Enc::U16Be]);
            let other = *t.pick(&[Enc::U16Le, Enc::U16Be, Enc::Latin1, Enc::Sjis, Enc::EucKr, Enc::U8]);
            let other = if other == e { Enc::Latin1 } else { other };
            (e, true, Some(other), true, "bom+conflicting-label")
        }
        3 => {
            let e = *t.pick(&[Enc::U16Le, Enc::U16Be, Enc::U8]);
            (e, true, Some(e), true, "bom+same-label")
        }
        4 => {
            // --encoding none
            let e = *t.pick(&[Enc::U16Le, Enc::U8, Enc::U16Be, Enc::Sjis, Enc::Latin1]);
            (e, !t.chance(1, 4) && !e.bom().is_empty(), None, false, "encoding-none")
        }
        5 => {
            // UTF-8 BOM plus a label naming something else
            let other = *t.pick(&[Enc::Latin1, Enc::Sjis, Enc::U16Le, Enc::EucKr, Enc::U16Be]);
            (Enc::U8, true, Some(other), true, "utf8-bom+conflicting-label")
        }
        _ => (*t.pick(&[Enc::U8, Enc::Sjis, Enc::Latin1, Enc::EucKr]), false, None, true, "plain"),
    };
    let spec = &PATS[if t.chance(1, 5) { 17 + t.below(PATS.len() - 17) } else { t.below(17) }];
    let term = if spec.multi {
        *t.pick(&[Term::Lf, Term::Lf, Term::Crlf])
    } else {
        *t.pick(&[Term::Lf, Term::Lf, Term::Lf, Term::Crlf, Term::Nul])
    };
    let mut pat = PatCfg::simple(spec.re, term);
    pat.multiline = spec.multi;
    let passthru = t.chance(1, 10);
    let cfg = SCfg {
        term,
        invert: !spec.multi && t.chance(1, 6),
        before: t.small(3),
        after: t.small(3),
        passthru,
        line_number: !t.chance(1, 6),
        stop_on_nonmatch: !spec.multi && t.chance(1, 12),
        multi_line: spec.multi,
        encoding: label.map(|l| t.pick(l.labels()).to_string()),
        bom_sniffing: sniff,
        warm: crate::gen::gen_warm(t, term),
        ..SCfg::default()
    };

    // the text
    let big = t.chance(1, 4);
    let mut region_atoms = vec![];
    if bom && !matches!(enc, Enc::Latin1 | Enc::Sjis | Enc::EucKr) && t.chance(1, 60) {
        // the text itself begins with U+FEFF
        region_atoms.push(Atom::Ch('\u{FEFF}'));
    }
    if spec.re.starts_with('^') && t.chance(1, 2) {
        // a match at the very start of the text: the mark must be gone
        region_atoms.extend(spec.needles.first().copied().unwrap_or("").chars().map(Atom::Ch));
    }
    if big {
        // a dense run of characters worth splitting right where the refill
        // boundary will be put
        let n = 3 + t.below(5);
        for _ in 0..n {
            let kind = 2 + t.below(3);
            gen_group_kind(t, enc, spec.needles, kind, &mut region_atoms);
        }
        if t.bool() {
            region_atoms.extend(spec.needles.first().copied().unwrap_or("").chars().map(Atom::Ch));
        }
        push_term(term, &mut region_atoms);
    }
    region_atoms.extend(gen_text(t, enc, term, spec.needles, if big { 8 } else { 10 }));
    let region = encode(enc, &region_atoms);
    let mut input = if bom { enc.bom().to_vec() } else { vec![] };
    let mut placement = "small";
    if big {
        let k = 1 + t.weighted(&[3, 1]);
        let boundary = 3 + DECODE_BUF * k;
        let wrap = *t.pick(&[64usize, 61, 500, 1 << 20]);
        let needle = spec.needles.first().copied();
        if t.bool() {
            // the interesting region straddles the refill boundary
            placement = "region-straddles-8KiB-refill";
            let back = t.below(10);
            let prefix = boundary.saturating_sub(back).saturating_sub(input.len());
            input.extend(filler(enc, term, prefix, wrap, needle));
            input.extend_from_slice(&region);
            if t.bool() {
                let more = gen_text(t, enc, term, spec.needles, 4);
                input.extend(encode(enc, &more));
            }
        } else {
            // the input ends within 3 bytes of the refill boundary
            placement = "input-ends-at-8KiB-refill";
            let delta = t.below(7) as i64 - 3;
            let total = (boundary as i64 + delta) as usize;
            let prefix = total.saturating_sub(region.len()).saturating_sub(input.len());
            let f = filler(enc, term, prefix, wrap, needle);
            // UTF-16: an odd remainder is made up by the region's own odd byte or left to the jitter
            input.extend(f);
            input.extend_from_slice(&region);
        }
    } else {
        input.extend_from_slice(&region);
    }
    if !bom && label == Some(Enc::U8) && sniff && t.chance(1, 2) && input.len() >= 6 && input[input.len() - 4..].is_ascii() {
        // explicit utf-8 label, no BOM: malformed UTF-8 must be replaced by
        // U+FFFD under every strategy
        let k = 1 + t.below(3);
        for _ in 0..k {
            // (not within the last bytes: a malformed sequence still pending
            // at end of input runs into the known end-of-input findings)
            let at = t.below(input.len().saturating_sub(4) + 1);
            let piece: &[u8] = *t.pick(&[b"\xFF".as_slice(), b"\x80", b"\xE2\x82", b"\xC3", b"\xF0\x9F\x98", b"\xED\xA0\x80"]);
            for (i, b) in piece.iter().enumerate() {
                input.insert(at + i, *b);
            }
        }
    }
    let strats = gen_strats(t, big);
    let shape = format!(
        "{mode_name}: text encoded as {:?}, bom={bom}, label={:?}, sniffing={sniff}, {placement}, pattern {:?}",
        enc, cfg.encoding, spec.re
    );
    Case { pat, cfg, input: Bs(input), strats, cli: t.chance(1, 12), shape }
}

pub fn run(pc: &PropCtx) {
    pc.rule(
        "generated texts (ASCII filler, needles of the pattern, BMP and astral characters, lone / misordered surrogates, odd bytes, bad lead / trail bytes, truncated last character) organised in lines and encoded as UTF-16LE/BE or UTF-8 with BOM, searched with an explicit label (utf-16le/be, latin1/windows-1252, shift_jis, euc-kr, utf-8), with a BOM plus a conflicting label, with bom_sniffing(false) (= --encoding none), or plain; a quarter of the inputs put the interesting region across, or end within 3 bytes of, the 1st/2nd refill of the 8 KiB transcoding buffer. Expected events = search_slice (no encoding, no sniffing) over the encoding_rs one-shot decoding (Encoding::decode: BOM beats label, malformed => U+FFFD, mark removed), or over the raw bytes for --encoding none; observed = the encoded input under slice, readers with chunk schedules 1,2,3,odd,8191..8193 and hook capacities 1..64 (capacity < 4 drives the tiny transcoder), search_path with and without mmap; 1/12 of the cases also compare rg -E LABEL / -E none with --mmap, --no-mmap and stdin against rg -E none on the transcoded file and against the rendered in-process events. Non-trivial = the input is transcoded and a reported match lies at or after a character whose source bytes were split across two reads of the transcoder, or after a malformed sequence; distinct by hash",
    );
    pc.assume("encoding_rs one-shot decoding (Encoding::decode / decode_without_bom_handling) is the reference transcoding");
    pc.assume("search_slice without encoding and with bom_sniffing(false) searches exactly the given bytes (C01-C03 cover that search itself)");
    pc.assume("a UTF-8 BOM followed by invalid UTF-8 is outside the domain (the decoder is documented as pass-through after a sniffed UTF-8 BOM, DESIGN 2.9); an explicit utf-8 label WITHOUT a BOM is in the domain (malformed => U+FFFD); an explicit label together with bom_sniffing(false) is undocumented and not generated");
    pc.bound("decode_buffer", serde_json::json!(DECODE_BUF));
    let cases = pc.tier.pick(25_000, 250_000);
    pc.run_tape("transcode", cases, (160, 2500), gen_case, check);
    if pc.tier == crate::runner::Tier::Thorough {
        pc.run_fuzz("C17:transcode", 50_000, 10000, &|v| replay(pc, "transcode", v).unwrap_or(Verdict::Reject("unreadable")));
    }
    let c = cases as u64;
    for (class, min) in [
        ("transcode:match_after_split_character", c / 4),
        ("transcode:match_after_malformed_sequence", c / 12),
        ("transcode:split:code-unit", c / 6),
        ("transcode:split:pair-between-units", c / 25),
        ("transcode:split:pair-inside-unit", c / 25),
        ("transcode:split:malformed-seq", c / 25),
        ("transcode:split:multibyte-char", c / 12),
        ("transcode:split-at-8KiB-refill:code-unit", c / 25),
        ("transcode:split-at-8KiB-refill:pair-inside-unit", c / 200),
        ("transcode:split-at-8KiB-refill:malformed-seq", c / 400),
        ("transcode:split-at-8KiB-refill:multibyte-char", c / 200),
        ("transcode:input_ends_within_3_bytes_of_8KiB_refill", c / 20),
        ("transcode:bom_beats_conflicting_label", c / 25),
        ("transcode:encoding_none_with_bom", c / 30),
        ("transcode:utf16_odd_byte_count", c / 25),
        ("transcode:multi_line_from_file", c / 40),
        ("transcode:caller_buffer<4(tiny transcoder)", c / 3),
        ("transcode:cli_run", c / 20),
        ("transcode:enc:utf-16le-bom", c / 12),
        ("transcode:enc:utf-16be-bom", c / 12),
        ("transcode:enc:utf8-bom", c / 30),
        ("transcode:enc:label-shift_jis", c / 30),
        ("transcode:enc:label-euc-kr", c / 30),
        ("transcode:enc:label-windows-1252", c / 30),
        ("transcode:enc:label-utf-16le", c / 40),
        ("transcode:enc:label-utf-16be", c / 40),
    ] {
        pc.require_class(class, min);
    }
}

pub fn replay(_pc: &PropCtx, _sub: &str, case: &serde_json::Value) -> Result<Verdict, String> {
    let c: Case = serde_json::from_value(case.clone()).map_err(|e| e.to_string())?;
    Ok(check(&c))
}
