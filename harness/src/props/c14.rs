//! C14 — binary data never reaches the terminal unless text mode is
//! requested.

use serde::{Deserialize, Serialize};

use crate::bs::Bs;
use crate::cli::{Rg, TempDir};
use crate::mat::PatCfg;
use crate::model;
use crate::runner::{Fail, Info, PropCtx, Verdict};
use crate::sea::{self, Bin, Event, SCfg, Strat, Term};
use crate::tape::Tape;

// ---------- shared generator: NUL-indifferent patterns and inputs ----------

/// Patterns whose matches can neither contain nor depend on a NUL or a line
/// boundary: literals and word-ish classes only.
const PATTERNS: &[&str] = &["ab", "abc", "a\\w+c", "[ab]c", "a\\d?b", "cab", "\\w+b\\w", "b"];

const WORDS: &[&str] = &["ab", "abc", "zz", "cab", "a1b", "q", "xbc", "ac", "bb", "a9c", "  ", "zab", "c", "y y"];

#[derive(Clone, Copy, Debug, PartialEq, Eq, Serialize, Deserialize)]
pub enum NulAt {
    None,
    FirstByte,
    LastByte,
    /// inside line k (mod number of lines), at a relative position
    InLine(usize, usize),
    /// replace the terminator after line k by NUL+terminator (just after a line)
    AfterLine(usize),
    /// absolute offset (clamped), used for the 64 KiB boundary
    Abs(usize),
}

fn gen_lines(t: &mut Tape, big: bool) -> Vec<u8> {
    let n = if big { 40 + t.below(40) } else { t.below(14) };
    let mut block = vec![];
    for _ in 0..n {
        let w = 1 + t.below(4);
        for i in 0..w {
            if i > 0 {
                block.push(b' ');
            }
            block.extend_from_slice(t.pick(WORDS).as_bytes());
        }
        block.push(b'\n');
    }
    if big && !block.is_empty() {
        // cross the 64 KiB buffer once or twice
        let target = 60_000 + t.below(140_000);
        let mut v = Vec::with_capacity(target + block.len());
        while v.len() < target {
            v.extend_from_slice(&block);
        }
        // align so that interesting offsets fall near 65536
        v
    } else {
        block
    }
}

fn apply_nuls(input: &mut Vec<u8>, nuls: &[NulAt]) {
    for n in nuls {
        if input.is_empty() {
            if !matches!(n, NulAt::None) {
                input.push(0);
            }
            continue;
        }
        let lines = model::split_lines(input, b'\n');
        match *n {
            NulAt::None => {}
            NulAt::FirstByte => input[0] = 0,
            NulAt::LastByte => {
                let i = input.len() - 1;
                if input[i] == b'\n' && i > 0 {
                    input[i - 1] = 0;
                } else {
                    input[i] = 0;
                }
            }
            NulAt::InLine(k, p) => {
                let l = &lines[k % lines.len()];
                let len = l.end - l.start - if l.terminated { 1 } else { 0 };
                if len > 0 {
                    input[l.start + p % len] = 0;
                }
            }
            NulAt::AfterLine(k) => {
                let l = &lines[k % lines.len()];
                if l.end < input.len() && input[l.end] != b'\n' {
                    input[l.end] = 0;
                }
            }
            NulAt::Abs(o) => {
                let i = o.min(input.len() - 1);
                if input[i] != b'\n' {
                    input[i] = 0;
                } else if i > 0 && input[i - 1] != b'\n' {
                    input[i - 1] = 0;
                }
            }
        }
    }
}

fn gen_nuls(t: &mut Tape, big: bool) -> Vec<NulAt> {
    let n = match t.weighted(&[1, 5, 2]) {
        0 => 0,
        1 => 1,
        _ => 2 + t.below(2),
    };
    (0..n)
        .map(|_| match t.weighted(&[1, if big { 3 } else { 1 }, 4, 2, if big { 6 } else { 0 }]) {
            0 => NulAt::FirstByte,
            1 => NulAt::LastByte,
            2 => NulAt::InLine(t.below(1000), t.below(50)),
            3 => NulAt::AfterLine(t.below(1000)),
            _ => NulAt::Abs(match t.below(4) {
                0 => 65536 - 3 + t.below(7),
                1 => 65536 + t.below(3000),
                2 => 131072 - 3 + t.below(7),
                _ => t.below(200_000),
            }),
        })
        .collect()
}

// ---------- library level ----------

#[derive(Clone, Debug, Serialize, Deserialize)]
pub struct LibCase {
    pub pattern: String,
    pub input: Bs,
    pub cfg: SCfg,
    pub strat: Strat,
}

pub fn gen_lib_case(t: &mut Tape) -> LibCase {
    let big = t.chance(1, 12);
    let mut input = gen_lines(t, big);
    // a last line without terminator (then NulAt::LastByte really is the file's last byte)
    if t.chance(1, 4) && input.ends_with(b"\n") {
        input.pop();
    }
    let nuls = gen_nuls(t, big);
    apply_nuls(&mut input, &nuls);
    let cfg = SCfg {
        term: Term::Lf,
        invert: t.chance(1, 8),
        before: t.small(2),
        after: t.small(2),
        passthru: t.chance(1, 12),
        binary: if t.bool() { Bin::Quit(0) } else { Bin::Convert(0) },
        warm: crate::gen::gen_warm(t, Term::Lf),
        ..SCfg::default()
    };
    let strat = match t.weighted(&[3, 6, 1, 1]) {
        0 => Strat::Slice,
        1 => Strat::Reader {
            chunks: super::c03::gen_chunks(t),
            capacity: if big || t.chance(1, 4) { None } else { Some(t.small(64)) },
        },
        2 => Strat::PathNoMmap,
        _ => Strat::PathMmap,
    };
    LibCase { pattern: t.pick(PATTERNS).to_string(), input: Bs(input), cfg, strat }
}

pub fn check_lib(case: &LibCase) -> Verdict {
    let mut pat = PatCfg::simple(&case.pattern, Term::Lf);
    pat.ban_nul = true;
    let Ok(m) = pat.build() else { return Verdict::Reject("builder rejected the pattern") };
    let input = &case.input.0;
    let out = sea::run(&m, &case.cfg, &case.strat, input, None, None);
    let reference = sea::run(&m, &SCfg { binary: Bin::None, ..case.cfg.clone() }, &Strat::Slice, input, None, None);
    let fail = |msg: String| {
        Fail::new(format!(
            "{msg}\n pattern={:?} cfg={:?} strategy={}\n input ({} bytes, first NUL at {:?}): {:?}\n events: {}\n result: {:?}",
            case.pattern,
            case.cfg,
            case.strat.label(),
            input.len(),
            input.iter().position(|b| *b == 0),
            Bs(input[..input.len().min(300)].to_vec()),
            sea::show_events(&out.events[..out.events.len().min(12)]),
            out.result
        ))
    };
    if let Err(e) = &out.result {
        return Verdict::Fail(fail(format!("search failed: {e}")));
    }
    let first_nul = input.iter().position(|b| *b == 0);
    let notices: Vec<u64> = out.events.iter().filter_map(|e| if let Event::Binary { offset } = e { Some(*offset) } else { None }).collect();
    if notices.len() > 1 {
        return Verdict::Fail(fail(format!("binary_data called {} times in one search", notices.len())));
    }
    let fin_off = out.events.iter().find_map(|e| if let Event::Finish { binary_offset, .. } = e { Some(*binary_offset) } else { None });
    let Some(fin_off) = fin_off else { return Verdict::Fail(fail("no finish event".into())) };
    if let Some(o) = notices.first() {
        if input.get(*o as usize) != Some(&0) {
            return Verdict::Fail(fail(format!("binary_data reported offset {o}, which is not a NUL byte of the input")));
        }
        if fin_off != Some(*o) {
            return Verdict::Fail(fail(format!("binary_data reported offset {o} but finish reports {fin_off:?}")));
        }
    } else if fin_off.is_some() {
        return Verdict::Fail(fail(format!("finish reports binary offset {fin_off:?} but binary_data was never called")));
    }
    if first_nul.is_none() && (!notices.is_empty() || fin_off.is_some()) {
        return Verdict::Fail(fail("binary data reported for an input without NUL".into()));
    }
    let quit = matches!(case.cfg.binary, Bin::Quit(_));
    if quit {
        // no delivered byte is a NUL, and what is delivered is a prefix of
        // the results of the same search with detection disabled
        let body: Vec<&Event> = out.events.iter().filter(|e| matches!(e, Event::Match { .. } | Event::Context { .. } | Event::Break)).collect();
        let refbody: Vec<&Event> = reference.events.iter().filter(|e| matches!(e, Event::Match { .. } | Event::Context { .. } | Event::Break)).collect();
        for e in &body {
            if let Event::Match { bytes, .. } | Event::Context { bytes, .. } = e {
                if bytes.contains(&0) {
                    return Verdict::Fail(fail("a delivered line contains a NUL byte although detection is in quit mode".into()).fact("nul-delivered"));
                }
            }
        }
        // kinds of context may differ near the cut; compare positions and bytes
        let key = |e: &Event| match e {
            Event::Match { line, offset, bytes } => (0, *line, *offset, bytes.clone()),
            Event::Context { line, offset, bytes, .. } => (1, *line, *offset, bytes.clone()),
            _ => (2, None, 0, Bs(vec![])),
        };
        if body.len() > refbody.len() || body.iter().zip(refbody.iter()).any(|(a, b)| key(a) != key(b)) {
            return Verdict::Fail(fail(format!(
                "with quit-on-NUL the delivered results are not a prefix of the results with detection disabled\n reference: {}",
                sea::show_events(&reference.events[..reference.events.len().min(12)])
            )));
        }
        if let Some(nul) = first_nul {
            // every delivered line lies before the first NUL
            for e in &body {
                if let Event::Match { offset, bytes, .. } | Event::Context { offset, bytes, .. } = e {
                    if *offset as usize + bytes.len() > nul + 1 && (*offset as usize) < nul {
                        return Verdict::Fail(fail("a delivered line spans the first NUL".into()));
                    }
                }
            }
        }
    }
    let lines = model::split_lines(input, b'\n');
    let mut info = Info::new(false);
    if let Some(nul) = first_nul {
        let matches_line = |l: &model::Line| {
            input[l.start..l.end].split(|b| *b == 0 || *b == b'\n').any(|seg| grep_matcher::Matcher::is_match(&m, seg).unwrap_or(false))
        };
        let before = lines.iter().any(|l| l.end <= nul && matches_line(l));
        let after = lines.iter().any(|l| l.start > nul && matches_line(l));
        info.nontrivial = before && after;
        info.class_if(nul == 0, "nul_first_byte");
        info.class_if(case.cfg.warm.is_some(), "searcher_reused_after_another_input");
        info.class_if(nul + 1 == input.len() || nul + 2 == input.len(), "nul_last_byte");
        info.class_if(nul + 1 == input.len(), "nul_is_last_byte_of_unterminated_last_line");
        info.class_if(nul + 1 == input.len() && input.len() > 65536, "nul_is_last_byte_of_unterminated_last_line_beyond_64KiB");
        info.class_if((65533..=65539).contains(&nul), "nul_at_64KiB_boundary");
        info.class_if(nul > 65539, "nul_beyond_first_buffer");
        info.class_if(!notices.is_empty(), "binary_notice_delivered");
    } else {
        info.class("no_nul");
    }
    info.class_if(quit, "quit_mode");
    info.class_if(!quit, "convert_mode");
    info.class_if(case.strat.is_reader(), "reader");
    Verdict::Pass(info)
}

// ---------- CLI level ----------

#[derive(Clone, Copy, Debug, PartialEq, Eq, Serialize, Deserialize)]
pub enum Access {
    /// `rg PATTERN` in the directory (file found by traversal)
    Traversal,
    /// `rg PATTERN f`
    Explicit,
    /// `rg PATTERN < f`
    Stdin,
}

#[derive(Clone, Copy, Debug, PartialEq, Eq, Serialize, Deserialize)]
pub enum BinMode {
    Default,
    Binary,
    Text,
}

#[derive(Clone, Debug, Serialize, Deserialize)]
pub struct CliCase {
    pub pattern: String,
    pub input: Bs,
    pub access: Access,
    pub mode: BinMode,
    pub mmap: Option<bool>,
    pub after: usize,
    pub before: usize,
    pub count: bool,
    /// --passthru instead of -A/-B: every line is printed, the non-matching ones as context
    #[serde(default)]
    pub passthru: bool,
    /// -U with a pattern that can match a line terminator (the multi-line searcher)
    #[serde(default)]
    pub multiline: bool,
    /// with `count`: 0 = -c, 1 = -c --include-zero, 2 = --files-without-match,
    /// 3 = --count-matches --include-zero
    #[serde(default)]
    pub summary_kind: u8,
}

const ML_PATTERNS: &[&str] = &["\\w+\\n\\w+", "ab\\n", "c\\s+a", "b\\n(?:z|a)?", "(?s)ab.{1,3}c"];

pub fn gen_cli_case(t: &mut Tape) -> CliCase {
    let big = t.chance(1, 5);
    let mut input = gen_lines(t, big);
    // a last line without terminator (then NulAt::LastByte really is the file's last byte)
    if t.chance(1, 4) && input.ends_with(b"\n") {
        input.pop();
    }
    let nuls = gen_nuls(t, big);
    apply_nuls(&mut input, &nuls);
    CliCase {
        pattern: t.pick(PATTERNS).to_string(),
        input: Bs(input),
        access: *t.pick(&[Access::Traversal, Access::Traversal, Access::Explicit, Access::Stdin]),
        mode: *t.pick(&[BinMode::Default, BinMode::Default, BinMode::Binary, BinMode::Text]),
        mmap: *t.pick(&[None, Some(true), Some(false)]),
        after: t.small(2),
        before: t.small(2),
        count: t.chance(1, 8),
        passthru: t.chance(1, 6),
        multiline: false,
        summary_kind: t.below(4) as u8,
    }
    .with_multiline(t)
}

impl CliCase {
    fn with_multiline(mut self, t: &mut Tape) -> CliCase {
        if t.chance(1, 5) {
            self.multiline = true;
            // half of the time -U comes with the ordinary pattern, which cannot match a terminator: the
            // searcher is configured for multi-line search but runs its line-by-line strategies
            if t.chance(1, 2) {
                self.pattern = t.pick(ML_PATTERNS).to_string();
            }
        }
        self
    }
}

fn run_cli(case: &CliCase, dir: &TempDir, mode: BinMode) -> (String, crate::cli::Out) {
    let mut rg = Rg::new(&dir.path).args(["--no-config", "--color", "never", "-j1", "-n", "--no-heading", "--with-filename"]);
    match mode {
        BinMode::Default => {}
        BinMode::Binary => rg = rg.arg("--binary"),
        BinMode::Text => rg = rg.arg("--text"),
    }
    match case.mmap {
        Some(true) => rg = rg.arg("--mmap"),
        Some(false) => rg = rg.arg("--no-mmap"),
        None => {}
    }
    if case.passthru {
        rg = rg.arg("--passthru");
    } else {
        if case.after > 0 {
            rg = rg.arg(format!("-A{}", case.after));
        }
        if case.before > 0 {
            rg = rg.arg(format!("-B{}", case.before));
        }
    }
    if case.count {
        rg = match case.summary_kind {
            0 => rg.arg("-c"),
            1 => rg.args(["-c", "--include-zero"]),
            2 => rg.arg("--files-without-match"),
            _ => rg.args(["--count-matches", "--include-zero"]),
        };
    }
    if case.multiline {
        rg = rg.arg("-U");
    }
    rg = rg.arg("-e").arg(&case.pattern);
    match case.access {
        Access::Traversal => {}
        Access::Explicit => rg = rg.arg("f"),
        Access::Stdin => rg = rg.arg("-").stdin(case.input.0.clone()),
    }
    let cmd = rg.cmdline();
    (cmd, rg.run())
}

/// Split stdout into ordinary records, binary notices and warnings.
struct Parsed {
    records: Vec<Vec<u8>>,
    notices: usize,
    warnings: usize,
    notice_last: bool,
}

fn parse_out(stdout: &[u8]) -> Parsed {
    let mut p = Parsed { records: vec![], notices: 0, warnings: 0, notice_last: false };
    for l in stdout.split_inclusive(|b| *b == b'\n') {
        let s = String::from_utf8_lossy(l);
        if s.contains("binary file matches (found ") {
            p.notices += 1;
            p.notice_last = true;
        } else if s.contains("WARNING: stopped searching binary file after match") {
            p.warnings += 1;
            p.notice_last = true;
        } else {
            p.records.push(l.to_vec());
            p.notice_last = false;
        }
    }
    p
}

pub fn check_cli(case: &CliCase) -> Verdict {
    let dir = TempDir::fast("c14");
    dir.write("f", &case.input.0);
    let input = &case.input.0;
    let (cmd, out) = run_cli(case, &dir, case.mode);
    let (cmd_text, text) = run_cli(case, &dir, BinMode::Text);
    if out.timed_out || text.timed_out {
        return Verdict::Reject("timeout (inconclusive)");
    }
    let first_nul = input.iter().position(|b| *b == 0);
    let fail = |msg: String| {
        Fail::new(format!(
            "{msg}\n cmd: {cmd}\n input: {} bytes, first NUL at {:?}, head {:?}\n stdout ({} bytes): {:?}\n stderr: {:?}\n status: {:?}\n --text reference ({cmd_text}): {} bytes, status {:?}",
            input.len(),
            first_nul,
            Bs(input[..input.len().min(200)].to_vec()),
            out.stdout.len(),
            Bs(out.stdout[..out.stdout.len().min(600)].to_vec()),
            Bs(out.stderr.clone()),
            out.status,
            text.stdout.len(),
            text.status
        ))
        .fact(format!("access:{:?}", case.access))
        .fact(format!("mode:{:?}", case.mode))
    };
    if case.mode == BinMode::Text {
        // --text: nothing to compare at the CLI beyond C01's per-line oracle;
        // record the case as a reference run only
        let mut info = Info::new(false);
        info.class("text_mode_reference_only");
        return Verdict::Pass(info);
    }
    // (1) safety
    if out.stdout.contains(&0) {
        return Verdict::Fail(fail("stdout contains a NUL byte although --text was not given".into()).fact("nul-on-stdout"));
    }
    let p = parse_out(&out.stdout);
    let tp = parse_out(&text.stdout);
    if first_nul.is_none() {
        // no NUL: identical to text mode
        if out.stdout != text.stdout || out.status != text.status {
            return Verdict::Fail(fail("the file has no NUL byte, yet the output differs from --text".into()));
        }
        let mut info = Info::new(false);
        info.class("no_nul");
        return Verdict::Pass(info);
    }
    let nul = first_nul.unwrap();
    if case.count {
        // summary modes have no place for a warning: a traversed file with binary data is dropped,
        // whether or not zero counts / files without a match are reported
        let implicit_quit = case.access == Access::Traversal && case.mode == BinMode::Default;
        // (on a slice - memory map, or the multi-line heap read - only the first 64 KiB and the matching lines are examined: a NUL elsewhere
        // is not in the examined portion)
        // (-U with a pattern that can match a terminator reads the file to the heap and searches it as a slice)
        let examined = !(case.mmap == Some(true) || case.multiline) || nul < 65536;
        if implicit_quit && examined && !out.stdout.is_empty() {
            return Verdict::Fail(fail("a traversed file with a NUL byte is reported by a summary mode (count / files-without-match) instead of being dropped".into()).fact("summary-mode"));
        }
        let mut info = Info::new(false);
        info.class("count_mode_safety_only");
        info.class_if(implicit_quit && examined, "summary_mode_traversed_binary_file_dropped");
        return Verdict::Pass(info);
    }
    // printed ordinary records must be a prefix of the --text records
    if p.records.len() > tp.records.len() || p.records.iter().zip(tp.records.iter()).any(|(a, b)| a != b) {
        // a record of the text output that contains the NUL may legitimately be cut; otherwise this is an alarm
        return Verdict::Fail(fail("the printed lines are not a prefix of the lines --text prints".into()));
    }
    if p.notices + p.warnings > 1 {
        return Verdict::Fail(fail("more than one binary notice / warning for one file".into()));
    }
    if (p.notices + p.warnings == 1) && !p.notice_last {
        return Verdict::Fail(fail("file lines are printed after the binary notice".into()));
    }
    let implicit_quit = case.access == Access::Traversal && case.mode == BinMode::Default;
    let cut = p.records.len() < tp.records.len();
    // with --passthru the non-matching lines are printed as context records (`path-N-`)
    let is_match_record = |r: &Vec<u8>| [b"f:".as_slice(), b"./f:", b"<stdin>:"].iter().any(|pre| r.starts_with(pre));
    let printed_match = p.records.iter().any(is_match_record);
    let text_has_match = tp.records.iter().any(is_match_record);
    if implicit_quit {
        if p.notices > 0 {
            return Verdict::Fail(fail("'binary file matches' notice for a traversed file in default mode".into()));
        }
        // With a memory map the first 64 KiB are examined before anything is
        // searched. (The incremental reader may have printed lines from an
        // earlier, shorter read — e.g. the 3-byte BOM peek — before it sees
        // the NUL; that is the "cut off with a warning" case below.)
        if case.mmap == Some(true) && nul < 65536 && !out.stdout.is_empty() {
            return Verdict::Fail(fail("a memory-mapped traversed file with a NUL in its first 64 KiB must be dropped, but something was printed".into()));
        }
        if cut && !p.records.is_empty() && p.warnings == 0 {
            let f = fail("the output was cut off at binary data after lines had been printed, but no warning follows".into());
            return Verdict::Fail(if case.passthru && !printed_match { f.fact("passthru").fact("cut-off-without-warning-when-no-line-matched-before-the-nul") } else { f });
        }
        if p.records.is_empty() && p.warnings > 0 {
            return Verdict::Fail(fail("warning without any printed line".into()));
        }
    } else {
        if p.warnings > 0 {
            return Verdict::Fail(fail("'stopped searching' warning for an explicitly named file / --binary".into()));
        }
        // nothing at all only if no line matches
        let any_match_text = if case.passthru { text_has_match } else { !tp.records.is_empty() };
        if any_match_text && out.stdout.is_empty() {
            return Verdict::Fail(fail("lines of the file match, but neither a line nor a 'binary file matches' notice was printed".into()).fact("silent-although-matching"));
        }
        if !any_match_text && (if case.passthru { printed_match || p.notices > 0 } else { !out.stdout.is_empty() }) {
            return Verdict::Fail(fail("no line matches under --text, yet something was printed".into()));
        }
        // (under --passthru the context lines in front of the binary data are printed without any match)
        if cut && p.notices == 0 && (if case.passthru { printed_match } else { !p.records.is_empty() }) {
            return Verdict::Fail(fail("output was cut off at binary data without the 'binary file matches' notice".into()));
        }
    }
    let want_status = if case.passthru {
        if printed_match || p.notices > 0 { 0 } else { 1 }
    } else if out.stdout.is_empty() {
        1
    } else {
        0
    };
    if out.status != Some(want_status) {
        return Verdict::Fail(fail(format!("exit status {:?}, expected {want_status}", out.status)));
    }
    let mut info = Info::new(!tp.records.is_empty() && cut);
    info.class_if(implicit_quit, "traversed_default");
    info.class_if(!implicit_quit, "explicit_or_binary_flag");
    info.class_if(case.access == Access::Stdin, "stdin");
    info.class_if(case.mmap == Some(true), "mmap");
    info.class_if(p.notices > 0, "binary_file_matches_notice");
    info.class_if(p.warnings > 0, "stopped_searching_warning");
    info.class_if(nul >= 65536, "nul_beyond_first_64KiB");
    info.class_if((65533..=65539).contains(&nul), "nul_at_64KiB_boundary");
    info.class_if(case.after + case.before > 0 && !case.passthru, "context");
    info.class_if(case.passthru, "passthru");
    info.class_if(case.multiline, "multiline");
    info.class_if(case.multiline && !ML_PATTERNS.contains(&case.pattern.as_str()), "multiline_requested_with_single_line_pattern");
    info.class_if(!p.records.is_empty() && cut, "cut_after_lines_printed");
    Verdict::Pass(info)
}

pub fn run(pc: &PropCtx) {
    pc.rule(
        "inputs: word lines with NUL bytes at generated places (first byte, last byte, inside / just after a line, around 64 KiB +-3 and 128 KiB, random offsets, several), up to ~200 KB; patterns from a NUL-indifferent set (literals and word classes). library: quit/convert detection under slice, fragmented readers with hook capacities, file, mmap: binary_data at most once with the offset of a real NUL, finish agrees, in quit mode no delivered byte is NUL and the results are a prefix of the results with detection disabled. CLI: traversal vs explicit vs stdin x default/--binary x --mmap/--no-mmap x context: stdout never contains NUL; printed lines are a prefix of the --text lines; traversed files: dropped when the NUL is in the first 64 KiB, warning after a cut; explicit/--binary: at most one notice, last, and silent only if nothing matches. Non-trivial = a matching line before and after the first NUL (library) / output cut although --text prints more (CLI); distinct by hash",
    );
    pc.assume("--null, --null-data and --json are excluded from the stdout NUL scan (they legitimately emit NUL or never emit raw bytes); --text itself is covered by C01's CLI sample run with -a");
    let n = pc.tier.pick(20_000, 400_000);
    pc.run_tape("library", n, (128, 1200), gen_lib_case, check_lib);
    if pc.tier == crate::runner::Tier::Thorough {
        pc.run_fuzz("C14:library", 8_000, 5000, &|v| replay(pc, "library", v).unwrap_or(Verdict::Reject("unreadable")));
    }
    pc.set_shrink_iters(200);
    let n = pc.tier.pick(3_000, 60_000);
    pc.run_tape("cli", n, (128, 1200), gen_cli_case, check_cli);
    pc.require_class("cli:binary_file_matches_notice", n as u64 / 50);
    pc.require_class("cli:stopped_searching_warning", n as u64 / 300);
    pc.require_class("library:nul_beyond_first_buffer", 20);
}

pub fn replay(_pc: &PropCtx, sub: &str, case: &serde_json::Value) -> Result<Verdict, String> {
    if sub == "library" {
        let c: LibCase = serde_json::from_value(case.clone()).map_err(|e| e.to_string())?;
        Ok(check_lib(&c))
    } else {
        let c: CliCase = serde_json::from_value(case.clone()).map_err(|e| e.to_string())?;
        Ok(check_cli(&c))
    }
}
