//! C09 — printed lines and their coordinates are the input's own; JSON
//! output is lossless. CLI level: the real binary's stdout is parsed with a
//! grammar derived from the flags and every record is checked against the
//! file bytes.

use grep_matcher::Matcher;
use serde::{Deserialize, Serialize};
use serde_json::Value;

use crate::bs::Bs;
use crate::cli::{Rg, TempDir};
use crate::gen::{self, ReOpts};
use crate::mat::{CaseMode, PatCfg};
use crate::model::{self, Line};
use crate::oracle::{self, LineVerdict};
use crate::runner::{Fail, Info, PropCtx, Verdict};
use crate::sea::Term;
use crate::tape::Tape;

#[derive(Clone, Copy, Debug, PartialEq, Eq, Serialize, Deserialize)]
pub enum Mode {
    Standard,
    Vimgrep,
    Json,
}

#[derive(Clone, Debug, Serialize, Deserialize)]
pub struct Case {
    pub pattern: String,
    pub input: Bs,
    pub mode: Mode,
    pub line_number: bool,
    pub byte_offset: bool,
    pub column: bool,
    pub with_filename: bool,
    pub heading: bool,
    pub null: bool,
    pub after: usize,
    pub before: usize,
    /// --passthru (then -A/-B are not given): every line is printed, the non-matching ones as context
    #[serde(default)]
    pub passthru: bool,
    pub multiline: bool,
    pub crlf: bool,
    pub invert: bool,
    pub ignore_case: bool,
    pub mmap: bool,
}

pub fn gen_case(t: &mut Tape) -> Case {
    let multiline = t.chance(1, 6);
    let crlf = t.chance(1, 6);
    let term = if crlf { Term::Crlf } else { Term::Lf };
    let pattern = if multiline {
        let base = super::c13::gen_pat(t).patterns[0].clone();
        // a quarter end in a look-around right after a matched line terminator: the printers
        // re-run the pattern on the reported block and must still see the next line's first byte
        match t.below(8) {
            0 => format!("(?:{base})\\n{}", *t.pick(&["\\b", "\\B", "\\b{start}", "(?-u:\\b)"])),
            1 => format!("(?:{base})\\s+{}", *t.pick(&["\\b", "\\B"])),
            _ => base,
        }
    } else {
        let mut o = ReOpts::line_mode();
        o.allow_cr_nul = false;
        gen::gen_re(t, &o).render()
    };
    let hirs: Vec<_> = gen::parse_hir(&pattern, false, true, crlf, false).into_iter().collect();
    let mut input = if multiline { super::c13::gen_ml_haystack(t, &hirs, term) } else { gen::gen_haystack(t, &hirs, term, 10) };
    input.retain(|b| *b != 0);
    let mode = match t.weighted(&[5, 2, 3]) {
        0 => Mode::Standard,
        1 => Mode::Vimgrep,
        _ => Mode::Json,
    };
    // (--vimgrep prints the whole line once per match: no very long lines there)
    if mode != Mode::Vimgrep && t.chance(1, 12) {
        // a very long line
        let mut long: Vec<u8> = std::iter::repeat(b'z').take(5000 + t.below(70000)).collect();
        if let Some(h) = hirs.first() {
            gen::sample_hir(t, h, b"\n\0", &mut long, 0);
        }
        long.retain(|b| *b != b'\n' && *b != 0);
        long.push(b'\n');
        let at = model::split_lines(&input, b'\n').get(t.below(3)).map(|l| l.start).unwrap_or(0);
        input.splice(at..at, long);
    }
    let with_filename = t.chance(1, 2);
    let passthru = t.chance(1, 8);
    let invert = mode != Mode::Vimgrep && t.chance(1, 8);
    // under -v the column field follows the pattern's matches, not the
    // reported lines: which records carry one is undocumented
    let column = !invert && t.chance(1, 2);
    Case {
        pattern,
        input: Bs(input),
        mode,
        line_number: column || !t.chance(1, 4),
        byte_offset: t.chance(1, 2),
        column,
        with_filename,
        heading: with_filename && t.chance(1, 3),
        null: with_filename && t.chance(1, 4),
        after: if passthru { 0 } else { t.small(3) },
        before: if passthru { 0 } else { t.small(3) },
        passthru,
        multiline,
        crlf,
        invert,
        ignore_case: t.chance(1, 6),
        mmap: t.chance(1, 3),
    }
}

#[derive(Debug)]
struct Rec {
    lineno: Option<u64>,
    col: Option<u64>,
    off: Option<u64>,
    /// Some(true) = match line, Some(false) = context line, None = not told
    is_match: Option<bool>,
    body: Vec<u8>,
}

#[derive(Debug)]
enum Item {
    Rec(Rec),
    Sep,
}

fn digits(b: &[u8], pos: &mut usize) -> Option<u64> {
    let s = *pos;
    while *pos < b.len() && b[*pos].is_ascii_digit() {
        *pos += 1;
    }
    if *pos == s {
        return None;
    }
    std::str::from_utf8(&b[s..*pos]).ok()?.parse().ok()
}

fn sep_kind(b: &[u8], pos: &mut usize) -> Option<bool> {
    let k = match b.get(*pos)? {
        b':' => true,
        b'-' => false,
        _ => return None,
    };
    *pos += 1;
    Some(k)
}

/// Parse standard / vimgrep output of a single-file search on file `f`.
fn parse_standard(out: &[u8], c: &Case) -> Result<Vec<Item>, String> {
    let vim = c.mode == Mode::Vimgrep;
    let with_filename = c.with_filename || vim;
    let heading = c.heading && !vim;
    let (n, col, b) = (c.line_number || vim, c.column || vim, c.byte_offset);
    let ctx = ctx_on(c);
    let mut items = vec![];
    let mut pos = 0;
    if out.is_empty() {
        return Ok(items);
    }
    if with_filename && heading {
        let want: &[u8] = if c.null { b"f\0" } else if c.crlf { b"f\r\n" } else { b"f\n" };
        if !out.starts_with(want) {
            return Err("heading line with the path is missing".into());
        }
        pos = want.len();
    }
    while pos < out.len() {
        // (when records carry no prefix at all, a line `--` of the file is
        // indistinguishable from a separator: then it is left to the body
        // matcher, which skips what is not a line of the file)
        let bare = !n && !col && !b && !(with_filename && !heading);
        if ctx && !bare && out[pos..].starts_with(b"--\n") {
            items.push(Item::Sep);
            pos += 3;
            continue;
        }
        // rg terminates its own separator with the configured terminator
        if ctx && !bare && c.crlf && out[pos..].starts_with(b"--\r\n") {
            items.push(Item::Sep);
            pos += 4;
            continue;
        }
        let mut kind: Option<bool> = None;
        let merge = |k: &mut Option<bool>, new: Option<bool>, what: &str| -> Result<(), String> {
            match (k.as_ref(), new) {
                (_, None) => Err(format!("missing field separator after {what}")),
                (Some(a), Some(b)) if *a != b => Err("match and context separators mixed in one record".into()),
                (_, Some(b)) => {
                    *k = Some(b);
                    Ok(())
                }
            }
        };
        if with_filename && !heading {
            if !out[pos..].starts_with(b"f") {
                return Err(format!("record at byte {pos} does not start with the path"));
            }
            pos += 1;
            if c.null {
                if out.get(pos) != Some(&0) {
                    return Err("path is not followed by NUL under --null".into());
                }
                pos += 1;
            } else {
                let k = sep_kind(out, &mut pos);
                merge(&mut kind, k, "the path")?;
            }
        }
        let mut lineno = None;
        let mut column = None;
        let mut off = None;
        if n {
            lineno = Some(digits(out, &mut pos).ok_or_else(|| format!("line number expected at byte {pos}"))?);
            let k = sep_kind(out, &mut pos);
            merge(&mut kind, k, "the line number")?;
        }
        // context lines carry no column
        if col && kind != Some(false) {
            column = Some(digits(out, &mut pos).ok_or_else(|| format!("column expected at byte {pos}"))?);
            let k = sep_kind(out, &mut pos);
            merge(&mut kind, k, "the column")?;
        }
        if b {
            off = Some(digits(out, &mut pos).ok_or_else(|| format!("byte offset expected at byte {pos}"))?);
            let k = sep_kind(out, &mut pos);
            merge(&mut kind, k, "the byte offset")?;
        }
        let end = out[pos..].iter().position(|x| *x == b'\n').map(|i| pos + i + 1).ok_or("record is not terminated by a newline")?;
        items.push(Item::Rec(Rec { lineno, col: column, off, is_match: kind, body: out[pos..end].to_vec() }));
        pos = end;
    }
    Ok(items)
}

fn pat_cfg(c: &Case) -> PatCfg {
    PatCfg {
        patterns: vec![c.pattern.clone()],
        case: if c.ignore_case { CaseMode::Insensitive } else { CaseMode::Sensitive },
        word: false,
        whole_line: false,
        fixed: false,
        term: if c.crlf { Term::Crlf } else { Term::Lf },
        unicode: true,
        multiline: c.multiline,
        dotall: false,
        ban_nul: false,
    }
}

fn ctx_on(c: &Case) -> bool {
    c.after + c.before > 0 || c.passthru
}

fn args(c: &Case) -> Vec<String> {
    let mut a: Vec<String> = vec!["--no-config".into(), "--color".into(), "never".into(), "-a".into(), "-j1".into()];
    a.push(if c.mmap { "--mmap".into() } else { "--no-mmap".into() });
    match c.mode {
        Mode::Json => a.push("--json".into()),
        Mode::Vimgrep => a.push("--vimgrep".into()),
        Mode::Standard => {
            a.push(if c.line_number { "-n".into() } else { "-N".into() });
            if c.column {
                a.push("--column".into());
            }
            if c.with_filename {
                a.push("-H".into());
                a.push(if c.heading { "--heading".into() } else { "--no-heading".into() });
                if c.null {
                    a.push("--null".into());
                }
            } else {
                a.push("-I".into());
            }
        }
    }
    if c.mode != Mode::Json && c.byte_offset {
        a.push("-b".into());
    }
    if c.mode == Mode::Vimgrep && c.null {
        a.push("--null".into());
    }
    if c.passthru {
        a.push("--passthru".into());
    }
    if c.after > 0 {
        a.push(format!("-A{}", c.after));
    }
    if c.before > 0 {
        a.push(format!("-B{}", c.before));
    }
    if c.multiline {
        a.push("-U".into());
    }
    if c.crlf {
        a.push("--crlf".into());
    }
    if c.invert {
        a.push("-v".into());
    }
    if c.ignore_case {
        a.push("-i".into());
    }
    a.push("-e".into());
    a.push(c.pattern.clone());
    a.push("f".into());
    a
}

/// Start offsets (relative to the line content) of the successive matches
/// in one line, by the per-line oracle; None when the oracle abstains.
fn line_match_starts(orc: &oracle::LineOracle, content: &[u8]) -> Option<Vec<(usize, usize)>> {
    if orc.verdict(content) == LineVerdict::Ambiguous {
        return None;
    }
    // The regex engine's Unicode word look-behind reads past stray UTF-8
    // continuation bytes into the previous line (known finding under C01), so
    // rg (whole buffer) and a per-line oracle may disagree on such a line.
    if content.first().map_or(false, |b| (0x80..=0xBF).contains(b)) {
        let word_look = regex_syntax::ParserBuilder::new()
            .utf8(false)
            .build()
            .parse(&orc.pattern)
            .map(|h| h.properties().look_set().contains_word_unicode())
            .unwrap_or(true);
        if word_look {
            return None;
        }
    }
    if orc.crlf && content.contains(&b'\r') {
        return None;
    }
    Some(orc.re.find_iter(content).map(|m| (m.start(), m.end())).collect())
}

pub fn check(case: &Case) -> Verdict {
    let v = check_inner(case);
    if let Verdict::Fail(_) = &v {
        // attribute failures on inputs where the regex engine contradicts itself
        let pc = pat_cfg(case);
        if let (Ok(m), Ok(o)) = (pc.build(), oracle::build(&pc)) {
            return crate::mat::attribute_engine(v, &m, Some(&o.re), &case.input.0, b'\n', case.crlf);
        }
    }
    v
}

fn check_inner(case: &Case) -> Verdict {
    let pc = pat_cfg(case);
    let Ok(matcher) = pc.build() else { return Verdict::Reject("builder rejected the pattern") };
    let orc = match oracle::build(&pc) {
        Ok(o) => o,
        Err(_) => return Verdict::Reject("oracle cannot compile the pattern"),
    };
    if case.invert && (case.column || case.mode == Mode::Vimgrep) {
        return Verdict::Reject("column under -v (undocumented which records carry it)");
    }
    if oracle::mentions_haystack_anchor(&case.pattern) {
        return Verdict::Reject("haystack anchor");
    }
    let input = &case.input.0;
    if gen::starts_with_bom(input) {
        return Verdict::Reject("input starts with a byte-order mark (transcoding is C17's subject)");
    }
    {
        // Known finding recorded under C10 (an empty match at the very end of
        // an unterminated last line is dropped by the printers): with a column
        // field the record of that line then has no column at all. Excluded
        // here by construction and counted.
        let ls = model::split_lines(input, b'\n');
        if let Some(l) = ls.last() {
            if !l.terminated && (case.column || case.mode == Mode::Vimgrep) && case.multiline {
                // the same shape under -U, judged by the real matcher's whole-input matches
                let ms = super::c13::enumerate_matches(&matcher, input, false);
                let touching: Vec<_> = ms.iter().filter(|(s, e)| *e > l.start || *s >= l.start).collect();
                if !touching.is_empty() && touching.iter().all(|(s, e)| s == e && *e == input.len()) {
                    return Verdict::Reject("known trailing-empty-match shape (see C10) with a column field");
                }
            }
            if !l.terminated && (case.column || case.mode == Mode::Vimgrep) && !case.multiline {
                let content = model::content(input, l, case.crlf);
                if orc.re.find_iter(content).all(|m| m.start() == m.end() && m.end() == content.len()) && orc.re.is_match(content) {
                    return Verdict::Reject("known trailing-empty-match shape (see C10) with a column field");
                }
            }
        }
    }
    let dir = TempDir::fast("c09");
    dir.write("f", input);
    let rg = Rg::new(&dir.path).args(args(case));
    let cmd = rg.cmdline();
    let out = rg.run();
    if out.timed_out {
        return Verdict::Reject("timeout (inconclusive)");
    }
    if out.status == Some(2) {
        return Verdict::Reject("rg rejected the arguments");
    }
    let lines = model::split_lines(input, b'\n');
    // Known finding multi-line-per-match-output-omits-empty-matches (see check_multi): under --vimgrep -U a
    // match that is empty or made of line terminators only gets no record, although the sink counted it
    // (its context lines and separators are printed all the same).
    let empty_ml_match = case.mode == Mode::Vimgrep
        && case.multiline
        && super::c13::enumerate_matches(&matcher, input, false).iter().any(|(s, e)| input[*s..*e].iter().all(|b| *b == b'\n' || *b == b'\r'));
    let fail = |msg: String| {
        let f = Fail::new(format!(
            "{msg}\n cmd: {cmd}\n input ({} bytes): {:?}\n stdout ({} bytes): {:?}\n stderr: {:?}",
            input.len(),
            Bs(input[..input.len().min(600)].to_vec()),
            out.stdout.len(),
            Bs(out.stdout[..out.stdout.len().min(1200)].to_vec()),
            Bs(out.stderr.clone())
        ));
        if empty_ml_match {
            f.fact("multi-line-per-match-output-has-no-record-for-an-empty-or-terminator-only-match")
        } else {
            f
        }
    };
    // whole-input matches (for -U) by the real matcher
    let ml_matches = if case.multiline { super::c13::enumerate_matches(&matcher, input, false) } else { vec![] };
    if std::env::var_os("VERIF_TRACE_CASES").is_some() {
        eprintln!("C09 ml_matches={ml_matches:?}");
    }
    let effective_ml = case.multiline && matcher.non_matching_bytes().map_or(true, |s| !s.contains(b'\n'));
    let mut info = Info::new(false);
    let invalid_utf8 = std::str::from_utf8(input).is_err();
    let crlf_reterminated = std::cell::Cell::new(false);
    let find_line = |lineno: Option<u64>, off: Option<u64>, body: &[u8], from: usize| -> Result<usize, String> {
        // identify which input line a record shows
        let matches_body = |l: &Line| {
            let raw = &input[l.start..l.end];
            if l.terminated {
                if raw == body {
                    return true;
                }
                // Known finding: under --crlf some printing paths drop the
                // line's own terminator and write CRLF, so a line ending in a
                // lone LF is printed with CRLF.
                if case.crlf && raw.len() >= 1 && !(raw.len() >= 2 && raw[raw.len() - 2] == b'\r') {
                    let content = &raw[..raw.len() - 1];
                    if body.strip_prefix(content) == Some(b"\r\n".as_slice()) {
                        crlf_reterminated.set(true);
                        return true;
                    }
                }
                false
            } else {
                // rg terminates an unterminated last line itself
                // (with the configured terminator: CRLF under --crlf)
                body.strip_prefix(raw).map_or(false, |rest| rest == b"\n" || (case.crlf && rest == b"\r\n"))
            }
        };
        if let Some(n) = lineno {
            let i = (n as usize).checked_sub(1).filter(|i| *i < lines.len()).ok_or(format!("line number {n} is outside the input ({} lines)", lines.len()))?;
            if !matches_body(&lines[i]) {
                return Err(format!("printed line number {n}, but the body {:?} is not line {n} of the input ({:?})", Bs(body.to_vec()), Bs(input[lines[i].start..lines[i].end].to_vec())));
            }
            if let Some(o) = off {
                if o as usize != lines[i].start {
                    return Err(format!("line {n} printed with byte offset {o}, its true offset is {}", lines[i].start));
                }
            }
            return Ok(i);
        }
        if let Some(o) = off {
            let i = lines.iter().position(|l| l.start == o as usize).ok_or(format!("byte offset {o} is not the start of any line"))?;
            if !matches_body(&lines[i]) {
                return Err(format!("record with byte offset {o}: body {:?} is not the line at that offset", Bs(body.to_vec())));
            }
            return Ok(i);
        }
        (from..lines.len()).find(|i| matches_body(&lines[*i])).ok_or(format!("printed body {:?} is not a line of the input (searching from line {})", Bs(body.to_vec()), from + 1))
    };
    match case.mode {
        Mode::Standard | Mode::Vimgrep => {
            let items = match parse_standard(&out.stdout, case) {
                Ok(x) => x,
                Err(e) => return Verdict::Fail(fail(format!("stdout does not follow the record grammar implied by the flags: {e}"))),
            };
            let vim = case.mode == Mode::Vimgrep;
            let mut next_from = 0usize;
            let mut last_idx: Option<usize> = None;
            let mut pending_sep = false;
            let mut vim_group: Vec<(usize, u64)> = vec![];
            let mut n_match = 0;
            let mut n_ctx = 0;
            let mut prev_match_line: Option<usize> = None;
            for it in &items {
                match it {
                    Item::Sep => {
                        if pending_sep || last_idx.is_none() {
                            return Verdict::Fail(fail("context separator at the start or twice in a row".into()));
                        }
                        pending_sep = true;
                    }
                    Item::Rec(r) => {
                        if r.lineno.is_none() && r.off.is_none() && r.is_match.is_none() && ctx_on(case) && (r.body == b"--\n" || r.body == b"--\r\n") && find_line(None, None, &r.body, next_from).is_err() {
                            continue; // a separator in prefix-less output
                        }
                        // per-match records (--vimgrep) carry the offset of the match, as -o does
                        let idx = match find_line(r.lineno, if vim { None } else { r.off }, &r.body, if vim { next_from.saturating_sub(1) } else { next_from }) {
                            Ok(i) => i,
                            Err(e) => return Verdict::Fail(fail(e)),
                        };
                        if let (true, Some(o), Some(c)) = (vim, r.off, r.col) {
                            let ls = lines[idx].start as u64;
                            if o != ls && o != ls + c - 1 {
                                return Verdict::Fail(fail(format!(
                                    "--vimgrep: line {} printed with byte offset {o}, which is neither the line's offset {ls} nor that of the match at column {c} ({})",
                                    idx + 1,
                                    ls + c - 1
                                )));
                            }
                        }
                        if let Some(l) = last_idx {
                            let repeated = vim && idx == l;
                            if idx < l || (idx == l && !repeated) {
                                return Verdict::Fail(fail(format!("line {} printed after line {} (order / uniqueness)", idx + 1, l + 1)));
                            }
                            // without -n/-b a record cannot be attributed to
                            // one line when several lines are equal, so the
                            // separator position is only asserted with coordinates
                            // (--vimgrep -U prints only the first line of a multi-line match, so the
                            // lines in between are absent without a separator)
                            let located = (r.lineno.is_some() || (r.off.is_some() && !vim)) && !(vim && case.multiline);
                            if ctx_on(case) && !repeated && located {
                                let gap = idx > l + 1;
                                if gap != pending_sep {
                                    return Verdict::Fail(fail(format!(
                                        "context separator {} between printed lines {} and {}",
                                        if gap { "missing" } else { "unexpected" },
                                        l + 1,
                                        idx + 1
                                    )));
                                }
                            }
                        }
                        pending_sep = false;
                        last_idx = Some(idx);
                        next_from = idx + 1;
                        let is_match = r.is_match.unwrap_or(!ctx_on(case));
                        if r.is_match == Some(false) {
                            n_ctx += 1;
                        } else {
                            n_match += 1;
                        }
                        // column
                        if let Some(col) = r.col {
                            if is_match && !case.invert {
                                let content = model::content(input, &lines[idx], case.crlf);
                                if vim && case.multiline {
                                    // --vimgrep -U: one record per match, showing the line the match starts
                                    // in; the column must lie inside that line and a match must start there
                                    let l = &lines[idx];
                                    let rel = (col as usize).wrapping_sub(1);
                                    let inside = if l.terminated { rel < l.end - l.start } else { rel <= l.end - l.start };
                                    if !inside {
                                        return Verdict::Fail(fail(format!(
                                            "--vimgrep -U: line {} printed with column {col}, which lies outside the line ({} bytes with its terminator)",
                                            idx + 1,
                                            l.end - l.start
                                        )));
                                    }
                                    if effective_ml {
                                        let p = l.start + rel;
                                        let starts_at = |from: usize| {
                                            let mut at = from;
                                            for _ in 0..64 {
                                                match matcher.find_at(input, at).ok().flatten() {
                                                    Some(m) if m.start() == p => return true,
                                                    Some(m) if m.start() < p => at = if m.end() > at { m.end() } else { at + 1 },
                                                    _ => return false,
                                                }
                                                if at > p {
                                                    return false;
                                                }
                                            }
                                            false
                                        };
                                        if !(ml_matches.iter().any(|(s, _)| *s == p) || starts_at(p) || starts_at(l.start) || starts_at(0)) {
                                            return Verdict::Fail(fail(format!(
                                                "--vimgrep -U: line {} printed with column {col} (offset {p}), but no match starts there (whole-input matches: {:?})",
                                                idx + 1,
                                                &ml_matches[..ml_matches.len().min(20)]
                                            )));
                                        }
                                        info.class("vimgrep_multiline_column_checked");
                                    }
                                } else if vim {
                                    vim_group.push((idx, col));
                                } else if !case.multiline {
                                    if let Some(ms) = line_match_starts(&orc, content) {
                                        match ms.first() {
                                            Some((s, _)) if col != *s as u64 + 1 => {
                                                return Verdict::Fail(fail(format!(
                                                    "line {} printed with column {col}, the first match starts at column {}",
                                                    idx + 1,
                                                    s + 1
                                                )))
                                            }
                                            None => {
                                                return Verdict::Fail(fail(format!("line {} printed as a match with column {col}, but the per-line oracle finds no match in it", idx + 1)).fact("line-selection"))
                                            }
                                            _ => info.class("column_checked"),
                                        }
                                    }
                                } else if effective_ml {
                                    // only the first line of a block is asserted
                                    let first_of_block = prev_match_line.map_or(true, |p| p + 1 != idx);
                                    if first_of_block {
                                        let l = &lines[idx];
                                        if let Some((s, _)) = ml_matches.iter().find(|(s, e)| (*s >= l.start && *s < l.end) || (*s < l.start && *e > l.start)) {
                                            // The regex engine is not always consistent about the
                                            // leftmost match when the search starts at different
                                            // offsets (regex-automata 0.4.7: `(?i)(?:bca)?\n?\S...A` finds
                                            // 3..5 from offset 0 but 2..9 from offset 2), and the printer
                                            // re-searches from the start of the block: accept that too.
                                            let from_block = matcher.find_at(input, l.start).ok().flatten().map(|m| m.start());
                                            let alt_ok = from_block.map_or(false, |b| b >= l.start && col == (b - l.start) as u64 + 1);
                                            if *s >= l.start && col != (*s - l.start) as u64 + 1 && !alt_ok {
                                                return Verdict::Fail(fail(format!(
                                                    "-U: first line of a block (line {}) printed with column {col}, the block's first match starts at column {}",
                                                    idx + 1,
                                                    s - l.start + 1
                                                )));
                                            }
                                            info.class("column_checked_multiline");
                                        }
                                    }
                                }
                            }
                        }
                        if is_match {
                            prev_match_line = Some(idx);
                        }
                    }
                }
            }
            if pending_sep {
                return Verdict::Fail(fail("output ends with a context separator".into()));
            }
            if vim && !case.invert {
                // one record per match, columns of the successive matches
                let mut i = 0;
                while i < vim_group.len() {
                    let idx = vim_group[i].0;
                    let mut cols = vec![];
                    while i < vim_group.len() && vim_group[i].0 == idx {
                        cols.push(vim_group[i].1);
                        i += 1;
                    }
                    let l = &lines[idx];
                    let content = model::content(input, l, case.crlf);
                    if let Some(ms) = line_match_starts(&orc, content) {
                        let mut want: Vec<u64> = ms.iter().map(|(s, _)| *s as u64 + 1).collect();
                        // known shape (recorded under C10): an empty match at the end of an unterminated last line is dropped
                        let known_shape = !l.terminated && ms.last().map_or(false, |(s, e)| s == e && *e == content.len());
                        if known_shape {
                            info.class("skipped_known_trailing_empty_shape");
                            want.pop();
                            if want.is_empty() {
                                continue;
                            }
                        }
                        if cols != want {
                            return Verdict::Fail(fail(format!("--vimgrep: line {} printed with columns {cols:?}, the successive matches start at columns {want:?}", idx + 1)));
                        }
                        info.class("vimgrep_columns_checked");
                    }
                }
            }
            if case.passthru && !case.multiline && !vim && n_match + n_ctx != lines.len() {
                return Verdict::Fail(fail(format!("--passthru printed {} records for an input of {} lines", n_match + n_ctx, lines.len())));
            }
            info.nontrivial = n_match > 0 && n_ctx > 0 && (invalid_utf8 || !input.is_ascii());
            info.class_if(n_ctx > 0, "has_context_records");
            info.class_if(case.passthru, "passthru");
        }
        Mode::Json => {
            let mut state = 0; // 0 = before begin, 1 = inside, 2 = after end
            let mut last_off: Option<u64> = None;
            let mut n_match = 0;
            let mut n_ctx = 0;
            let dec = |v: &Value| -> Result<(Vec<u8>, bool), String> {
                if let Some(t) = v["text"].as_str() {
                    Ok((t.as_bytes().to_vec(), true))
                } else if let Some(b) = v["bytes"].as_str() {
                    super::c10::decode_b64(b).map(|x| (x, false)).ok_or_else(|| "invalid base64".to_string())
                } else {
                    Err("neither text nor bytes".into())
                }
            };
            for l in out.stdout.split(|b| *b == b'\n') {
                if l.is_empty() {
                    continue;
                }
                let Ok(v) = serde_json::from_slice::<Value>(l) else {
                    return Verdict::Fail(fail("a line of --json output is not valid JSON".into()));
                };
                let ty = v["type"].as_str().unwrap_or("");
                match ty {
                    "begin" => {
                        if state != 0 {
                            return Verdict::Fail(fail("second begin message for the same file".into()));
                        }
                        state = 1;
                    }
                    "end" => {
                        if state != 1 {
                            return Verdict::Fail(fail("end message without begin".into()));
                        }
                        state = 2;
                    }
                    "summary" => {}
                    "match" | "context" => {
                        if state != 1 {
                            return Verdict::Fail(fail(format!("{ty} message outside begin..end")));
                        }
                        let d = &v["data"];
                        let (lb, is_text) = match dec(&d["lines"]) {
                            Ok(x) => x,
                            Err(e) => return Verdict::Fail(fail(format!("lines field: {e}"))),
                        };
                        let valid = std::str::from_utf8(&lb).is_ok();
                        if is_text != valid {
                            return Verdict::Fail(fail(format!("lines are encoded as {} although the bytes are {} UTF-8", if is_text { "text" } else { "base64" }, if valid { "valid" } else { "not valid" })));
                        }
                        let Some(off) = d["absolute_offset"].as_u64() else { return Verdict::Fail(fail("absolute_offset missing".into())) };
                        let o = off as usize;
                        if o + lb.len() > input.len() || input[o..o + lb.len()] != lb[..] {
                            return Verdict::Fail(fail(format!("{ty}: lines {:?} are not the input bytes at absolute_offset {off}", Bs(lb.clone()))));
                        }
                        let Some(li) = lines.iter().position(|l| l.start == o) else {
                            return Verdict::Fail(fail(format!("absolute_offset {off} is not the start of a line")));
                        };
                        if !lines.iter().any(|l| l.end == o + lb.len()) {
                            return Verdict::Fail(fail(format!("{ty}: reported text does not end at a line end")));
                        }
                        if let Some(n) = d["line_number"].as_u64() {
                            if n as usize != li + 1 {
                                return Verdict::Fail(fail(format!("{ty}: line_number {n} but the text at offset {off} is line {}", li + 1)));
                            }
                        }
                        if let Some(p) = last_off {
                            if off <= p {
                                return Verdict::Fail(fail("messages are not in input order".into()));
                            }
                        }
                        last_off = Some(off);
                        let mut spans = vec![];
                        let mut prev_end = 0u64;
                        for (k, sm) in d["submatches"].as_array().cloned().unwrap_or_default().iter().enumerate() {
                            let (mb, m_is_text) = match dec(&sm["match"]) {
                                Ok(x) => x,
                                Err(e) => return Verdict::Fail(fail(format!("submatch: {e}"))),
                            };
                            if m_is_text != std::str::from_utf8(&mb).is_ok() {
                                return Verdict::Fail(fail("submatch text/base64 choice does not follow UTF-8 validity".into()));
                            }
                            let (Some(s), Some(e)) = (sm["start"].as_u64(), sm["end"].as_u64()) else { return Verdict::Fail(fail("submatch without start/end".into())) };
                            if s > e || e as usize > lb.len() || lb[s as usize..e as usize] != mb[..] {
                                return Verdict::Fail(fail(format!("submatch #{k}: match {:?} is not lines[{s}..{e}]", Bs(mb))));
                            }
                            if k > 0 && s < prev_end {
                                return Verdict::Fail(fail("submatches overlap or are out of order".into()));
                            }
                            prev_end = e;
                            spans.push((s as usize, e as usize));
                        }
                        if ty == "match" {
                            n_match += 1;
                            if !case.invert && !case.multiline {
                                let l = &lines[li];
                                let content = model::content(input, l, case.crlf);
                                if let Some(mut want) = line_match_starts(&orc, content) {
                                    let known_shape = !l.terminated && want.last().map_or(false, |(s, e)| s == e && *e == content.len());
                                    if known_shape {
                                        info.class("skipped_known_trailing_empty_shape");
                                        want.pop();
                                    }
                                    if spans != want && !(known_shape && spans.len() == want.len() + 1) {
                                        return Verdict::Fail(fail(format!("line {}: JSON submatches {spans:?} differ from the successive matches of the pattern in that line {want:?}", li + 1)));
                                    }
                                    info.class("submatches_checked");
                                }
                            }
                        } else {
                            n_ctx += 1;
                            if !d["submatches"].as_array().map_or(true, |a| a.is_empty()) && !case.invert {
                                return Verdict::Fail(fail("a context message carries submatches although the search is not inverted".into()));
                            }
                        }
                    }
                    _ => return Verdict::Fail(fail(format!("unknown message type {ty:?}"))),
                }
            }
            if state == 1 {
                return Verdict::Fail(fail("begin without end".into()));
            }
            if case.passthru && !case.multiline && n_match + n_ctx != lines.len() {
                return Verdict::Fail(fail(format!("--passthru --json reported {} lines for an input of {} lines", n_match + n_ctx, lines.len())));
            }
            info.class_if(case.passthru, "passthru");
            info.class_if(case.passthru && n_match == 0 && n_ctx > 0, "passthru_without_any_match");
            info.nontrivial = n_match > 0 && n_ctx > 0 && (invalid_utf8 || !input.is_ascii());
            info.class_if(n_ctx > 0, "has_context_records");
            info.class_if(invalid_utf8 && n_match + n_ctx > 0, "json_with_invalid_utf8_input");
        }
    }
    if crlf_reterminated.get() {
        return Verdict::Fail(
            fail("--crlf: a line that ends in a lone LF is printed with CRLF, so the printed bytes are not the input's own".into())
                .fact("crlf-mode")
                .fact("lone-LF-line-printed-with-CRLF"),
        );
    }
    info.class(match case.mode {
        Mode::Standard => "mode_standard",
        Mode::Vimgrep => "mode_vimgrep",
        Mode::Json => "mode_json",
    });
    info.class_if(case.multiline, "multiline");
    info.class_if(case.crlf, "crlf");
    info.class_if(case.invert, "invert");
    info.class_if(case.heading, "heading");
    info.class_if(case.null, "null");
    info.class_if(input.len() > 65536, "input>64KiB");
    info.class_if(lines.last().map_or(false, |l| !l.terminated), "unterminated_last_line");
    info.class_if(invalid_utf8, "invalid_utf8");
    Verdict::Pass(info)
}

// ----------------------------------------------------------- multi_file ---

/// Two files searched by one invocation: the output must be the two
/// single-file outputs (each validated by `check`) put together, with nothing
/// but the documented separator between them; JSON: begin..end of the first
/// file, then begin..end of the second.
#[derive(Clone, Debug, Serialize, Deserialize)]
pub struct MultiCase {
    pub base: Case,
    pub second: Bs,
}

pub fn gen_multi(t: &mut Tape) -> MultiCase {
    let mut base = gen_case(t);
    if base.input.len() > 4000 {
        let cut = base.input.0[..4000].iter().rposition(|b| *b == b'\n').map_or(4000, |i| i + 1);
        base.input.0.truncate(cut);
    }
    let lines: Vec<&[u8]> = base.input.0.split_inclusive(|b| *b == b'\n').collect();
    let second = match t.weighted(&[6, 1, 1]) {
        0 if !lines.is_empty() => {
            // the same lines, rotated (so both files usually have matches, at different line numbers)
            let r = t.below(lines.len());
            let mut v: Vec<u8> = vec![];
            for l in lines[r..].iter().chain(lines[..r].iter()) {
                v.extend_from_slice(l);
                if !l.ends_with(b"\n") {
                    v.push(b'\n');
                }
            }
            if t.chance(1, 4) && v.ends_with(b"\n") {
                v.pop();
            }
            v
        }
        1 => vec![],
        _ => b"zzz\nzzz\n".to_vec(),
    };
    MultiCase { base, second: Bs(second) }
}

fn strip_json_noise(stdout: &[u8]) -> Result<Vec<Value>, String> {
    let mut out = vec![];
    for l in stdout.split(|b| *b == b'\n') {
        if l.is_empty() {
            continue;
        }
        let mut v: Value = serde_json::from_slice(l).map_err(|e| format!("a line of --json output is not valid JSON: {e}"))?;
        if v["type"] == "summary" {
            continue;
        }
        if let Some(st) = v["data"]["stats"].as_object_mut() {
            st.remove("elapsed");
        }
        out.push(v);
    }
    Ok(out)
}

pub fn check_multi(mc: &MultiCase) -> Verdict {
    let v = check_multi_inner(mc);
    if let Verdict::Fail(_) = &v {
        // as in `check`: a failure on an input where the regex engine contradicts itself across start
        // offsets carries the fact of that (known) root cause; either file may be the one
        let pc = pat_cfg(&mc.base);
        if let (Ok(m), Ok(o)) = (pc.build(), oracle::build(&pc)) {
            let first = crate::mat::attribute_engine(v, &m, Some(&o.re), &mc.base.input.0, b'\n', mc.base.crlf);
            return match first {
                Verdict::Fail(f) if !f.facts.iter().any(|x| x == crate::mat::ENGINE_FACT) => {
                    crate::mat::attribute_engine(Verdict::Fail(f), &m, Some(&o.re), &mc.second.0, b'\n', mc.base.crlf)
                }
                other => other,
            };
        }
    }
    v
}

fn check_multi_inner(mc: &MultiCase) -> Verdict {
    let case = &mc.base;
    if gen::starts_with_bom(&case.input.0) || gen::starts_with_bom(&mc.second.0) {
        return Verdict::Reject("input starts with a byte-order mark (transcoding is C17's subject)");
    }
    let dir = TempDir::fast("c09m");
    dir.write("f", &case.input.0);
    dir.write("g", &mc.second.0);
    let mut base_args = args(case);
    base_args.pop(); // the path
    let run = |paths: &[&str]| {
        let rg = Rg::new(&dir.path).args(base_args.iter().cloned()).args(paths.iter().copied());
        let cmd = rg.cmdline();
        (rg.run(), cmd)
    };
    let (a, _) = run(&["f"]);
    let (b, _) = run(&["g"]);
    let (ab, cmd) = run(&["f", "g"]);
    if a.timed_out || b.timed_out || ab.timed_out {
        return Verdict::Reject("timeout (inconclusive)");
    }
    if a.status == Some(2) || b.status == Some(2) {
        return Verdict::Reject("rg rejected the arguments");
    }
    // Known finding (recorded under C10 as multi-line-only-matching-omits-empty-matches): the
    // per-match printing path of -U writes no record for an empty match or one made of line
    // terminators only, although the sink has counted the match - so a file can "have output"
    // (separator before the next file, context lines) without any match record.
    let empty_ml_match = case.mode == Mode::Vimgrep && case.multiline && {
        let pc = pat_cfg(case);
        pc.build().ok().map_or(false, |m| {
            [&case.input.0, &mc.second.0].iter().any(|inp| {
                super::c13::enumerate_matches(&m, inp, false).iter().any(|(s, e)| inp[*s..*e].iter().all(|b| *b == b'\n' || *b == b'\r'))
            })
        })
    };
    let fail = |msg: String| {
        let f = Fail::new(format!(
            "{msg}\n cmd: {cmd}\n f ({} bytes): {:?}\n g ({} bytes): {:?}\n stdout for f alone: {:?}\n stdout for g alone: {:?}\n stdout for f g: {:?}\n stderr: {:?}",
            case.input.len(),
            Bs(case.input.0[..case.input.len().min(400)].to_vec()),
            mc.second.len(),
            Bs(mc.second.0[..mc.second.len().min(400)].to_vec()),
            Bs(a.stdout[..a.stdout.len().min(600)].to_vec()),
            Bs(b.stdout[..b.stdout.len().min(600)].to_vec()),
            Bs(ab.stdout[..ab.stdout.len().min(1200)].to_vec()),
            Bs(ab.stderr.clone())
        ));
        if empty_ml_match {
            f.fact("multi-line-per-match-output-has-no-record-for-an-empty-or-terminator-only-match")
        } else {
            f
        }
    };
    let want_status = if a.status == Some(0) || b.status == Some(0) { Some(0) } else { Some(1) };
    if ab.status != want_status {
        return Verdict::Fail(fail(format!("exit status {:?} for both files, {:?} and {:?} for each alone", ab.status, a.status, b.status)));
    }
    let both = !a.stdout.is_empty() && !b.stdout.is_empty();
    if case.mode == Mode::Json {
        let (ja, jb, jab) = match (strip_json_noise(&a.stdout), strip_json_noise(&b.stdout), strip_json_noise(&ab.stdout)) {
            (Ok(x), Ok(y), Ok(z)) => (x, y, z),
            (Err(e), _, _) | (_, Err(e), _) | (_, _, Err(e)) => return Verdict::Fail(fail(e)),
        };
        let mut want = ja.clone();
        want.extend(jb.iter().cloned());
        if want != jab {
            return Verdict::Fail(fail("--json for two files is not the first file's begin..end followed by the second file's (elapsed times and the summary left out)".into()));
        }
    } else {
        let heading = case.mode == Mode::Standard && case.with_filename && case.heading;
        let seps: Vec<&[u8]> = if !both {
            vec![b""]
        } else if heading {
            if case.crlf { vec![b"\n", b"\r\n"] } else { vec![b"\n"] }
        } else if case.after + case.before > 0 {
            if case.crlf { vec![b"--\n", b"--\r\n"] } else { vec![b"--\n"] }
        } else {
            vec![b""]
        };
        let ok = seps.iter().any(|s| {
            ab.stdout.len() == a.stdout.len() + s.len() + b.stdout.len()
                && ab.stdout.starts_with(&a.stdout)
                && ab.stdout[a.stdout.len()..].starts_with(s)
                && ab.stdout.ends_with(&b.stdout)
        });
        if !ok {
            return Verdict::Fail(fail(format!(
                "the output for two files is not the two single-file outputs joined by {}",
                if !both { "nothing (one of them is empty)" } else if heading { "one empty line (--heading)" } else if case.after + case.before > 0 { "one context separator" } else { "nothing" }
            )));
        }
    }
    let mut info = Info::new(both);
    info.class_if(both, "both_files_have_output");
    info.class_if(!a.stdout.is_empty() != !b.stdout.is_empty(), "one_file_without_output");
    info.class(match case.mode {
        Mode::Standard => "mode_standard",
        Mode::Vimgrep => "mode_vimgrep",
        Mode::Json => "mode_json",
    });
    info.class_if(case.mode == Mode::Standard && case.with_filename && case.heading && both, "heading_blank_line_between_files");
    info.class_if(case.mode != Mode::Json && !(case.mode == Mode::Standard && case.with_filename && case.heading) && (case.after + case.before > 0) && both, "context_separator_between_files");
    Verdict::Pass(info)
}

// ----------------------------------------------------------- short_writes ---

/// A writer that accepts at most `max` bytes per call (what a pipe does to a writer that was interrupted).
struct ShortWriter {
    inner: Vec<u8>,
    max: usize,
    calls: usize,
}

impl std::io::Write for ShortWriter {
    fn write(&mut self, buf: &[u8]) -> std::io::Result<usize> {
        let n = buf.len().min(self.max);
        self.inner.extend_from_slice(&buf[..n]);
        self.calls += 1;
        Ok(n)
    }
    fn flush(&mut self) -> std::io::Result<()> {
        Ok(())
    }
}

#[derive(Clone, Debug, Serialize, Deserialize)]
pub struct ShortCase {
    pub base: Case,
    /// bytes accepted per write call
    pub max: usize,
}

pub fn gen_short(t: &mut Tape) -> ShortCase {
    let base = gen_case(t);
    ShortCase { base, max: *t.pick(&[7usize, 1, 2, 3, 64, 4096]) }
}

fn print_in_process<W: std::io::Write>(case: &Case, wtr: W) -> Result<W, String> {
    use grep_printer::{JSONBuilder, StandardBuilder};
    use grep_searcher::SearcherBuilder;
    let matcher = pat_cfg(case).build()?;
    let mut sb = SearcherBuilder::new();
    sb.line_number(case.line_number || case.mode == Mode::Json)
        .multi_line(case.multiline)
        .invert_match(case.invert)
        .passthru(case.passthru)
        .before_context(if case.passthru { 0 } else { case.before })
        .after_context(if case.passthru { 0 } else { case.after });
    if case.crlf {
        sb.line_terminator(grep_matcher::LineTerminator::crlf());
    }
    let mut searcher = sb.build();
    let input = &case.input.0;
    if case.mode == Mode::Json {
        let mut p = JSONBuilder::new().build(wtr);
        searcher.search_slice(&matcher, input, p.sink_with_path(&matcher, "f")).map_err(|e| e.to_string())?;
        Ok(p.into_inner())
    } else {
        let mut p = StandardBuilder::new()
            .column(case.column)
            .byte_offset(case.byte_offset)
            .heading(case.heading)
            .per_match(case.mode == Mode::Vimgrep)
            .per_match_one_line(case.mode == Mode::Vimgrep)
            .build_no_color(wtr);
        if case.with_filename {
            searcher.search_slice(&matcher, input, p.sink_with_path(&matcher, "f")).map_err(|e| e.to_string())?;
        } else {
            searcher.search_slice(&matcher, input, p.sink(&matcher)).map_err(|e| e.to_string())?;
        }
        Ok(p.into_inner().into_inner())
    }
}

/// What the printers emit must not depend on how many bytes the writer underneath takes per call: the
/// output through a writer that accepts `max` bytes at a time equals the output into a `Vec`.
pub fn check_short(sc: &ShortCase) -> Verdict {
    let case = &sc.base;
    if sc.max == 0 {
        return Verdict::Reject("a writer that accepts nothing");
    }
    let full = match print_in_process(case, Vec::new()) {
        Ok(v) => v,
        Err(_) => return Verdict::Reject("builder rejected the pattern or the search failed"),
    };
    let short = match print_in_process(case, ShortWriter { inner: vec![], max: sc.max, calls: 0 }) {
        Ok(w) => w,
        Err(e) => return Verdict::Fail(Fail::new(format!("printing through a writer that takes {} bytes per call failed ({e}) although printing into a Vec succeeded\n case: {}", sc.max, serde_json::to_string(case).unwrap_or_default()))),
    };
    // (the JSON end message carries the elapsed time)
    let strip = |b: &[u8]| -> Vec<u8> {
        static RE: std::sync::OnceLock<regex::bytes::Regex> = std::sync::OnceLock::new();
        let re = RE.get_or_init(|| regex::bytes::Regex::new(r#""elapsed":\{[^}]*\}"#).unwrap());
        re.replace_all(b, &b"\"elapsed\":{}"[..]).into_owned()
    };
    let (full, short_bytes) = if case.mode == Mode::Json { (strip(&full), strip(&short.inner)) } else { (full, short.inner.clone()) };
    let short = ShortWriter { inner: short_bytes, max: short.max, calls: short.calls };
    if short.inner != full {
        let d = full.iter().zip(short.inner.iter()).position(|(a, b)| a != b).unwrap_or(full.len().min(short.inner.len()));
        return Verdict::Fail(Fail::new(format!(
            "the printed bytes depend on the writer: through a writer that accepts at most {} bytes per call the output has {} bytes, into a Vec {} bytes; first difference at byte {d}\n into a Vec: {:?}\n short writer: {:?}\n case: {}",
            sc.max,
            short.inner.len(),
            full.len(),
            Bs(full[d.saturating_sub(20)..full.len().min(d + 60)].to_vec()),
            Bs(short.inner[d.saturating_sub(20).min(short.inner.len())..short.inner.len().min(d + 60)].to_vec()),
            serde_json::to_string(case).unwrap_or_default()
        )));
    }
    let mut info = Info::new(!full.is_empty());
    info.class_if(case.mode == Mode::Json, "json");
    info.class_if(short.calls > 3, "more_than_three_write_calls");
    info.class_if(full.len() > sc.max, "output_longer_than_one_write");
    Verdict::Pass(info)
}

pub fn run(pc: &PropCtx) {
    pc.rule(
        "generated (pattern, input with invalid UTF-8 / multi-byte characters / very long lines / CRLF / missing final newline, flag set from -n -b --column --vimgrep -H/-I --heading --null -A -B --json -U --crlf -v -i, mmap on/off); the real binary's stdout is parsed by a grammar derived from the flags; every record's body must be byte-for-byte a line of the file, its line number / byte offset that line's own, its column 1 + the start of the first match (per-line regex oracle; all matches for --vimgrep), separators exactly between non-adjacent printed lines; JSON: decoded lines == file bytes at absolute_offset, submatch text == lines[start..end], submatches == the successive matches, text vs base64 chosen by UTF-8 validity (both directions), begin (match|context)* end in order. multi_file: the same flag sets with two files (the second a rotation of the first, empty, or without matches) given to one invocation: stdout must be the two single-file outputs joined by nothing, by one context separator (context flags, no heading) or by one empty line (--heading), JSON the first file's begin..end followed by the second's, exit status 0 iff one of them has 0. short_writes (in process): the Standard and JSON printers write the same generated searches through a writer that accepts 1 / 2 / 3 / 7 / 64 / 4096 bytes per call; the bytes must equal what they write into a Vec. Non-trivial = at least one match and one context record and a non-ASCII input; distinct by hash",
    );
    pc.assume("which lines are selected is C01/C03's subject; here the per-line oracle is only used for columns and submatches");
    pc.assume("under -U the column is asserted only for the first line of a block; the trailing-empty-match shape recorded as a known finding under C10 is skipped and counted");
    pc.set_shrink_iters(300);
    let cases = pc.tier.pick(15_000, 200_000);
    pc.run_tape("records", cases, (128, 1500), gen_case, check);
    pc.require_class("records:column_checked", cases as u64 / 40);
    pc.require_class("records:submatches_checked", cases as u64 / 40);
    pc.require_class("records:json_with_invalid_utf8_input", cases as u64 / 100);
    let multi = pc.tier.pick(3_000, 40_000);
    pc.run_tape("multi_file", multi, (128, 1500), gen_multi, check_multi);
    let short = pc.tier.pick(4_000, 60_000);
    pc.run_tape("short_writes", short, (128, 1500), gen_short, check_short);
    pc.require_class("short_writes:output_longer_than_one_write", short as u64 / 10);
    pc.require_class("multi_file:heading_blank_line_between_files", multi as u64 / 100);
    pc.require_class("multi_file:context_separator_between_files", multi as u64 / 50);
}

pub fn replay(_pc: &PropCtx, sub: &str, case: &serde_json::Value) -> Result<Verdict, String> {
    if sub == "multi_file" {
        let c: MultiCase = serde_json::from_value(case.clone()).map_err(|e| e.to_string())?;
        return Ok(check_multi(&c));
    }
    if sub == "short_writes" {
        let c: ShortCase = serde_json::from_value(case.clone()).map_err(|e| e.to_string())?;
        return Ok(check_short(&c));
    }
    let c: Case = serde_json::from_value(case.clone()).map_err(|e| e.to_string())?;
    Ok(check(&c))
}
