//! C18 — preprocessor / decompression output is what gets searched; failures
//! surface.
//!
//! CLI-level fault sequences. One case = a small tree of generated files, a
//! generated POSIX `sh` preprocessor (or `-z` on files compressed at
//! generation time with the real gzip / bzip2 / xz), and a set of output /
//! early-stop flags. The harness runs the very same script / decompressor on
//! every selected file itself (consuming all of its output) to learn the bytes
//! the command writes, its exit status and how much it wrote to stderr. The
//! expected standard output is that of `rg` run directly on a mirror tree
//! holding those bytes under the original names; unselected / unrecognised
//! files are mirrored verbatim. Errors follow the decision table documented
//! next to `categorize`.
//!
//! Subchecks: `stderr_flood` (a fixed grid: 70 KB / 2 MiB of stderr at every
//! position relative to stdout, for --pre and for a generated decompressor;
//! a search that does not finish within the watchdog twice is a violation)
//! and `fault_sequences` (tape-driven, everything combined).

use std::collections::BTreeSet;
use std::io::Write;
use std::path::{Path, PathBuf};
use std::process::{Command, Stdio};
use std::sync::atomic::{AtomicBool, AtomicU64, Ordering};
use std::sync::Mutex;
use std::time::Duration;

use serde::{Deserialize, Serialize};

use crate::bs::{self, Bs};
use crate::cli::{Out, Rg, TempDir};
use crate::runner::{Fail, Failure, Info, PropCtx, Verdict};
use crate::tape::Tape;

/// The PATH `cli::Rg` gives to rg (and therefore to the commands rg spawns);
/// the harness' own runs of the same commands use the same one.
const RPATH: &str = "/usr/local/bin:/usr/bin:/bin";
const FILLER: &[u8] = b"the quick brown cat jumps over the lazy dog 0123456789\n";
/// Filler lines of a "big" file (~660 KB): far more than the pipe capacity
/// plus rg's read buffer, so that a search stopping at a match / NUL near the
/// start cannot have seen the end of the command's output.
const BIG_PAD: u32 = 12_000;
const SURELY_EARLY_MIN: usize = 300_000;
const SURELY_EARLY_WINDOW: usize = 2_000;
const PREPEND_LINE: &str = "PRE needle foo";
const FLOOD: u32 = 2 << 20;
const RG_WATCHDOG: Duration = Duration::from_secs(10);

// ---------------------------------------------------------------------------
// case
// ---------------------------------------------------------------------------

#[derive(Clone, Copy, Debug, Serialize, Deserialize, PartialEq, Eq)]
pub enum Transform {
    Cat,
    Upper,
    Prepend,
    DropFirst,
}

#[derive(Clone, Copy, Debug, Serialize, Deserialize, PartialEq, Eq)]
pub enum ErrWhen {
    Before,
    Interleaved,
    After,
}

#[derive(Clone, Copy, Debug, Serialize, Deserialize, PartialEq, Eq)]
pub enum ExitPoint {
    AfterAll,
    AfterHalf,
    BeforeOutput,
}

/// How the preprocessor behaves for one file.
#[derive(Clone, Debug, Serialize, Deserialize, PartialEq, Eq)]
pub struct Fault {
    pub stderr_bytes: u32,
    pub when: ErrWhen,
    pub status: u8,
    pub point: ExitPoint,
}

impl Fault {
    pub fn benign() -> Fault {
        Fault { stderr_bytes: 0, when: ErrWhen::Before, status: 0, point: ExitPoint::AfterAll }
    }
}

#[derive(Clone, Copy, Debug, Serialize, Deserialize, PartialEq, Eq)]
pub enum PreCmd {
    Script,
    /// a path that does not exist
    Missing,
    /// the script exists but has no execute permission
    NotExecutable,
    /// a bare command name that is not in PATH
    MissingInPath,
}

/// `*.ext` (by_name = false) or the bare file name (by_name = true),
/// optionally negated with `!`.
#[derive(Clone, Debug, Serialize, Deserialize, PartialEq, Eq)]
pub struct GlobSpec {
    pub negated: bool,
    pub by_name: bool,
    pub what: String,
}

impl GlobSpec {
    fn text(&self) -> String {
        format!("{}{}{}", if self.negated { "!" } else { "" }, if self.by_name { "" } else { "*." }, self.what)
    }
    fn matches(&self, f: &FileSpec) -> bool {
        if self.by_name {
            f.name() == self.what
        } else {
            f.ext == self.what
        }
    }
}

#[derive(Clone, Debug, Serialize, Deserialize)]
pub struct PreSpec {
    pub cmd: PreCmd,
    pub transform: Transform,
    /// read the file from standard input instead of opening `$1`
    pub from_stdin: bool,
    /// behaviour for files without an entry in `faults`
    pub default: Fault,
    /// (file name, behaviour)
    pub faults: Vec<(String, Fault)>,
    pub globs: Vec<GlobSpec>,
}

#[derive(Clone, Copy, Debug, Serialize, Deserialize, PartialEq, Eq)]
pub enum OutMode {
    Standard,
    Count,
    FilesWithMatches,
    Quiet,
}

#[derive(Clone, Copy, Debug, Serialize, Deserialize, PartialEq, Eq)]
pub enum Threads {
    J1,
    SortPath,
    J4,
    Default,
}

#[derive(Clone, Debug, Serialize, Deserialize)]
pub struct Flags {
    pub out: OutMode,
    /// -m1
    pub max1: bool,
    pub line_number: bool,
    /// -a
    pub text: bool,
    /// --binary (ignored when `text` is set)
    pub binary: bool,
    pub ignore_case: bool,
    /// pass every file on the command line instead of searching the cwd
    pub explicit: bool,
    pub threads: Threads,
}

#[derive(Clone, Debug, Serialize, Deserialize)]
pub struct FileSpec {
    /// lives in the sub-directory `d/`
    pub in_dir: bool,
    pub stem: String,
    /// txt dat log | gz bz2 xz lzma (really compressed) | lz4 zst br (stored
    /// uncompressed: the tools are absent from this image)
    pub ext: String,
    pub head: Vec<Bs>,
    /// number of filler lines between head and tail
    pub pad: u32,
    pub tail: Vec<Bs>,
    pub final_newline: bool,
    /// keep only this many thousandths of the compressed bytes
    pub truncate: Option<u16>,
}

impl FileSpec {
    pub fn name(&self) -> String {
        format!("{}.{}", self.stem, self.ext)
    }
    pub fn rel(&self) -> String {
        if self.in_dir {
            format!("d/{}", self.name())
        } else {
            self.name()
        }
    }
    fn plain(&self) -> Vec<u8> {
        let mut v = vec![];
        for l in &self.head {
            v.extend_from_slice(&l.0);
            v.push(b'\n');
        }
        for _ in 0..self.pad {
            v.extend_from_slice(FILLER);
        }
        for l in &self.tail {
            v.extend_from_slice(&l.0);
            v.push(b'\n');
        }
        if !self.final_newline && v.last() == Some(&b'\n') {
            v.pop();
        }
        v
    }
}

#[derive(Clone, Debug, Serialize, Deserialize)]
pub struct Case {
    pub pattern: String,
    pub files: Vec<FileSpec>,
    pub pre: Option<PreSpec>,
    pub zip: bool,
    /// when both --pre and -z are given: is -z the later one (it then wins)
    pub zip_last: bool,
    /// -z only: put generated `lz4`, `zstd` and `brotli` commands (the real
    /// ones are not installed) first in rg's PATH. They "decompress" by
    /// applying the transform and misbehave per file like a preprocessor, so
    /// that -z sees large stderr, arbitrary statuses and exit points too.
    /// `cmd`, `from_stdin` and `globs` of the spec are not used.
    #[serde(default)]
    pub fake_tools: Option<PreSpec>,
    pub flags: Flags,
}

impl Case {
    fn effective_pre(&self) -> Option<&PreSpec> {
        match &self.pre {
            Some(p) if !(self.zip && self.zip_last) => Some(p),
            _ => None,
        }
    }
    fn effective_zip(&self) -> bool {
        self.zip && (self.pre.is_none() || self.zip_last)
    }
}

// ---------------------------------------------------------------------------
// generator
// ---------------------------------------------------------------------------

const PATTERNS: &[&str] = &["foo", "needle", "ba[rz]", "FOO", "^foo", "o$", "PRE", "NEEDLE", "fo+ ", "\\bbar\\b"];
const WORDS: &[&str] = &["foo", "bar", "needle", "baz", "Foo", "qux", "FOO", "x", "o"];
// 141 = 128 + SIGPIPE (what a shell wrapper reports for a broken pipe), 143
// and 137 likewise for TERM / KILL; 213 is a marker: the script kills itself
// with SIGPIPE instead of exiting (see the script renderer)
const STATUSES: &[u8] = &[1, 2, 255, 3, 127, 126, 42, 141, 143, 213, 137];
pub const STATUS_KILL_PIPE: u8 = 213;

fn gen_line(t: &mut Tape) -> Bs {
    let words = |t: &mut Tape| {
        let n = 1 + t.small(3);
        let v: Vec<&str> = (0..n).map(|_| *t.pick(WORDS)).collect();
        v.join(" ").into_bytes()
    };
    Bs(match t.weighted(&[16, 1, 1, 1, 1, 1]) {
        0 => words(t),
        1 => vec![],
        2 => {
            let mut v = words(t);
            v.push(b'\r');
            v
        }
        3 => {
            let mut v = words(t);
            v.extend_from_slice(b" \xFF\xFE ");
            v.extend_from_slice(&words(t));
            v
        }
        4 => {
            let mut v = words(t);
            v.extend(std::iter::repeat(b'y').take(300));
            v.extend_from_slice(b" foo");
            v
        }
        _ => {
            let mut v = words(t);
            v.push(0);
            v.extend_from_slice(&words(t));
            v
        }
    })
}

fn gen_fault(t: &mut Tape) -> Fault {
    let stderr_bytes = match t.weighted(&[5, 3, 2, 1]) {
        0 => 0,
        1 => 1000,
        2 => FLOOD,
        _ => 70_000,
    };
    let when = *t.pick(&[ErrWhen::Before, ErrWhen::Interleaved, ErrWhen::After]);
    let status = if t.chance(1, 4) { 0 } else { *t.pick(STATUSES) };
    let point = match t.weighted(&[4, 3, 2]) {
        0 => ExitPoint::AfterAll,
        1 => ExitPoint::AfterHalf,
        _ => ExitPoint::BeforeOutput,
    };
    Fault { stderr_bytes, when, status, point }
}

pub fn gen_case(t: &mut Tape) -> Case {
    // 0: --pre, 1: -z, 2: --pre then -z (zip wins), 3: -z then --pre (pre wins)
    let mode = t.weighted(&[6, 3, 1, 1]);
    let has_pre = mode != 1;
    let zip = mode != 0;
    let zip_last = mode == 2;
    let zip_effective = mode == 1 || mode == 2;
    let nfiles = 1 + t.below(5);
    let mut files = vec![];
    for i in 0..nfiles {
        let ext = if zip_effective {
            *t.pick(&["gz", "txt", "bz2", "xz", "gz", "lz4", "lzma", "zst", "br", "dat"])
        } else {
            *t.pick(&["txt", "dat", "txt", "log", "dat", "gz", "txt"])
        };
        let big = t.chance(1, 5);
        let mut head = vec![];
        if big && t.chance(3, 4) {
            // a line near the start that most patterns match: makes "rg surely stopped early" cases
            head.push(Bs(b"foo needle bar FOO".to_vec()));
        }
        for _ in 0..t.small(5) + if big { 0 } else { 1 } {
            head.push(gen_line(t));
        }
        let mut tail = vec![];
        for _ in 0..t.small(3) {
            tail.push(gen_line(t));
        }
        let really_compressed = matches!(ext, "gz" | "bz2" | "xz" | "lzma");
        let truncate = if really_compressed && t.chance(1, 3) { Some(*t.pick(&[990u16, 500, 900, 100, 0])) } else { None };
        files.push(FileSpec {
            in_dir: t.chance(1, 4),
            stem: format!("f{i}"),
            ext: ext.to_string(),
            head,
            pad: if big { BIG_PAD } else { 0 },
            tail,
            final_newline: !t.chance(1, 6),
            truncate,
        });
    }
    let pre = if has_pre {
        let cmd = match t.weighted(&[14, 1, 1, 1]) {
            0 => PreCmd::Script,
            1 => PreCmd::Missing,
            2 => PreCmd::NotExecutable,
            _ => PreCmd::MissingInPath,
        };
        let transform = *t.pick(&[Transform::Cat, Transform::Upper, Transform::Prepend, Transform::DropFirst, Transform::Cat]);
        let from_stdin = t.chance(1, 3);
        let default = if t.chance(1, 8) { gen_fault(t) } else { Fault::benign() };
        let nfaults = match t.weighted(&[2, 6, 2]) {
            0 => 0,
            1 => 1,
            _ => 2,
        };
        let mut faults: Vec<(String, Fault)> = vec![];
        for _ in 0..nfaults {
            // half of the time aim at a big file (if any): cut-short commands
            let bigs: Vec<usize> = (0..files.len()).filter(|i| files[*i].pad > 0).collect();
            let f = if !bigs.is_empty() && t.bool() { &files[bigs[t.below(bigs.len())]] } else { &files[t.below(files.len())] };
            if faults.iter().all(|(n, _)| *n != f.name()) {
                faults.push((f.name(), gen_fault(t)));
            }
        }
        let mut globs = vec![];
        let nglobs = match t.weighted(&[5, 4, 2]) {
            0 => 0,
            1 => 1,
            _ => 2,
        };
        for _ in 0..nglobs {
            let f = &files[t.below(files.len())];
            let by_name = t.chance(1, 3);
            globs.push(GlobSpec { negated: t.chance(1, 4), by_name, what: if by_name { f.name() } else { f.ext.clone() } });
        }
        Some(PreSpec { cmd, transform, from_stdin, default, faults, globs })
    } else {
        None
    };
    let flags = Flags {
        out: match t.weighted(&[5, 1, 2, 2]) {
            0 => OutMode::Standard,
            1 => OutMode::Count,
            2 => OutMode::FilesWithMatches,
            _ => OutMode::Quiet,
        },
        max1: t.chance(1, 3),
        line_number: t.chance(1, 3),
        text: t.chance(1, 6),
        binary: t.chance(1, 8),
        ignore_case: t.chance(1, 5),
        explicit: t.chance(1, 3),
        threads: match t.weighted(&[5, 2, 2, 1]) {
            0 => Threads::J1,
            1 => Threads::SortPath,
            2 => Threads::J4,
            _ => Threads::Default,
        },
    };
    let fake_tools = if zip_effective && t.chance(1, 3) {
        let mut faults: Vec<(String, Fault)> = vec![];
        let targets: Vec<&FileSpec> = files.iter().filter(|f| matches!(f.ext.as_str(), "lz4" | "zst" | "br")).collect();
        if !targets.is_empty() {
            for _ in 0..1 + t.below(2) {
                let f = targets[t.below(targets.len())];
                if faults.iter().all(|(n, _)| *n != f.name()) {
                    faults.push((f.name(), gen_fault(t)));
                }
            }
        }
        Some(PreSpec {
            cmd: PreCmd::Script,
            transform: *t.pick(&[Transform::Cat, Transform::Upper, Transform::Prepend, Transform::DropFirst]),
            from_stdin: false,
            default: if t.chance(1, 8) { gen_fault(t) } else { Fault::benign() },
            faults,
            globs: vec![],
        })
    } else {
        None
    };
    Case { pattern: t.pick(PATTERNS).to_string(), files, pre, zip, zip_last, fake_tools, flags }
}

/// The fixed grid of the `stderr_flood` enumeration: one target file whose
/// preprocessor writes 70 KB / 2 MB to stderr at every position relative to
/// its stdout, for every exit point, two statuses, both input channels, with
/// and without an early stop; a benign sibling and an unselected file.
pub fn flood_cases() -> Vec<Case> {
    let text = |ls: &[&str]| ls.iter().map(|l| Bs::from(*l)).collect::<Vec<_>>();
    let mut out = vec![];
    for (k, bytes) in [FLOOD, 70_000].into_iter().enumerate() {
        for when in [ErrWhen::Before, ErrWhen::Interleaved, ErrWhen::After] {
            for point in [ExitPoint::AfterAll, ExitPoint::AfterHalf, ExitPoint::BeforeOutput] {
                for status in [0u8, 3] {
                    for from_stdin in [false, true] {
                        for max1 in [false, true] {
                            // the smaller amount only on a diagonal of the grid
                            if k == 1 && (from_stdin != max1 || point == ExitPoint::AfterHalf) {
                                continue;
                            }
                            let files = vec![
                                FileSpec {
                                    in_dir: false,
                                    stem: "f0".into(),
                                    ext: "txt".into(),
                                    head: text(&["foo one", "bar", "needle foo", "qux", "foo three", "x"]),
                                    pad: 0,
                                    tail: vec![],
                                    final_newline: true,
                                    truncate: None,
                                },
                                FileSpec {
                                    in_dir: true,
                                    stem: "f1".into(),
                                    ext: "txt".into(),
                                    head: text(&["bar", "foo sibling"]),
                                    pad: 0,
                                    tail: vec![],
                                    final_newline: true,
                                    truncate: None,
                                },
                                FileSpec {
                                    in_dir: false,
                                    stem: "f2".into(),
                                    ext: "dat".into(),
                                    head: text(&["foo direct", "baz"]),
                                    pad: 0,
                                    tail: vec![],
                                    final_newline: false,
                                    truncate: None,
                                },
                            ];
                            if k == 0 && !from_stdin {
                                // the same fault in a decompressor: f0.lz4 through a generated `lz4`
                                let mut zfiles = files.clone();
                                zfiles[0].ext = "lz4".into();
                                zfiles[1].ext = "zst".into();
                                out.push(Case {
                                    pattern: "foo".into(),
                                    files: zfiles,
                                    pre: None,
                                    zip: true,
                                    zip_last: false,
                                    fake_tools: Some(PreSpec {
                                        cmd: PreCmd::Script,
                                        transform: Transform::Cat,
                                        from_stdin: false,
                                        default: Fault::benign(),
                                        faults: vec![("f0.lz4".into(), Fault { stderr_bytes: bytes, when, status, point })],
                                        globs: vec![],
                                    }),
                                    flags: Flags {
                                        out: OutMode::Standard,
                                        max1,
                                        line_number: false,
                                        text: false,
                                        binary: false,
                                        ignore_case: false,
                                        explicit: false,
                                        threads: if max1 { Threads::J4 } else { Threads::J1 },
                                    },
                                });
                            }
                            out.push(Case {
                                pattern: "foo".into(),
                                files,
                                pre: Some(PreSpec {
                                    cmd: PreCmd::Script,
                                    transform: Transform::Cat,
                                    from_stdin,
                                    default: Fault::benign(),
                                    faults: vec![("f0.txt".into(), Fault { stderr_bytes: bytes, when, status, point })],
                                    globs: vec![GlobSpec { negated: false, by_name: false, what: "txt".into() }],
                                }),
                                zip: false,
                                zip_last: false,
                                fake_tools: None,
                                flags: Flags {
                                    out: OutMode::Standard,
                                    max1,
                                    line_number: false,
                                    text: false,
                                    binary: false,
                                    ignore_case: false,
                                    explicit: false,
                                    threads: if from_stdin { Threads::J4 } else { Threads::J1 },
                                },
                            });
                        }
                    }
                }
            }
        }
    }
    out
}

// ---------------------------------------------------------------------------
// the preprocessor script
// ---------------------------------------------------------------------------

/// The body of one `case` arm. A status of 0 is not forced with `exit 0`:
/// the script then ends with the status of its last command, i.e. 141 when
/// its output pipeline was killed by SIGPIPE because rg stopped reading (an
/// `sh` wrapper "terminated because ripgrep stopped reading early"); the
/// plainest arm `exec`s cat so that the command itself dies from the signal.
fn fault_body(f: &Fault, from_stdin: bool, transform: Transform) -> String {
    let b = f.stderr_bytes;
    let mut s = String::new();
    let err = |n: u32| if n > 0 { format!("    emit_err {n}\n") } else { String::new() };
    let exit = |st: u8| {
        if st == STATUS_KILL_PIPE {
            "    kill -PIPE $$\n    exit 99\n".to_string()
        } else if st != 0 {
            format!("    exit {st}\n")
        } else {
            String::new()
        }
    };
    if f.point == ExitPoint::BeforeOutput {
        s.push_str(&err(b));
        if f.status == STATUS_KILL_PIPE {
            s.push_str("    kill -PIPE $$\n    exit 99\n");
        } else {
            s.push_str(&format!("    exit {}\n", f.status));
        }
        return s;
    }
    if *f == Fault::benign() && !from_stdin && transform == Transform::Cat {
        return "    exec cat -- \"$f\"\n".to_string();
    }
    if f.status == 0 && f.point == ExitPoint::AfterAll && f.when == ErrWhen::Before && !from_stdin && transform == Transform::Cat {
        s.push_str(&err(b));
        s.push_str("    exec cat -- \"$f\"\n");
        return s;
    }
    let half = f.point == ExitPoint::AfterHalf;
    // the whole stdout part in one go
    let whole = if half { "    src | xform | head -c $((n / 2))\n".to_string() } else { "    src | xform\n".to_string() };
    match f.when {
        ErrWhen::Before => {
            s.push_str(&err(b));
            s.push_str(&whole);
        }
        ErrWhen::After => {
            s.push_str(&whole);
            s.push_str(&err(b));
        }
        ErrWhen::Interleaved if from_stdin => {
            // standard input can be read only once: stderr around the output
            s.push_str(&err(b / 2));
            s.push_str(&whole);
            s.push_str(&err(b - b / 2));
        }
        ErrWhen::Interleaved => {
            // stderr in the middle of the output: the output is produced in two slices
            let (k1, k2) = if half { ("$((n / 4))", "$((n / 2 - n / 4))") } else { ("$((n / 2))", "") };
            s.push_str(&format!("    src | xform | head -c {k1}\n"));
            s.push_str(&err(b));
            if half {
                s.push_str(&format!("    src | xform | tail -c +$((n / 4 + 1)) | head -c {k2}\n"));
            } else {
                s.push_str("    src | xform | tail -c +$((n / 2 + 1))\n");
            }
        }
    }
    s.push_str(&exit(f.status));
    s
}

pub fn script_text(p: &PreSpec, path_is_last_arg: bool) -> String {
    let mut s = String::from("#!/bin/sh\n# generated command for property C18\n");
    // a preprocessor gets the path as its only argument, a decompressor as its last one
    s.push_str(if path_is_last_arg { "for a in \"$@\"; do f=\"$a\"; done\n" } else { "f=\"$1\"\n" });
    s.push_str("emit_err() { head -c \"$1\" /dev/zero | tr '\\000' 'E' >&2; }\n");
    if p.from_stdin {
        s.push_str("src() { cat; }\n");
    } else {
        s.push_str("src() { cat -- \"$f\"; }\n");
    }
    s.push_str(match p.transform {
        Transform::Cat => "xform() { cat; }\n",
        Transform::Upper => "xform() { tr a-z A-Z; }\n",
        Transform::Prepend => "xform() { printf '%s\\n' 'PRE needle foo'; cat; }\n",
        Transform::DropFirst => "xform() { tail -n +2; }\n",
    });
    debug_assert_eq!(PREPEND_LINE, "PRE needle foo");
    s.push_str("n=$(wc -c < \"$f\")\n");
    s.push_str("case \"$f\" in\n");
    for (name, fault) in &p.faults {
        s.push_str(&format!("  *{name})\n"));
        s.push_str(&fault_body(fault, p.from_stdin, p.transform));
        s.push_str("    ;;\n");
    }
    s.push_str("  *)\n");
    s.push_str(&fault_body(&p.default, p.from_stdin, p.transform));
    s.push_str("    ;;\nesac\n");
    s
}

// ---------------------------------------------------------------------------
// running things ourselves
// ---------------------------------------------------------------------------

fn tool_path(name: &str, path_env: &str) -> Option<PathBuf> {
    path_env.split(':').map(|d| Path::new(d).join(name)).find(|p| p.is_file())
}

fn tool_available(name: &str) -> bool {
    tool_path(name, RPATH).is_some()
}

fn own_command_in(prog: &std::ffi::OsStr, cwd: &Path, path_env: &str) -> Command {
    let mut c = Command::new(prog);
    c.current_dir(cwd).env_clear().env("PATH", path_env).env("LC_ALL", "C").env("HOME", cwd).env("TERM", "dumb");
    c
}

fn own_command(prog: &std::ffi::OsStr, cwd: &Path) -> Command {
    own_command_in(prog, cwd, RPATH)
}

/// What a command did when all of its output was consumed.
#[derive(Debug, Clone)]
struct CmdObs {
    stdout: Vec<u8>,
    stderr_len: usize,
    ok: bool,
    status: Option<i32>,
}

fn run_own(mut c: Command) -> Result<CmdObs, String> {
    let o = c.stdout(Stdio::piped()).stderr(Stdio::piped()).output().map_err(|e| format!("{e}"))?;
    Ok(CmdObs { stderr_len: o.stderr.len(), ok: o.status.success(), status: o.status.code(), stdout: o.stdout })
}

/// Write a file through a helper process. An executable written by this
/// (multi-threaded, constantly forking) process itself can be "text file
/// busy" for the exec in rg: another thread's freshly forked child still
/// holds our write descriptor until it execs. With a helper, no descriptor
/// open for writing ever exists in this process.
fn write_via_helper(path: &Path, data: &[u8], mode: &str) -> Result<(), String> {
    let mut c = own_command("/bin/sh".as_ref(), Path::new("/"));
    c.arg("-c").arg("cat > \"$0\" && chmod \"$1\" \"$0\"").arg(path).arg(mode);
    let mut child = c.stdin(Stdio::piped()).stdout(Stdio::null()).stderr(Stdio::piped()).spawn().map_err(|e| e.to_string())?;
    child.stdin.take().unwrap().write_all(data).map_err(|e| e.to_string())?;
    let o = child.wait_with_output().map_err(|e| e.to_string())?;
    if o.status.success() {
        Ok(())
    } else {
        Err(format!("helper failed: {}", String::from_utf8_lossy(&o.stderr)))
    }
}

fn compress(tmp: &Path, ext: &str, plain: &[u8]) -> Result<Vec<u8>, String> {
    let (prog, args): (&str, &[&str]) = match ext {
        "gz" => ("gzip", &["-n", "-1", "-c"]),
        "bz2" => ("bzip2", &["-1", "-c"]),
        "xz" => ("xz", &["-0", "-c"]),
        "lzma" => ("xz", &["--format=lzma", "-0", "-c"]),
        _ => return Ok(plain.to_vec()),
    };
    let p = tmp.join("plain.tmp");
    std::fs::write(&p, plain).map_err(|e| e.to_string())?;
    let mut c = own_command(prog.as_ref(), tmp);
    c.args(args).arg(&p).stdin(Stdio::null());
    let o = run_own(c)?;
    if !o.ok {
        return Err(format!("{prog} failed while compressing"));
    }
    Ok(o.stdout)
}

/// The documented association of `-z` (crates/cli/src/decompress.rs,
/// `default_decompression_commands`) for the extensions generated here.
fn decompress_cmd(ext: &str) -> Option<&'static [&'static str]> {
    Some(match ext {
        "gz" => &["gzip", "-d", "-c"],
        "bz2" => &["bzip2", "-d", "-c"],
        "xz" => &["xz", "-d", "-c"],
        "lzma" => &["xz", "--format=lzma", "-d", "-c"],
        "lz4" => &["lz4", "-d", "-c"],
        "br" => &["brotli", "-d", "-c"],
        "zst" => &["zstd", "-q", "-d", "-c"],
        _ => return None,
    })
}

// ---------------------------------------------------------------------------
// oracle
// ---------------------------------------------------------------------------

#[derive(Clone, Copy, Debug, PartialEq, Eq)]
enum Route {
    /// searched as is
    Direct,
    /// recognised as compressed but the tool is not installed: searched as is
    Fallback,
    Pre,
    Decomp,
}

/// Error expectation for one file.
#[derive(Clone, Copy, Debug, PartialEq, Eq)]
enum Cat {
    /// no error may name this file
    NoError,
    /// an error naming this file is required (and exit status 2)
    Error,
    /// the property gives no rule; either is accepted
    Unasserted,
}

struct FileRun {
    rel: String,
    route: Route,
    /// None: the command could not be started
    obs: Option<CmdObs>,
    /// the bytes rg is expected to search (empty when the command cannot start)
    searched: Vec<u8>,
    /// through a command, binary detection on, NUL in the output: what is
    /// printed before the cut-off depends on how the pipe delivers the data
    lenient: bool,
    may_match: bool,
    early_possible: bool,
    surely_early: bool,
    cat: Cat,
}

fn selected(p: &PreSpec, f: &FileSpec) -> bool {
    // documented: only files matching the set of globs are handed to the
    // command, `!` excludes, gitignore rules (the last matching glob decides;
    // with only exclusions everything else stays selected)
    if p.globs.is_empty() {
        return true;
    }
    let mut decided: Option<bool> = None;
    for g in &p.globs {
        if g.matches(f) {
            decided = Some(!g.negated);
        }
    }
    match decided {
        Some(d) => d,
        None => p.globs.iter().all(|g| g.negated),
    }
}

fn common_flags(case: &Case) -> Vec<String> {
    let fl = &case.flags;
    let mut a: Vec<String> = vec!["--no-mmap".into(), "-H".into()];
    match fl.threads {
        Threads::J1 => a.push("-j1".into()),
        Threads::SortPath => {
            a.push("--sort".into());
            a.push("path".into());
        }
        Threads::J4 => a.push("-j4".into()),
        Threads::Default => {}
    }
    match fl.out {
        OutMode::Standard => {}
        OutMode::Count => a.push("-c".into()),
        OutMode::FilesWithMatches => a.push("-l".into()),
        OutMode::Quiet => a.push("-q".into()),
    }
    if fl.max1 {
        a.push("-m1".into());
    }
    a.push(if fl.line_number { "-n".into() } else { "-N".into() });
    if fl.text {
        a.push("-a".into());
    }
    // -a and --binary override each other (the later one wins); a case
    // that asks for both means -a
    if fl.binary && !fl.text {
        a.push("--binary".into());
    }
    if fl.ignore_case {
        a.push("-i".into());
    }
    a
}

/// Split standard output into per-file blocks of lines. Every line rg prints
/// here starts with the path (`-H`), followed by `:` unless it is the whole
/// line (`-l`).
fn group<'a>(stdout: &'a [u8], rels: &[String]) -> Result<Vec<Vec<&'a [u8]>>, String> {
    let mut blocks: Vec<Vec<&[u8]>> = vec![vec![]; rels.len()];
    let mut rest = stdout;
    while !rest.is_empty() {
        let (line, next) = match rest.iter().position(|b| *b == b'\n') {
            Some(i) => (&rest[..i], &rest[i + 1..]),
            None => (rest, &rest[rest.len()..]),
        };
        rest = next;
        let owner = rels.iter().position(|r| {
            let r = r.as_bytes();
            line.starts_with(r) && (line.len() == r.len() || line[r.len()] == b':')
        });
        match owner {
            Some(i) => blocks[i].push(line),
            None => return Err(format!("output line not attributable to any file of the tree: {}", bs::enc(&line[..line.len().min(200)]))),
        }
    }
    Ok(blocks)
}

fn is_binary_notice(line: &[u8], rel: &str) -> bool {
    let a = format!("{rel}: WARNING: stopped searching binary file after match (found \"\\0\" byte around offset ");
    let b = format!("{rel}: binary file matches (found \"\\0\" byte around offset ");
    (line.starts_with(a.as_bytes()) || line.starts_with(b.as_bytes())) && line.ends_with(b")")
}

fn is_line_prefix(a: &[&[u8]], b: &[&[u8]]) -> bool {
    a.len() <= b.len() && a.iter().zip(b.iter()).all(|(x, y)| x == y)
}

fn show_block(b: &[&[u8]]) -> String {
    let mut s = String::new();
    for (i, l) in b.iter().enumerate() {
        if i >= 12 {
            s.push_str(&format!("      ... ({} lines)\n", b.len()));
            break;
        }
        let l = if l.len() > 240 { &l[..240] } else { l };
        s.push_str(&format!("      {}\n", bs::enc(l)));
    }
    if b.is_empty() {
        s.push_str("      (nothing)\n");
    }
    s
}

fn tail_str(b: &[u8], n: usize) -> String {
    if b.len() <= n {
        bs::enc(b)
    } else {
        format!("{} ...[{} bytes]... {}", bs::enc(&b[..n / 2]), b.len() - n, bs::enc(&b[b.len() - n / 2..]))
    }
}

/// What to do with a search that did not finish within the watchdog twice.
#[derive(Clone, Copy, PartialEq, Eq)]
pub enum HangPolicy {
    /// report it as a violation right here (enumeration, replay)
    Fail,
    /// hand it to `HANG_FOUND` (reported without shrinking: every failing
    /// evaluation costs two watchdog periods) and reject the case
    SideChannel,
}

static HANG_FOUND: Mutex<Option<(String, String)>> = Mutex::new(None);
static HANG_SEEN: AtomicBool = AtomicBool::new(false);
static WATCHDOG_ONCE: AtomicU64 = AtomicU64::new(0);
static WATCHDOG_TWICE_NO_FLOOD: AtomicU64 = AtomicU64::new(0);

/// Shrinking a process-heavy case costs 50-100 ms per candidate and proptest
/// tries up to 4000 of them. Two things keep a failing run affordable:
/// verdicts are memoised by case (many shrunk tapes decode to the same case),
/// and once the first failure is older than the budget every case that has
/// not itself failed before is waved through, which ends the shrink at the
/// smallest failing case found so far (the runner then re-confirms exactly
/// that case, which is evaluated for real). Neither applies to replays.
static SHRINK_BUDGET_S: AtomicU64 = AtomicU64::new(20);
static FIRST_FAIL: Mutex<Option<std::time::Instant>> = Mutex::new(None);
static FAILED: Mutex<BTreeSet<u64>> = Mutex::new(BTreeSet::new());
static MEMO: Mutex<std::collections::BTreeMap<u64, Verdict2>> = Mutex::new(std::collections::BTreeMap::new());

#[derive(Clone)]
enum Verdict2 {
    Pass(Info),
    Reject(&'static str),
    Fail(Fail),
}

fn case_hash(case: &Case) -> u64 {
    use std::hash::{Hash, Hasher};
    let mut h = std::collections::hash_map::DefaultHasher::new();
    serde_json::to_string(case).unwrap_or_default().hash(&mut h);
    h.finish()
}

pub fn check(case: &Case) -> Verdict {
    check_tape(None, case)
}

/// `check` for the tape-driven subcheck; `pc` lets it see whether a failure
/// is a listed known finding (those are tolerated by the runner, never
/// shrunk, and must not start the shrink budget).
fn check_tape(pc: Option<&PropCtx>, case: &Case) -> Verdict {
    let h = case_hash(case);
    if let Some(v) = MEMO.lock().unwrap().get(&h).cloned() {
        return match v {
            Verdict2::Pass(i) => Verdict::Pass(i),
            Verdict2::Reject(w) => Verdict::Reject(w),
            Verdict2::Fail(f) => Verdict::Fail(f),
        };
    }
    let over_budget = FIRST_FAIL.lock().unwrap().map_or(false, |t0| t0.elapsed().as_secs() >= SHRINK_BUDGET_S.load(Ordering::Relaxed));
    if over_budget && !FAILED.lock().unwrap().contains(&h) {
        return Verdict::Pass(Info::new(false));
    }
    let v = check_with(case, HangPolicy::SideChannel);
    let v2 = match &v {
        Verdict::Pass(i) => Verdict2::Pass(i.clone()),
        Verdict::Reject(w) => Verdict2::Reject(w),
        Verdict::Fail(f) => {
            let tolerated = pc.map_or(false, |pc| !pc.strict && pc.match_known(f).is_some());
            if !tolerated {
                FAILED.lock().unwrap().insert(h);
                let mut ff = FIRST_FAIL.lock().unwrap();
                if ff.is_none() {
                    *ff = Some(std::time::Instant::now());
                }
            }
            Verdict2::Fail(f.clone())
        }
    };
    MEMO.lock().unwrap().insert(h, v2);
    v
}

pub fn check_strict(case: &Case) -> Verdict {
    check_with(case, HangPolicy::Fail)
}

fn check_with(case: &Case, hang: HangPolicy) -> Verdict {
    if case.files.is_empty() {
        return Verdict::Reject("no files");
    }
    let re = match regex::bytes::RegexBuilder::new(&case.pattern).multi_line(true).case_insensitive(case.flags.ignore_case).build() {
        Ok(r) => r,
        Err(_) => return Verdict::Reject("pattern rejected by the regex crate"),
    };
    let fl = &case.flags;
    let tmp = TempDir::new("c18");
    let root = tmp.path.clone();
    let tdir = root.join("t");
    let odir = root.join("o");
    let bindir = root.join("bin");
    for d in [&tdir, &odir, &bindir, &tdir.join("d"), &odir.join("d")] {
        if std::fs::create_dir_all(d).is_err() {
            return Verdict::Reject("cannot create scratch directories");
        }
    }

    // ---- the command
    let pre = case.effective_pre();
    let zip = case.effective_zip();
    let mut script = String::new();
    let pre_path: Option<PathBuf> = match pre {
        None => None,
        Some(p) => {
            script = script_text(p, false);
            match p.cmd {
                PreCmd::Script => {
                    let path = bindir.join("pre.sh");
                    if let Err(e) = write_via_helper(&path, script.as_bytes(), "755") {
                        let _ = e;
                        return Verdict::Reject("cannot write the preprocessor script");
                    }
                    Some(path)
                }
                PreCmd::NotExecutable => {
                    let path = bindir.join("pre-noexec.sh");
                    if write_via_helper(&path, script.as_bytes(), "644").is_err() {
                        return Verdict::Reject("cannot write the preprocessor script");
                    }
                    Some(path)
                }
                PreCmd::Missing => Some(bindir.join("no-such-preprocessor.sh")),
                PreCmd::MissingInPath => Some(PathBuf::from("c18-no-such-preprocessor")),
            }
        }
    };
    let fake = if zip { case.fake_tools.as_ref() } else { None };
    let path_env = match fake {
        Some(_) => format!("{}:{RPATH}", bindir.display()),
        None => RPATH.to_string(),
    };
    if let Some(p) = fake {
        script = script_text(p, true);
        let first = bindir.join("lz4");
        if write_via_helper(&first, script.as_bytes(), "755").is_err() {
            return Verdict::Reject("cannot write the fake decompressor");
        }
        for other in ["zstd", "brotli"] {
            if std::os::unix::fs::symlink(&first, bindir.join(other)).is_err() {
                return Verdict::Reject("cannot write the fake decompressor");
            }
        }
    }
    // the ignored --pre of "--pre X -z" still has to be a syntactically fine argument
    let ignored_pre_path = bindir.join("ignored-pre.sh");

    // ---- files, routes, what the commands do
    let stop_flag = fl.max1 || matches!(fl.out, OutMode::FilesWithMatches | OutMode::Quiet);
    let quit_mode = !fl.explicit && !fl.binary && !fl.text;
    let mut runs: Vec<FileRun> = vec![];
    for f in &case.files {
        let rel = f.rel();
        let plain = f.plain();
        let mut stored = match compress(&root, &f.ext, &plain) {
            Ok(b) => b,
            Err(_) => return Verdict::Reject("compressor not usable"),
        };
        if let Some(pm) = f.truncate {
            if matches!(f.ext.as_str(), "gz" | "bz2" | "xz" | "lzma") {
                let keep = stored.len() * pm as usize / 1000;
                stored.truncate(keep);
            }
        }
        if std::fs::write(tdir.join(&rel), &stored).is_err() {
            return Verdict::Reject("cannot write a tree file");
        }
        let (route, obs): (Route, Option<CmdObs>) = if let Some(p) = pre {
            if selected(p, f) {
                match p.cmd {
                    PreCmd::Script => {
                        let mut c = own_command(pre_path.as_ref().unwrap().as_os_str(), &tdir);
                        c.arg(&rel);
                        match std::fs::File::open(tdir.join(&rel)) {
                            Ok(fh) => {
                                c.stdin(Stdio::from(fh));
                            }
                            Err(_) => return Verdict::Reject("cannot open a tree file"),
                        }
                        match run_own(c) {
                            Ok(o) => (Route::Pre, Some(o)),
                            Err(_) => return Verdict::Reject("the harness could not run the preprocessor itself"),
                        }
                    }
                    _ => (Route::Pre, None),
                }
            } else {
                (Route::Direct, None)
            }
        } else if zip {
            match decompress_cmd(&f.ext) {
                Some(argv) if tool_path(argv[0], &path_env).is_some() => {
                    let mut c = own_command_in(tool_path(argv[0], &path_env).unwrap().as_os_str(), &tdir, &path_env);
                    c.args(&argv[1..]).arg(&rel).stdin(Stdio::null());
                    match run_own(c) {
                        Ok(o) => (Route::Decomp, Some(o)),
                        Err(_) => return Verdict::Reject("the harness could not run the decompressor itself"),
                    }
                }
                Some(_) => (Route::Fallback, None),
                None => (Route::Direct, None),
            }
        } else {
            (Route::Direct, None)
        };
        let via_cmd = matches!(route, Route::Pre | Route::Decomp);
        let searched: Vec<u8> = match (&route, &obs) {
            (Route::Direct | Route::Fallback, _) => stored.clone(),
            (_, Some(o)) => o.stdout.clone(),
            (_, None) => vec![],
        };
        let has_nul = searched.contains(&0);
        let first_nul = searched.iter().position(|b| *b == 0);
        let binary_on = !fl.text && has_nul;
        let first_match_end = re.find(&searched).map(|m| m.end());
        let may_match = first_match_end.is_some();
        let lenient = via_cmd && binary_on;
        let early_possible = via_cmd && (binary_on || (stop_flag && may_match));
        let surely_early = via_cmd
            && searched.len() >= SURELY_EARLY_MIN
            && ((stop_flag && !binary_on && first_match_end.map_or(false, |e| e <= SURELY_EARLY_WINDOW))
                || (binary_on && quit_mode && first_nul.map_or(false, |p| p <= SURELY_EARLY_WINDOW)));
        let mut fr = FileRun { rel, route, obs, searched, lenient, may_match, early_possible, surely_early, cat: Cat::NoError };
        fr.cat = categorize(&fr);
        runs.push(fr);
    }
    let rels: Vec<String> = runs.iter().map(|r| r.rel.clone()).collect();
    let cannot_start = |r: &FileRun| matches!(r.route, Route::Pre) && r.obs.is_none();

    // ---- mirror tree and oracle runs
    let mut mirrored = 0;
    for r in &runs {
        if cannot_start(r) {
            continue;
        }
        if std::fs::write(odir.join(&r.rel), &r.searched).is_err() {
            return Verdict::Reject("cannot write a mirror file");
        }
        mirrored += 1;
    }
    let base = common_flags(case);
    let oracle_run = |extra: &[&str]| -> Option<Out> {
        if mirrored == 0 {
            return None;
        }
        let mut rg = Rg::new(&odir).args(base.iter().cloned()).args(extra.iter().map(|s| s.to_string()));
        rg = rg.arg("-e").arg(case.pattern.clone());
        if fl.explicit {
            for r in &runs {
                if !cannot_start(r) {
                    rg = rg.arg(r.rel.clone());
                }
            }
        }
        Some(rg.run())
    };
    let oracle = oracle_run(&[]);
    if let Some(o) = &oracle {
        if o.timed_out {
            WATCHDOG_TWICE_NO_FLOOD.fetch_add(1, Ordering::Relaxed);
            return Verdict::Reject("watchdog: the direct (oracle) search did not finish");
        }
        if !matches!(o.status, Some(0) | Some(1)) || !o.stderr.is_empty() {
            return Verdict::Reject("the direct (oracle) search reported an error");
        }
    }
    let empty: Vec<u8> = vec![];
    let oracle_stdout: &[u8] = oracle.as_ref().map(|o| &o.stdout[..]).unwrap_or(&empty);
    let exp_blocks = match group(oracle_stdout, &rels) {
        Ok(b) => b,
        Err(_) => return Verdict::Reject("the direct (oracle) search printed a line that does not start with a path"),
    };
    let need_text = fl.out == OutMode::Standard && runs.iter().any(|r| r.lenient);
    let text_oracle = if need_text { oracle_run(&["-a"]) } else { None };
    let text_stdout: &[u8] = text_oracle.as_ref().map(|o| &o.stdout[..]).unwrap_or(&empty);
    let text_blocks = match group(text_stdout, &rels) {
        Ok(b) => b,
        Err(_) => return Verdict::Reject("the direct (oracle) search printed a line that does not start with a path"),
    };

    // ---- the real run
    let build_real = || {
        let mut rg = Rg::new(&tdir).timeout(RG_WATCHDOG);
        if fake.is_some() {
            rg = rg.env("PATH", &path_env);
        }
        let pre_args = |mut rg: Rg, path: &Path, globs: &[GlobSpec]| {
            rg = rg.arg("--pre").arg(path.as_os_str().to_os_string());
            for g in globs {
                rg = rg.arg("--pre-glob").arg(g.text());
            }
            rg
        };
        match (&case.pre, case.zip) {
            (Some(p), false) => rg = pre_args(rg, pre_path.as_ref().unwrap(), &p.globs),
            (None, _) => rg = rg.arg("-z"),
            (Some(p), true) if case.zip_last => {
                rg = pre_args(rg, &ignored_pre_path, &p.globs);
                rg = rg.arg("-z");
            }
            (Some(p), true) => {
                rg = rg.arg("-z");
                rg = pre_args(rg, pre_path.as_ref().unwrap(), &p.globs);
            }
        }
        rg = rg.args(base.iter().cloned()).arg("-e").arg(case.pattern.clone());
        if fl.explicit {
            for r in &runs {
                rg = rg.arg(r.rel.clone());
            }
        }
        rg
    };
    let cmdline = build_real().cmdline();
    let flood = runs.iter().any(|r| r.obs.as_ref().map_or(false, |o| o.stderr_len >= 60_000));
    if flood && hang == HangPolicy::SideChannel && HANG_SEEN.load(Ordering::Relaxed) {
        return Verdict::Reject("skipped: a hang with large stderr was already confirmed in this run");
    }
    let mut real = build_real().run();
    let mut first_timed_out = false;
    if real.timed_out {
        first_timed_out = true;
        real = build_real().run();
    }

    // ---- rendering of a failure
    let table = || {
        let mut s = String::new();
        for r in &runs {
            s.push_str(&format!(
                "    {:<12} route={:?} {} searched={}B nul={} may_match={} early_possible={} surely_early={} => {:?}\n",
                r.rel,
                r.route,
                match &r.obs {
                    Some(o) => format!("cmd_status={:?} cmd_stderr={}B", o.status, o.stderr_len),
                    None if cannot_start(r) => "cmd cannot start".to_string(),
                    None => "no command".to_string(),
                },
                r.searched.len(),
                r.searched.contains(&0),
                r.may_match,
                r.early_possible,
                r.surely_early,
                r.cat
            ));
        }
        s
    };
    let describe = |what: String, real: &Out| -> String {
        format!(
            "{what}\n  command (cwd = tree, PATH={path_env}): {cmdline}\n  case: {}\n  generated command ({}):\n{}\n  files (what the harness observed when it ran the same command itself and read all of its output):\n{}  rg exit status: {:?}{}\n  rg stdout: {}\n  rg stderr: {}\n  expected stdout (rg {} on a mirror tree holding the bytes each command wrote): {}",
            serde_json::to_string(case).unwrap_or_default(),
            if fake.is_some() { "installed as lz4, zstd and brotli in the first PATH directory" } else { "the --pre script" },
            if script.is_empty() { "    (none)".to_string() } else { script.lines().map(|l| format!("    | {l}")).collect::<Vec<_>>().join("\n") },
            table(),
            real.status,
            if real.timed_out { " (killed by the watchdog)" } else { "" },
            tail_str(&real.stdout, 1500),
            tail_str(&real.stderr, 1500),
            base.join(" "),
            tail_str(oracle_stdout, 1500),
        )
    };

    if real.timed_out {
        // twice
        if flood {
            let detail = describe(
                format!(
                    "the search did not finish within {}s in two consecutive runs while a command writes >= 60000 bytes to stderr (large stderr output must never block the search); the same tree without the command is searched in {:?}",
                    RG_WATCHDOG.as_secs(),
                    oracle.as_ref().map(|o| o.wall)
                ),
                &real,
            );
            match hang {
                HangPolicy::Fail => return Verdict::Fail(Fail::new(detail).fact("hang").fact("large-stderr")),
                HangPolicy::SideChannel => {
                    HANG_SEEN.store(true, Ordering::Relaxed);
                    let mut g = HANG_FOUND.lock().unwrap();
                    if g.is_none() {
                        *g = Some((serde_json::to_string(case).unwrap_or_default(), detail));
                    }
                    return Verdict::Reject("hang with large stderr confirmed by a second run (reported as a violation, not shrunk)");
                }
            }
        }
        WATCHDOG_TWICE_NO_FLOOD.fetch_add(1, Ordering::Relaxed);
        return Verdict::Reject("watchdog: search did not finish (no large stderr involved; inconclusive)");
    }
    if first_timed_out {
        WATCHDOG_ONCE.fetch_add(1, Ordering::Relaxed);
    }
    if String::from_utf8_lossy(&real.stderr).contains("Text file busy") {
        return Verdict::Reject("ETXTBSY race while executing the freshly written script");
    }

    // ---- errors named on stderr
    let mut named: BTreeSet<usize> = BTreeSet::new();
    let mut other_diag: Vec<String> = vec![];
    for line in real.stderr.split(|b| *b == b'\n') {
        let Some(rest) = line.strip_prefix(b"rg: ") else { continue };
        let owner = rels.iter().position(|r| rest.starts_with(r.as_bytes()) && rest[r.len()..].starts_with(b": "));
        match owner {
            Some(i) => {
                named.insert(i);
            }
            None => other_diag.push(bs::enc(&rest[..rest.len().min(160)])),
        }
    }
    let quiet = fl.out == OutMode::Quiet;
    // matches as the direct search sees them
    let matches_oracle = |i: usize| if quiet { runs[i].may_match } else { !exp_blocks[i].is_empty() };
    let unsure = |r: &FileRun| r.lenient || (quiet && !fl.text && r.searched.contains(&0));
    let sure_match = (0..runs.len()).any(|i| !cannot_start(&runs[i]) && !unsure(&runs[i]) && !named.contains(&i) && matches_oracle(i));
    let possible_match = (0..runs.len()).any(|i| !cannot_start(&runs[i]) && (unsure(&runs[i]) || matches_oracle(i)));
    // with -q rg stops everything at the first match: later files are never run
    let may_quit_early = quiet && possible_match;

    for (i, r) in runs.iter().enumerate() {
        let is_named = named.contains(&i);
        match r.cat {
            Cat::Error if !is_named && !may_quit_early => {
                let why = if cannot_start(r) {
                    "its command cannot be started"
                } else {
                    "its command exits unsuccessfully and rg has to read all of its output"
                };
                return Verdict::Fail(
                    Fail::new(describe(format!("no error names {} although {why}", r.rel), &real))
                        .fact("missing-error")
                        .fact(if cannot_start(r) { "cannot-start" } else { "failed-after-output-consumed" }),
                );
            }
            Cat::NoError if is_named => {
                let why = match r.route {
                    Route::Direct => "it is not selected for the command and is searched directly",
                    Route::Fallback => "its decompression tool is not installed, so it must be searched directly without an error",
                    _ if r.surely_early && r.obs.as_ref().map_or(false, |o| o.ok) => {
                        "its command succeeds when left alone and rg certainly stops reading before the end of its output (a command terminated because rg stopped reading early is not an error)"
                    }
                    _ if r.obs.as_ref().map_or(false, |o| o.ok) => "its command succeeds",
                    _ => "rg stops reading before the end of its command's output and the command writes nothing to stderr",
                };
                return Verdict::Fail(
                    Fail::new(describe(format!("an error names {} although {why}", r.rel), &real))
                        .fact("unexpected-error")
                        .fact(format!("route:{:?}", r.route))
                        .fact(if r.surely_early { "rg-certainly-stopped-reading-early" } else { "rg-read-to-the-end-or-unknown" })
                        .fact(match &r.obs {
                            Some(o) if o.ok && o.stderr_len > 0 => "healthy-command-wrote-to-stderr",
                            Some(o) if o.ok => "healthy-silent-command",
                            Some(o) if o.stderr_len > 0 => "failing-command-wrote-to-stderr",
                            Some(_) => "failing-silent-command",
                            None => "no-command",
                        }),
                );
            }
            _ => {}
        }
    }

    // ---- exit status
    let status_ok = match real.status {
        None => false,
        Some(s) => {
            if !named.is_empty() {
                s == 2 || (s == 0 && may_quit_early)
            } else if !other_diag.is_empty() {
                s == 2
            } else if sure_match {
                s == 0
            } else if !possible_match {
                s == 1
            } else {
                s == 0 || s == 1
            }
        }
    };
    if !status_ok {
        let want = if !named.is_empty() {
            "2 (an error was reported)".to_string()
        } else if !other_diag.is_empty() {
            format!("2 (diagnostics: {other_diag:?})")
        } else if sure_match {
            "0 (a file matches and no error was reported)".to_string()
        } else if !possible_match {
            "1 (nothing matches, no error was reported)".to_string()
        } else {
            "0 or 1".to_string()
        };
        return Verdict::Fail(Fail::new(describe(format!("exit status {:?}, expected {want}", real.status), &real)).fact("exit-status"));
    }
    if !other_diag.is_empty() {
        return Verdict::Fail(Fail::new(describe(format!("unexpected diagnostics that name no file of the tree: {other_diag:?}"), &real)).fact("unexpected-diagnostic"));
    }

    // ---- standard output, file by file
    let got_blocks = match group(&real.stdout, &rels) {
        Ok(b) => b,
        Err(e) => return Verdict::Fail(Fail::new(describe(e, &real)).fact("stdout").fact("unattributable-line")),
    };
    if quiet && !real.stdout.is_empty() {
        return Verdict::Fail(Fail::new(describe("-q printed something".to_string(), &real)).fact("stdout"));
    }
    for (i, r) in runs.iter().enumerate() {
        let got = &got_blocks[i];
        let exp = &exp_blocks[i];
        let is_named = named.contains(&i);
        let verdict: Result<(), String> = if cannot_start(r) {
            if got.is_empty() {
                Ok(())
            } else {
                Err("its command cannot be started, so nothing can be reported for it".into())
            }
        } else if may_quit_early {
            // -q prints nothing anyway
            Ok(())
        } else if r.lenient {
            match fl.out {
                OutMode::Standard => {
                    let body: &[&[u8]] = match got.last() {
                        Some(l) if is_binary_notice(l, &r.rel) => &got[..got.len() - 1],
                        _ => &got[..],
                    };
                    if is_line_prefix(body, &text_blocks[i]) {
                        Ok(())
                    } else {
                        Err(format!(
                            "its command's output contains NUL (binary detection is on): expected a prefix of the lines a text-mode search of that output reports, optionally followed by one binary-file notice\n    text-mode lines:\n{}",
                            show_block(&text_blocks[i])
                        ))
                    }
                }
                OutMode::Count => {
                    let ok = got.is_empty()
                        || (got.len() == 1 && {
                            let l = got[0];
                            let p = format!("{}:", r.rel);
                            l.starts_with(p.as_bytes()) && l.len() > p.len() && l[p.len()..].iter().all(|b| b.is_ascii_digit())
                        });
                    if ok {
                        Ok(())
                    } else {
                        Err("expected at most one `path:count` line".into())
                    }
                }
                OutMode::FilesWithMatches => {
                    if got.is_empty() || (got.len() == 1 && got[0] == r.rel.as_bytes()) {
                        Ok(())
                    } else {
                        Err("expected at most the path".into())
                    }
                }
                OutMode::Quiet => Ok(()),
            }
        } else if is_named {
            // the property fixes the error and the exit status, not how much of
            // the file's results is still printed: a prefix is accepted
            if is_line_prefix(got, exp) {
                Ok(())
            } else {
                Err("an error was reported for it: expected a prefix of the direct search's lines".into())
            }
        } else if got == exp {
            Ok(())
        } else {
            Err(match r.route {
                Route::Direct => "it is not selected for the command: expected exactly the direct search of the file itself".into(),
                Route::Fallback => "its decompression tool is not installed: expected exactly the direct search of the file itself".into(),
                _ => "expected exactly what a direct search of the bytes its command wrote reports, under the original path".into(),
            })
        };
        if let Err(why) = verdict {
            let direction = if got.len() < exp.len() { "missing-lines" } else if got.len() > exp.len() { "extra-lines" } else { "different-lines" };
            return Verdict::Fail(
                Fail::new(describe(
                    format!("stdout differs for {}: {why}\n    expected:\n{}    observed:\n{}", r.rel, show_block(exp), show_block(got)),
                    &real,
                ))
                .fact("stdout")
                .fact(direction)
                .fact(format!("route:{:?}", r.route)),
            );
        }
    }

    // ---- accounting
    let via_cmd = |r: &FileRun| matches!(r.route, Route::Pre | Route::Decomp);
    let cmd_failed = |r: &FileRun| cannot_start(r) || r.obs.as_ref().map_or(false, |o| !o.ok);
    let pre_match = (0..runs.len()).any(|i| via_cmd(&runs[i]) && !cannot_start(&runs[i]) && matches_oracle(i));
    let any_fail = runs.iter().any(cmd_failed);
    let mut info = Info::new(pre_match && any_fail);
    info.class_if(pre_match, "preprocessed_file_matches");
    info.class_if(any_fail, "some_command_fails");
    info.class_if(pre.is_some(), "mode_pre");
    info.class_if(zip, "mode_zip");
    info.class_if(case.pre.is_some() && case.zip && case.zip_last, "pre_overridden_by_later_z");
    info.class_if(case.pre.is_some() && case.zip && !case.zip_last, "z_overridden_by_later_pre");
    info.class_if(runs.iter().any(cannot_start), "cannot_start");
    info.class_if(fake.is_some(), "z_fake_tools_installed");
    info.class_if(fake.is_some() && runs.iter().any(|r| r.route == Route::Decomp && r.rel.ends_with(".lz4")), "z_fake_lz4");
    info.class_if(fake.is_some() && runs.iter().any(|r| r.route == Route::Decomp && r.rel.ends_with(".zst")), "z_fake_zstd");
    info.class_if(fake.is_some() && runs.iter().any(|r| r.route == Route::Decomp && r.rel.ends_with(".br")), "z_fake_brotli");
    if let Some(p) = pre {
        info.class_if(p.cmd == PreCmd::Missing, "cmd_missing_path");
        info.class_if(p.cmd == PreCmd::MissingInPath, "cmd_not_in_PATH");
        info.class_if(p.cmd == PreCmd::NotExecutable, "cmd_not_executable");
        info.class_if(!p.globs.is_empty(), "pre_glob_given");
        info.class_if(p.globs.iter().any(|g| g.negated), "pre_glob_negated");
        info.class_if(runs.iter().any(|r| r.route == Route::Direct) && runs.iter().any(|r| r.route == Route::Pre), "pre_glob_splits_tree");
        info.class_if(p.from_stdin, "script_reads_stdin");
        if p.cmd == PreCmd::Script && runs.iter().any(|r| r.route == Route::Pre) {
            info.class(match p.transform {
                Transform::Cat => "transform_cat",
                Transform::Upper => "transform_upper",
                Transform::Prepend => "transform_prepend",
                Transform::DropFirst => "transform_drop_first",
            });
        }
    }
    let fake_ext = |f: &FileSpec| matches!(f.ext.as_str(), "lz4" | "zst" | "br");
    if let Some(p) = pre.or(fake) {
        // the behaviours of the generated command that were actually exercised
        let active: Vec<&Fault> = case
            .files
            .iter()
            .zip(runs.iter())
            .filter(|(f, r)| r.obs.is_some() && ((pre.is_some() && r.route == Route::Pre) || (fake.is_some() && r.route == Route::Decomp && fake_ext(f))))
            .map(|(f, _)| p.faults.iter().find(|(n, _)| *n == f.name()).map(|(_, x)| x).unwrap_or(&p.default))
            .collect();
        info.class_if(fake.is_some() && active.iter().any(|f| f.status != 0), "z_fake_tool_fails");
        info.class_if(fake.is_some() && active.iter().any(|f| f.stderr_bytes >= 60_000), "z_fake_tool_floods_stderr");
        info.class_if(active.iter().any(|f| f.point == ExitPoint::BeforeOutput && f.status != 0), "fail_before_any_output");
        info.class_if(active.iter().any(|f| f.point == ExitPoint::AfterHalf && f.status != 0), "fail_after_half");
        info.class_if(active.iter().any(|f| f.point == ExitPoint::AfterAll && f.status != 0), "fail_after_all");
        info.class_if(active.iter().any(|f| f.point == ExitPoint::AfterHalf && f.status == 0), "half_output_status_0");
        info.class_if(active.iter().any(|f| f.status == 255), "status_255");
        info.class_if(active.iter().any(|f| f.stderr_bytes == 1000), "stderr_1KB");
        info.class_if(active.iter().any(|f| f.stderr_bytes == 70_000), "stderr_70KB");
        info.class_if(active.iter().any(|f| f.stderr_bytes == FLOOD), "stderr_2MB");
        info.class_if(active.iter().any(|f| f.stderr_bytes >= 60_000 && f.when == ErrWhen::Before), "flood_before_stdout");
        info.class_if(active.iter().any(|f| f.stderr_bytes >= 60_000 && f.when == ErrWhen::Interleaved), "flood_interleaved");
        info.class_if(active.iter().any(|f| f.stderr_bytes >= 60_000 && f.when == ErrWhen::After), "flood_after_stdout");
        info.class_if(active.iter().any(|f| f.stderr_bytes > 0 && f.status == 0), "noisy_but_successful");
    }
    let real_archive = |i: usize| runs[i].route == Route::Decomp && !fake_ext(&case.files[i]);
    info.class_if((0..runs.len()).any(|i| real_archive(i) && runs[i].obs.as_ref().map_or(false, |o| o.ok)), "valid_archive");
    info.class_if((0..runs.len()).any(|i| real_archive(i) && runs[i].obs.as_ref().map_or(false, |o| !o.ok)), "truncated_archive");
    info.class_if(
        (0..runs.len()).any(|i| real_archive(i) && runs[i].obs.as_ref().map_or(false, |o| !o.ok && !o.stdout.is_empty())),
        "truncated_archive_with_partial_output",
    );
    for (f, r) in case.files.iter().zip(runs.iter()) {
        if r.route == Route::Decomp {
            info.class(match f.ext.as_str() {
                "gz" => "z_gzip",
                "bz2" => "z_bzip2",
                "xz" => "z_xz",
                "lzma" => "z_lzma",
                _ => "z_other",
            });
        }
    }
    info.class_if(runs.iter().any(|r| r.route == Route::Fallback), "fallback_tool_not_installed");
    info.class_if(zip && runs.iter().any(|r| r.route == Route::Direct), "z_unrecognised_extension");
    info.class_if(runs.iter().any(|r| r.cat == Cat::Error), "error_required");
    info.class_if(runs.iter().any(|r| r.cat == Cat::Error) && !may_quit_early, "error_required_and_enforced");
    info.class_if(runs.iter().any(|r| r.cat == Cat::Error) && runs.iter().any(|r| r.cat == Cat::NoError && via_cmd(r)), "failing_and_healthy_commands_side_by_side");
    info.class_if(runs.iter().any(|r| r.cat == Cat::Unasserted), "unasserted_overlap");
    info.class_if((0..runs.len()).any(|i| runs[i].cat == Cat::Unasserted && named.contains(&i)), "unasserted_overlap:error_reported");
    info.class_if((0..runs.len()).any(|i| runs[i].cat == Cat::Unasserted && !named.contains(&i)), "unasserted_overlap:no_error");
    info.class_if(
        (0..runs.len()).any(|i| runs[i].cat == Cat::Unasserted && named.contains(&i) && runs[i].obs.as_ref().map_or(false, |o| o.ok)),
        "observed:successful_noisy_command_cut_short_is_reported_as_error",
    );
    info.class_if(runs.iter().any(|r| r.early_possible), "early_stop_possible");
    info.class_if(runs.iter().any(|r| r.surely_early), "early_stop_certain");
    info.class_if(runs.iter().any(|r| r.surely_early && cmd_failed(r) && r.cat == Cat::NoError), "early_stop_certain_failing_silent_cmd_no_error");
    info.class_if(runs.iter().any(|r| r.surely_early && !cmd_failed(r) && r.cat == Cat::NoError), "early_stop_certain_healthy_cmd_cut_short_no_error");
    info.class_if(
        runs.iter().any(|r| r.surely_early && r.cat == Cat::NoError && r.obs.as_ref().map_or(false, |o| o.ok && o.stderr_len > 0)),
        "early_stop_certain_healthy_noisy_cmd_cut_short_no_error",
    );
    info.class_if(runs.iter().any(|r| r.surely_early && r.route == Route::Decomp), "early_stop_certain_decompressor_cut_short");
    info.class_if(runs.iter().any(|r| r.early_possible && !cmd_failed(r) && r.cat == Cat::NoError), "early_stop_healthy_cmd_no_error");
    info.class_if(runs.iter().any(|r| r.lenient), "binary_detection_on_command_output");
    info.class_if(fl.max1, "stop_m1");
    info.class_if(fl.out == OutMode::FilesWithMatches, "stop_l");
    info.class_if(quiet, "stop_q");
    info.class_if(fl.out == OutMode::Count, "count_mode");
    info.class_if(fl.explicit, "explicit_paths");
    info.class_if(matches!(fl.threads, Threads::J4 | Threads::Default), "multi_threaded");
    info.class_if(runs.iter().any(|r| r.searched.len() >= SURELY_EARLY_MIN), "big_output");
    info.class_if(first_timed_out, "watchdog_first_run_only");
    info.class_if(real.status == Some(2), "exit_2");
    info.class_if(real.status == Some(0) && !named.is_empty(), "exit_0_with_errors_under_q");
    Verdict::Pass(info)
}

/// Decision table (property statement, `CommandReader::close` documentation):
///
/// * searched directly (not selected by --pre-glob, extension not recognised
///   by -z, or decompression tool not installed): no error.
/// * command cannot be started: error naming the file, exit 2.
/// * rg necessarily reads the command's output to its end (no -m/-l/-q stop
///   on a matching output, no NUL with binary detection on): unsuccessful
///   exit => error naming the file, exit 2; successful exit => no error,
///   whatever went to stderr.
/// * rg may stop reading early:
///   - command succeeds when left alone and writes nothing to stderr: no
///     error (whether it is cut short or not);
///   - command fails by itself, writes nothing to stderr: no error if rg
///     certainly stopped early (output >= 300 KB and the stop point within the
///     first 2 KB); otherwise it depends on whether the end of the output was
///     seen before the stop, which is timing: unasserted;
///   - command succeeds when left alone but writes to stderr: no error if rg
///     certainly stopped early (it is then terminated by rg, not failing);
///     otherwise whether it is cut short is timing: unasserted;
///   - command fails by itself and writes to stderr: unasserted (the property
///     gives no rule for "stopped early AND the command failed with stderr
///     output").
fn categorize(r: &FileRun) -> Cat {
    match r.route {
        Route::Direct | Route::Fallback => Cat::NoError,
        Route::Pre | Route::Decomp => {
            let Some(o) = &r.obs else { return Cat::Error };
            if !r.early_possible {
                if o.ok {
                    Cat::NoError
                } else {
                    Cat::Error
                }
            } else if o.stderr_len == 0 {
                if o.ok || r.surely_early {
                    Cat::NoError
                } else {
                    Cat::Unasserted
                }
            } else if o.ok && r.surely_early {
                // a healthy command that merely wrote something to stderr and
                // is certainly cut short by rg: "a command terminated because
                // ripgrep stopped reading early is not treated as an error"
                Cat::NoError
            } else {
                Cat::Unasserted
            }
        }
    }
}

pub fn run(pc: &PropCtx) {
    pc.rule(
        "fault sequences at the CLI: a tree of 1-5 generated files (text lines over a small vocabulary, NUL / invalid UTF-8 / CR / long lines, optionally ~660 KB of filler; optionally in a sub-directory) searched with `rg --pre SCRIPT [--pre-glob G]...` or `rg -z` (or both, in either order). SCRIPT is a generated POSIX sh script: transform (cat | tr a-z A-Z | prepend a line | drop the first line), input from $1 or stdin, and per file: bytes to stderr (0 | 1000 | 70000 | 2 MiB; before / in the middle of / after stdout), exit status (0,1,2,3,42,126,127,255), exit point (before any output | after half | after all); or the command is a missing path / not executable / not in PATH. -z files are compressed at generation time with the real gzip/bzip2/xz(/lzma), optionally truncated to 0-99 %; .lz4/.zst/.br files hold plain text: the tools are not installed, so they must be searched directly without an error - unless the case installs generated `lz4`/`zstd`/`brotli` commands (the same script generator, path = last argument) first in rg's PATH, which gives -z the same stderr / status / exit-point faults as --pre. Flags: -m1, -l, -q, -c, -n, -a, --binary, -i, explicit paths vs cwd, -j1 / --sort path / -j4 / default. Oracle: the harness runs the same script / decompressor itself on every selected file (reading all output) and records stdout, exit status, stderr size; expected stdout = rg with the same flags on a mirror tree holding those bytes under the same names, compared per file in both directions (exact; a prefix when an error is reported for the file; for NUL-containing command output a prefix of the text-mode lines plus an optional binary notice). Errors: decision table in `categorize` (error naming the file + exit 2 required / forbidden / unasserted); exit status 0/1 as the direct search when no error is reported. Non-trivial = at least one file searched through a command has a match AND at least one command fails (non-zero exit or cannot start); distinct by hash of the case",
    );
    pc.assume("the harness' own run of a script / decompressor (same argv, same environment, stdin from the file) writes the same stdout bytes and ends with the same status as the run spawned by rg when rg reads all of the output (the commands are deterministic functions of the file)");
    pc.assume("searching a regular file directly and searching the same bytes through a pipe give the same results for NUL-free data (property C02); --no-mmap is passed to both runs");
    pc.assume("`regex` crate search of the command's output (multi-line mode, same -i) decides whether a stop flag (-m1/-l/-q) can end the search early; only used to choose between 'error required' and 'unasserted'");
    let tools: Vec<(&str, bool)> = ["gzip", "bzip2", "xz", "lz4", "zstd", "brotli"].iter().map(|t| (*t, tool_available(t))).collect();
    pc.bound("tools_on_rg_PATH", serde_json::json!(tools.iter().map(|(t, a)| format!("{t}={a}")).collect::<Vec<_>>()));
    pc.bound("rg_watchdog_s", serde_json::json!(RG_WATCHDOG.as_secs()));
    pc.bound("big_file_bytes", serde_json::json!(BIG_PAD as usize * FILLER.len()));
    for t in ["gzip", "bzip2", "xz"] {
        if !tool_available(t) {
            pc.inconclusive(format!("{t} is not installed on {RPATH}: -z cannot be exercised"));
            return;
        }
    }
    if !Path::new("/bin/sh").exists() {
        pc.inconclusive("/bin/sh is missing");
        return;
    }

    // 1. fixed grid: every position of a large stderr relative to stdout
    // VERIF_C18_SKIP_GRID=1 (sensitivity experiments only): leave the grid out
    let grid = if std::env::var("VERIF_C18_SKIP_GRID").is_ok() { vec![] } else { flood_cases() };
    pc.bound("stderr_flood_grid", serde_json::json!(grid.len()));
    let t_grid = std::time::Instant::now();
    let n_grid = grid.len();
    pc.par_jobs(&grid, |case| match check_strict(case) {
        Verdict::Fail(f) => pc.triage("stderr_flood", case, f),
        v => {
            pc.absorb("stderr_flood", case, v);
            None
        }
    });
    pc.add_subcheck_summary(serde_json::json!({
        "subcheck": "stderr_flood",
        "engine": "enumeration (fixed grid)",
        "enumerated": n_grid,
        "wall_s": t_grid.elapsed().as_secs_f64(),
    }));

    // 2. generated fault sequences
    SHRINK_BUDGET_S.store(pc.tier.pick(20, 240), Ordering::Relaxed);
    let trees = pc.tier.pick(2_500, 24_000);
    pc.run_tape("fault_sequences", trees, (128, 500), gen_case, |c| check_tape(Some(pc), c));
    if let Some((case, detail)) = HANG_FOUND.lock().unwrap().take() {
        if !pc.has_failure() {
            pc.record_failure(Failure {
                subcheck: "fault_sequences".into(),
                case: serde_json::from_str(&case).unwrap_or(serde_json::Value::Null),
                detail,
            });
        }
    }
    let once = WATCHDOG_ONCE.load(Ordering::Relaxed);
    if once > 0 {
        pc.note(format!("{once} searches hit the {}s watchdog once and finished when run again (machine load); not counted as anything", RG_WATCHDOG.as_secs()));
    }
    let twice = WATCHDOG_TWICE_NO_FLOOD.load(Ordering::Relaxed);
    if twice > 0 {
        pc.inconclusive(format!("{twice} searches did not finish within the watchdog twice although no command wrote much to stderr"));
    }

    let n = trees as u64;
    pc.require_class("fault_sequences:preprocessed_file_matches", n / 3);
    pc.require_class("fault_sequences:error_required_and_enforced", n / 8);
    pc.require_class("fault_sequences:failing_and_healthy_commands_side_by_side", n / 16);
    pc.require_class("fault_sequences:cannot_start", n / 40);
    pc.require_class("fault_sequences:pre_glob_splits_tree", n / 20);
    pc.require_class("fault_sequences:truncated_archive", n / 30);
    pc.require_class("fault_sequences:valid_archive", n / 16);
    pc.require_class("fault_sequences:fallback_tool_not_installed", n / 40);
    pc.require_class("fault_sequences:early_stop_healthy_cmd_no_error", n / 16);
    pc.require_class("fault_sequences:early_stop_certain", n / 60);
    pc.require_class("fault_sequences:stderr_2MB", n / 30);
    pc.require_class("fault_sequences:fail_after_all", n / 20);
    pc.require_class("fault_sequences:fail_after_half", n / 30);
    pc.require_class("fault_sequences:fail_before_any_output", n / 40);
    pc.require_class("fault_sequences:z_fake_tool_fails", n / 100);
    if n_grid > 0 {
        pc.require_class("stderr_flood:stderr_2MB", 60);
        pc.require_class("stderr_flood:z_fake_tool_floods_stderr", 30);
    } else {
        pc.inconclusive("the stderr_flood grid was skipped (VERIF_C18_SKIP_GRID)");
    }
}

pub fn replay(_pc: &PropCtx, _sub: &str, case: &serde_json::Value) -> Result<Verdict, String> {
    let c: Case = serde_json::from_value(case.clone()).map_err(|e| e.to_string())?;
    Ok(check_strict(&c))
}
