//! C01 — a line is reported iff the pattern matches that line.

use grep_matcher::Matcher;
use serde::{Deserialize, Serialize};

use crate::bs::Bs;
use crate::cli::{Rg, TempDir};
use crate::gen::{self, ReOpts};
use crate::mat::{CaseMode, PatCfg};
use crate::model;
use crate::oracle::{self, LineVerdict, OracleErr};
use crate::runner::{Fail, Info, PropCtx, Verdict};
use crate::sea::{self, Event, SCfg, Strat, Term};
use crate::tape::Tape;

#[derive(Clone, Debug, Serialize, Deserialize)]
pub struct Case {
    pub pat: PatCfg,
    pub invert: bool,
    pub input: Bs,
    pub reader_chunks: Vec<usize>,
    pub reader_capacity: usize,
    /// also run the real binary on this case
    pub cli: bool,
}

pub fn gen_patcfg(t: &mut Tape, o: &ReOpts) -> PatCfg {
    let term = *t.pick(&[Term::Lf, Term::Lf, Term::Crlf, Term::Nul]);
    let fixed = t.chance(1, 10);
    let npat = 1 + t.small(2);
    let mut patterns = vec![];
    for _ in 0..npat {
        if fixed {
            let n = 1 + t.small(4);
            let s: String = (0..n).map(|_| *t.pick(&["a", "b", "c", ".", "*", "A", "(", "é", "x", "\\", "[", "+", "É", "Δ"])).collect();
            patterns.push(s);
        } else {
            patterns.push(gen::gen_re(t, o).render());
        }
    }
    if !fixed && t.chance(1, 6) {
        // a second pattern that differs from the first only in letter case - which is part of the
        // syntax after a backslash (\s vs \S, \b vs \B): two different patterns, whatever -i says
        let twin: String = {
            let p = &patterns[0];
            let mut out = String::new();
            let mut prev_bs = false;
            let mut changed = false;
            for c in p.chars() {
                if prev_bs && matches!(c, 's' | 'S' | 'w' | 'W' | 'd' | 'D' | 'b' | 'B') && !changed {
                    out.push(if c.is_ascii_lowercase() { c.to_ascii_uppercase() } else { c.to_ascii_lowercase() });
                    changed = true;
                } else {
                    out.push(c);
                }
                prev_bs = c == '\\' && !prev_bs;
            }
            if changed { out } else { p.chars().map(|c| if c.is_ascii_lowercase() { c.to_ascii_uppercase() } else if c.is_ascii_uppercase() { c.to_ascii_lowercase() } else { c }).collect() }
        };
        if twin != patterns[0] {
            patterns.push(twin);
        }
    }
    let case = match t.weighted(&[5, 2, 2]) {
        0 => CaseMode::Sensitive,
        1 => CaseMode::Insensitive,
        _ => CaseMode::Smart,
    };
    let (word, whole_line) = match t.weighted(&[6, 2, 1]) {
        0 => (false, false),
        1 => (true, false),
        _ => (false, true),
    };
    PatCfg {
        patterns,
        case,
        word,
        whole_line,
        fixed,
        term,
        unicode: !t.chance(1, 8),
        multiline: false,
        dotall: false,
        ban_nul: false,
    }
}

pub fn gen_case(t: &mut Tape) -> Case {
    let o = ReOpts::line_mode();
    let pat = gen_patcfg(t, &o);
    let ci = pat.case == CaseMode::Insensitive;
    let hirs: Vec<_> = pat
        .patterns
        .iter()
        .filter_map(|p| {
            let p = if pat.fixed { regex::escape(p) } else { p.clone() };
            gen::parse_hir(&p, ci, pat.unicode, pat.term == Term::Crlf, false)
        })
        .collect();
    let mut pat = pat;
    if pat.term != Term::Nul && t.chance(1, 20) {
        // a raw line terminator byte inside a pattern (-F $'a\nb'): the builder must reject it; if it
        // accepted it, a match could straddle two lines and neither of them contains the pattern
        let i = t.below(pat.patterns.len());
        let p = &mut pat.patterns[i];
        let cuts: Vec<usize> = p.char_indices().map(|(k, _)| k).chain(std::iter::once(p.len())).collect();
        let at = cuts[t.below(cuts.len())];
        p.insert_str(at, "\n");
    }
    let input = gen::gen_haystack(t, &hirs, pat.term, 12);
    let case_twin = pat.patterns.len() >= 2 && pat.patterns.iter().skip(1).any(|p| p.to_lowercase() == pat.patterns[0].to_lowercase() && *p != pat.patterns[0]);
    Case {
        pat,
        invert: t.chance(1, 4),
        input: Bs(input),
        reader_chunks: super::c03::gen_chunks(t),
        reader_capacity: t.small(24),
        cli: t.chance(1, 20) || (case_twin && t.chance(1, 3)),
    }
}

/// Which lines (by index) did a run report as matches / as passthru context?
fn reported(events: &[Event], lines: &[model::Line]) -> Result<(Vec<bool>, Vec<bool>), String> {
    let mut m = vec![false; lines.len()];
    let mut c = vec![false; lines.len()];
    for e in events {
        match e {
            Event::Match { offset, bytes, .. } | Event::Context { offset, bytes, .. } => {
                let Some(i) = lines.iter().position(|l| l.start as u64 == *offset) else {
                    return Err(format!("delivered offset {offset} is not the start of a line"));
                };
                if lines[i].end - lines[i].start != bytes.len() {
                    return Err(format!("delivered bytes at offset {offset} are not exactly one line"));
                }
                if matches!(e, Event::Match { .. }) {
                    if m[i] {
                        return Err(format!("line {} delivered twice", i + 1));
                    }
                    m[i] = true;
                } else {
                    c[i] = true;
                }
            }
            _ => {}
        }
    }
    Ok((m, c))
}

pub fn check(case: &Case) -> Verdict {
    let v = check_inner(case);
    if let Verdict::Fail(_) = &v {
        // attribute failures on inputs where the regex engine contradicts itself
        if let (Ok(m), Ok(o)) = (case.pat.build(), oracle::build(&case.pat)) {
            let term = case.pat.term;
            return crate::mat::attribute_engine(v, &m, Some(&o.re), &case.input.0, term.byte(), term == Term::Crlf);
        }
    }
    v
}

fn check_inner(case: &Case) -> Verdict {
    let matcher = match case.pat.build() {
        Ok(m) => m,
        Err(_) => return Verdict::Reject("builder rejected the pattern"),
    };
    if case.pat.patterns.iter().any(|p| !case.pat.fixed && oracle::mentions_haystack_anchor(p)) {
        return Verdict::Reject("haystack anchor (excluded by the property)");
    }
    let orc = match oracle::build(&case.pat) {
        Ok(o) => o,
        Err(OracleErr::Excluded(why)) => return Verdict::Reject(why),
        Err(OracleErr::Invalid(_)) => return Verdict::Reject("oracle cannot compile the pattern text"),
    };
    let input = &case.input.0;
    if gen::starts_with_bom(input) {
        return Verdict::Reject("input starts with a byte-order mark (transcoding is C17's subject)");
    }
    let term = case.pat.term;
    // an inline (?R) without --crlf: `^`/`$` then look at a CR and at what
    // follows it, i.e. at the line's own terminator in a whole-buffer search
    let inline_crlf = term != Term::Crlf && !case.pat.fixed && case.pat.patterns.iter().any(|p| gen::has_inline_crlf_flag(p));
    let lines = model::split_lines(input, term.byte());
    let verdicts: Vec<LineVerdict> =
        lines.iter().map(|l| orc.verdict(model::content(input, l, term == Term::Crlf))).collect();
    let expect: Vec<Option<bool>> = verdicts
        .iter()
        .map(|v| match v {
            LineVerdict::Match => Some(!case.invert),
            LineVerdict::NoMatch => Some(case.invert),
            LineVerdict::Ambiguous => None,
        })
        .collect();

    let mut runs: Vec<(String, Vec<bool>)> = vec![];
    let mut known_fail: Option<Fail> = None;
    let unicode_word_look = regex_syntax::ParserBuilder::new()
        .utf8(false)
        .unicode(case.pat.unicode)
        .build()
        .parse(&orc.pattern)
        .map(|h| h.properties().look_set().contains_word_unicode())
        .unwrap_or(false);
    let strategies = [
        Strat::Slice,
        Strat::Reader { chunks: case.reader_chunks.clone(), capacity: Some(case.reader_capacity) },
    ];
    let fast_lits = matcher.verif_fast_line_literals().map(|l| l.len());
    for strat in &strategies {
        for passthru in [false, true] {
            let cfg = SCfg { term, invert: case.invert, passthru, ..SCfg::default() };
            let out = sea::run(&matcher, &cfg, strat, input, None, None);
            let label = format!("{}{}", strat.label(), if passthru { "+passthru(slow path)" } else { "" });
            let describe = |msg: String| {
                Fail::new(format!(
                    "{msg}\n patterns={:?} flags: case={:?} word={} whole_line={} fixed={} term={:?} unicode={} invert={}\n oracle regex: {:?} (case_insensitive={})\n input={:?}\n run: {label}\n fast-line literals: {:?}\n events: {}",
                    case.pat.patterns, case.pat.case, case.pat.word, case.pat.whole_line, case.pat.fixed, term, case.pat.unicode, case.invert,
                    orc.pattern, orc.case_insensitive, case.input, fast_lits, sea::show_events(&out.events)
                ))
            };
            if let Err(e) = &out.result {
                return Verdict::Fail(describe(format!("search failed: {e}")));
            }
            let (m, c) = match reported(&out.events, &lines) {
                Ok(x) => x,
                Err(e) => return Verdict::Fail(describe(e)),
            };
            let mut known_shape_fail: Option<Fail> = None;
            for i in 0..lines.len() {
                if let Some(want) = expect[i] {
                    if m[i] != want {
                        let content = model::content(input, &lines[i], term == Term::Crlf);
                        let mut f = describe(format!(
                            "line {} ({:?}) is {} but the per-line oracle says the pattern {} it (invert={})",
                            i + 1,
                            Bs(content.to_vec()),
                            if m[i] { "reported" } else { "not reported" },
                            if verdicts[i] == LineVerdict::Match { "matches" } else { "does not match" },
                            case.invert
                        ))
                        .fact(format!("path:{}", if passthru { "slow" } else { "fast-or-selected" }))
                        .fact(format!("term:{term:?}"));
                        {
                            let cs = lines[i].start;
                            if !passthru && crate::mat::engine_inconsistent_on_line(&matcher, input, cs, cs + content.len()) {
                                f = f.fact("regex-engine-inconsistent-across-start-offsets").fact("fast-path-only");
                                known_shape_fail.get_or_insert(f);
                                continue;
                            }
                        }
                        if inline_crlf && content.last() == Some(&b'\r') && !passthru {
                            f = f.fact("inline-crlf-flag-without-crlf-mode").fact("line-content-ends-with-CR").fact("fast-path-only");
                            known_shape_fail.get_or_insert(f);
                            continue;
                        }
                        if unicode_word_look && i > 0 && content.first().map_or(false, |b| (0x80..=0xBF).contains(b)) && !passthru {
                            // explained by the regex engine's look-behind over
                            // stray continuation bytes (see known_findings.json)
                            f = f.fact("unicode-word-lookaround").fact("line-starts-with-utf8-continuation-byte").fact("fast-path-only");
                            known_shape_fail.get_or_insert(f);
                            continue;
                        }
                        return Verdict::Fail(f);
                    }
                }
                if passthru && m[i] == c[i] {
                    return Verdict::Fail(describe(format!(
                        "with passthru, line {} is {} — matches and other-context must partition the lines",
                        i + 1,
                        if m[i] { "delivered both as match and as context" } else { "not delivered at all" }
                    )));
                }
            }
            if let Some(f) = known_shape_fail {
                known_fail.get_or_insert(f);
            }
            runs.push((label, m));
        }
    }
    // metamorphic: the four runs agree (also on oracle-ambiguous lines)
    for w in runs.windows(2) {
        for i in 0..lines.len() {
            if w[0].1[i] != w[1].1[i] {
                let content = model::content(input, &lines[i], term == Term::Crlf);
                if unicode_word_look && i > 0 && content.first().map_or(false, |b| (0x80..=0xBF).contains(b)) {
                    continue; // same known shape; reported through known_fail
                }
                if inline_crlf && content.last() == Some(&b'\r') {
                    continue; // likewise
                }
                if crate::mat::engine_inconsistent_on_line(&matcher, input, lines[i].start, lines[i].start + content.len()) {
                    continue; // likewise (regex engine inconsistency)
                }
                return Verdict::Fail(Fail::new(format!(
                    "runs disagree on line {}: {} -> {:?} vs {} -> {:?}\n patterns={:?} pat={:?} invert={} input={:?}",
                    i + 1, w[0].0, w[0].1, w[1].0, w[1].1, case.pat.patterns, case.pat, case.invert, case.input
                )));
            }
        }
    }
    if let Some(f) = known_fail {
        return Verdict::Fail(f);
    }
    // the matcher itself, asked about single lines, must agree as well
    for (i, l) in lines.iter().enumerate() {
        if let Some(want) = expect[i] {
            let content = model::content(input, l, term == Term::Crlf);
            if content.contains(&b'\r') && term == Term::Crlf {
                continue;
            }
            let got = matcher.is_match(content).unwrap_or(false);
            if got != (want != case.invert) {
                return Verdict::Fail(Fail::new(format!(
                    "RegexMatcher::is_match({:?}) = {got} but the per-line oracle ({:?}) says {}\n pat={:?}",
                    Bs(content.to_vec()), orc.pattern, !got, case.pat
                )).fact("matcher-is_match"));
            }
        }
    }
    if case.cli {
        let expect_cli: Vec<Option<bool>> = (0..lines.len())
            .map(|i| {
                let content = model::content(input, &lines[i], term == Term::Crlf);
                if unicode_word_look && i > 0 && content.first().map_or(false, |b| (0x80..=0xBF).contains(b)) {
                    None
                } else if inline_crlf && content.last() == Some(&b'\r') {
                    None
                } else if crate::mat::engine_inconsistent_on_line(&matcher, input, lines[i].start, lines[i].start + content.len()) {
                    None
                } else {
                    expect[i]
                }
            })
            .collect();
        if let Some(f) = check_cli(case, &lines, &expect_cli) {
            return Verdict::Fail(f);
        }
    }
    let rep = &runs[0].1;
    let mut info = Info::new(rep.iter().any(|x| *x) && rep.iter().any(|x| !*x));
    info.class_if(fast_lits.is_some(), "fast_line_regex_present");
    info.class_if(case.pat.word, "word");
    info.class_if(case.pat.whole_line, "whole_line");
    info.class_if(case.pat.fixed, "fixed_strings");
    info.class_if(case.pat.patterns.len() > 1, "multi_pattern");
    info.class_if(case.invert, "invert");
    info.class_if(case.pat.case == CaseMode::Smart && orc.case_insensitive, "smart_case_insensitive");
    info.class_if(
        case.pat.case == CaseMode::Smart
            && !orc.case_insensitive
            && case.pat.patterns.iter().all(|p| !p.chars().any(|c| c.is_ascii_uppercase()))
            && case.pat.patterns.iter().any(|p| p.chars().any(|c| !c.is_ascii() && c.is_uppercase())),
        "smart_case_sensitive_by_non_ascii_uppercase",
    );
    info.class_if(term == Term::Crlf, "crlf");
    info.class_if(term == Term::Nul, "null_data");
    info.class_if(verdicts.iter().any(|v| *v == LineVerdict::Ambiguous), "crlf_ambiguous_line_skipped");
    info.class_if(term == Term::Crlf && lines.iter().any(|l| model::content(input, l, true).contains(&b'\r')), "crlf_bare_cr");
    info.class_if(
        term == Term::Crlf && lines.iter().any(|l| l.terminated && (l.end - l.start < 2 || input[l.end - 2] != b'\r')),
        "crlf_lone_lf",
    );
    info.class_if(lines.last().map_or(false, |l| !l.terminated), "unterminated_last_line");
    info.class_if(std::str::from_utf8(input).is_err(), "invalid_utf8");
    info.class_if(lines.iter().any(|l| l.end - l.start <= 1), "empty_line");
    info.class_if(case.cli, "cli_run");
    info.class_if(
        case.cli && case.pat.case == CaseMode::Insensitive && case.pat.patterns.iter().skip(1).any(|p| p.to_lowercase() == case.pat.patterns[0].to_lowercase() && *p != case.pat.patterns[0]),
        "cli_run_ignore_case_with_patterns_equal_up_to_letter_case",
    );
    Verdict::Pass(info)
}

fn check_cli(case: &Case, lines: &[model::Line], expect: &[Option<bool>]) -> Option<Fail> {
    let dir = TempDir::fast("c01");
    dir.write("f", &case.input.0);
    let mut rg = Rg::new(&dir.path).args(["-n", "--no-heading", "--no-config", "--color", "never", "-a", "--no-mmap"]);
    match case.pat.case {
        CaseMode::Sensitive => rg = rg.arg("-s"),
        CaseMode::Insensitive => rg = rg.arg("-i"),
        CaseMode::Smart => rg = rg.arg("-S"),
    }
    if case.pat.word {
        rg = rg.arg("-w");
    }
    if case.pat.whole_line {
        rg = rg.arg("-x");
    }
    if case.pat.fixed {
        rg = rg.arg("-F");
    }
    if !case.pat.unicode {
        rg = rg.arg("--no-unicode");
    }
    if case.invert {
        rg = rg.arg("-v");
    }
    match case.pat.term {
        Term::Crlf => rg = rg.arg("--crlf"),
        Term::Nul => rg = rg.arg("--null-data"),
        Term::Lf => {}
    }
    for p in &case.pat.patterns {
        rg = rg.arg("-e").arg(p);
    }
    rg = rg.arg("f");
    let cmd = rg.cmdline();
    let out = rg.run();
    if out.timed_out {
        return None; // inconclusive, not a violation
    }
    // parse "N:" prefixes; records are terminated by the line terminator
    let tb = case.pat.term.byte();
    let mut got = vec![false; lines.len()];
    let mut rest: &[u8] = &out.stdout;
    // every record is "<lineno>:<line bytes incl. terminator>"
    while !rest.is_empty() {
        let colon = rest.iter().position(|b| *b == b':')?;
        let Ok(n) = std::str::from_utf8(&rest[..colon]).unwrap_or("").parse::<usize>() else {
            return Some(Fail::new(format!("cannot parse rg output record near {:?}\n cmd: {cmd}", Bs(rest[..rest.len().min(40)].to_vec()))));
        };
        if n == 0 || n > lines.len() {
            return Some(Fail::new(format!("rg printed line number {n}, input has {} lines\n cmd: {cmd}", lines.len())));
        }
        let l = &lines[n - 1];
        let body = &case.input.0[l.start..l.end];
        let after = &rest[colon + 1..];
        if !after.starts_with(body) {
            return Some(Fail::new(format!(
                "rg printed line {n} with bytes that are not the input's line\n cmd: {cmd}\n stdout={:?}",
                Bs(out.stdout.clone())
            )));
        }
        got[n - 1] = true;
        let mut adv = colon + 1 + body.len();
        if !l.terminated {
            // rg adds the terminator to an unterminated last line
            if rest.get(adv) == Some(&tb) {
                adv += 1;
            }
        }
        rest = &rest[adv..];
    }
    for i in 0..lines.len() {
        if let Some(want) = expect[i] {
            if got[i] != want {
                return Some(
                    Fail::new(format!(
                        "CLI: line {} is {} but the oracle expects the opposite\n cmd: {cmd}\n input={:?}\n stdout={:?} stderr={:?} status={:?}",
                        i + 1,
                        if got[i] { "printed" } else { "not printed" },
                        case.input,
                        Bs(out.stdout.clone()),
                        Bs(out.stderr.clone()),
                        out.status
                    ))
                    .fact("cli"),
                );
            }
        }
    }
    let any = got.iter().any(|x| *x);
    let want_status = if any { 0 } else { 1 };
    if out.status != Some(want_status) && expect.iter().all(|e| e.is_some()) {
        return Some(Fail::new(format!("CLI: exit status {:?}, expected {want_status}\n cmd: {cmd}\n stderr={:?}", out.status, Bs(out.stderr.clone()))));
    }
    None
}

pub fn run(pc: &PropCtx) {
    pc.rule(
        "generated (pattern set, flags, pattern-directed haystack); each case runs slice and tiny-capacity reader, each with and without passthru, plus a 5% sample through the real rg binary; oracle = regex crate applied per line to the content without terminator. Non-trivial = at least one line reported and at least one not reported; distinct by hash of the case",
    );
    pc.assume("regex-automata's matching of one small haystack is the trusted base shared by oracle and implementation");
    pc.assume("CRLF mode: a line with a bare CR is asserted only when 'CR splits the line for the regex' and 'no match contains CR' agree");
    let cases = pc.tier.pick(60_000, 800_000);
    pc.run_tape("line_match", cases, (128, 1500), gen_case, check);
    if pc.tier == crate::runner::Tier::Thorough {
        pc.run_fuzz("C01:line_match", 6_000, 6000, &|v| replay(pc, "line_match", v).unwrap_or(Verdict::Reject("unreadable")));
    }
    pc.require_class("line_match:fast_line_regex_present", (cases as u64) / 200);
}

pub fn replay(_pc: &PropCtx, _sub: &str, case: &serde_json::Value) -> Result<Verdict, String> {
    let c: Case = serde_json::from_value(case.clone()).map_err(|e| e.to_string())?;
    Ok(check(&c))
}
