//! C02 — results do not depend on how the input bytes reach the searcher.

use grep_matcher::Matcher;
use grep_regex::RegexMatcher;
use serde::{Deserialize, Serialize};

use crate::bs::Bs;
use crate::cli::{Rg, TempDir};
use crate::gen::{self, ReOpts};
use crate::mat::{build_x, CaseMode, PatCfg, XAny, XKind, XKINDS};
use crate::model;
use crate::runner::{Fail, Info, PropCtx, Verdict};
use crate::sea::{self, Event, RunOut, SCfg, Strat, Term};
use crate::tape::Tape;

#[derive(Clone, Debug, Serialize, Deserialize)]
pub enum Mat {
    X(XKind),
    /// A regex that cannot match the terminator; `multiline_build` builds the
    /// matcher the `-U` way (no line terminator set), so that the searcher
    /// has to discover by itself that line mode is sufficient.
    Re { pat: PatCfg },
}

#[derive(Clone, Debug, Serialize, Deserialize)]
pub struct Case {
    pub mat: Mat,
    pub cfg: SCfg,
    pub input: Bs,
    pub strats: Vec<Strat>,
    /// also request multi_line(true) on the searcher for every strategy
    pub also_multi_line: bool,
    pub heap_limit_probe: bool,
    pub cli: bool,
}

pub enum AnyM {
    X(XAny),
    Re(RegexMatcher),
}

impl AnyM {
    pub fn run(&self, cfg: &SCfg, strat: &Strat, input: &[u8]) -> RunOut {
        match self {
            AnyM::X(XAny::Regex(m)) => sea::run(m, cfg, strat, input, None, None),
            AnyM::X(XAny::X(m)) => sea::run(m, cfg, strat, input, None, None),
            AnyM::Re(m) => sea::run(m, cfg, strat, input, None, None),
        }
    }
    pub fn is_match(&self, content: &[u8]) -> bool {
        match self {
            AnyM::X(XAny::Regex(m)) => m.is_match(content).unwrap_or(false),
            AnyM::X(XAny::X(m)) => m.is_match(content).unwrap_or(false),
            AnyM::Re(m) => m.is_match(content).unwrap_or(false),
        }
    }
}

pub fn build_mat(mat: &Mat, term: Term) -> Result<AnyM, String> {
    match mat {
        Mat::X(k) => Ok(AnyM::X(build_x(*k, term))),
        Mat::Re { pat } => pat.build().map(AnyM::Re),
    }
}

pub fn gen_cfg(t: &mut Tape) -> SCfg {
    let passthru = t.chance(1, 8);
    SCfg {
        term: *t.pick(&[Term::Lf, Term::Lf, Term::Crlf, Term::Nul]),
        invert: t.chance(1, 4),
        before: t.small(4),
        after: t.small(4),
        passthru,
        line_number: !t.chance(1, 5),
        stop_on_nonmatch: t.chance(1, 6),
        ..SCfg::default()
    }
}

/// `gen_cfg` plus an optional earlier search on the same searcher.
pub fn gen_cfg_warm(t: &mut Tape) -> SCfg {
    let mut c = gen_cfg(t);
    c.warm = gen::gen_warm(t, c.term);
    c
}

fn no_newline_opts() -> ReOpts {
    ReOpts {
        max_nodes: 8,
        allow_newline: false,
        allow_literal_newline: false,
        allow_unicode: true,
        allow_captures: false,
        allow_look: true,
        allow_flags: false,
        allow_bytes: false,
        allow_cr_nul: false,
    }
}

pub fn gen_case(t: &mut Tape) -> Case {
    let cfg = gen_cfg_warm(t);
    let term = cfg.term;
    let (mat, hirs) = if t.chance(1, 3) {
        (Mat::X(*t.pick(&XKINDS)), vec![])
    } else {
        let mut p = gen::gen_re(t, &no_newline_opts()).render();
        // a pattern that cannot match the terminator may still match a carriage return: under CRLF the
        // `\r` of a line's own terminator is not part of the line, whichever strategy runs
        if t.chance(1, 4) {
            let piece = *t.pick(&["[^x\\n\\x00]", "[^\\n\\x00]", "\\r", "\\r?", "[\\r\\t]", "[^a-z\\n\\x00]*", "(?:\\r|b)"]);
            p = if t.chance(1, 4) { format!("{piece}{p}") } else { format!("(?:{p}){piece}") };
        }
        let mut pat = PatCfg::simple(&p, term);
        pat.case = if t.chance(1, 5) { CaseMode::Insensitive } else { CaseMode::Sensitive };
        // -U style build only makes sense for LF (hiargs sets no terminator)
        pat.multiline = term != Term::Nul && t.chance(1, 3);
        let hirs: Vec<_> = gen::parse_hir(&p, false, true, term == Term::Crlf, false).into_iter().collect();
        (Mat::Re { pat }, hirs)
    };
    // input: mostly small, sometimes big enough to cross the default 64 KiB buffer
    let big = t.chance(1, 40);
    let nlines = t.below(40);
    let mut alpha = vec![];
    for h in &hirs {
        gen::literal_alphabet(h, &mut alpha);
    }
    alpha.retain(|b| *b != term.byte() && *b != b'\n');
    let mut lines = Vec::with_capacity(nlines);
    for _ in 0..nlines {
        let mut l = if matches!(mat, Mat::X(_)) {
            let n = if big { t.below(120) } else { t.small(30) };
            let mut v: Vec<u8> = (0..n).map(|_| *t.pick(&[b'o', b'p', b'y', b' '])).collect();
            if t.chance(1, 4) {
                let p = t.below(v.len() + 1);
                v.insert(p, b'x');
            }
            v
        } else {
            let mut v = gen::gen_line(t, &hirs, &alpha, term);
            if big {
                let pad = t.below(100);
                v.extend(std::iter::repeat(b' ').take(pad));
            }
            v
        };
        if t.chance(1, 60) {
            // a very long line: longer than any small capacity
            let n = 200 + t.below(400);
            l.extend(std::iter::repeat(b'q').take(n));
        }
        l.retain(|b| *b != term.byte());
        // NUL-terminated records may contain line feeds (and LF-terminated
        // lines NULs): they are ordinary bytes there, but the code has many
        // places where a terminator byte is spelled out
        if t.chance(1, 3) {
            let other = if term == Term::Nul { b'\n' } else { 0u8 };
            if term == Term::Nul || matches!(mat, Mat::X(_)) {
                let k = 1 + t.below(4);
                for _ in 0..k {
                    let p = t.below(l.len() + 1);
                    l.insert(p, other);
                }
            }
        }
        lines.push(l);
    }
    if big && !lines.is_empty() {
        // replicate the generated block until the input crosses the default
        // 64 KiB buffer once or twice
        let block: usize = lines.iter().map(|l| l.len() + 2).sum::<usize>().max(1);
        let target = 50_000 + t.below(120_000);
        let reps = target / block + 1;
        let base = lines.clone();
        for _ in 0..reps.min(20_000) {
            lines.extend(base.iter().cloned());
        }
    }
    let final_term = !t.chance(1, 4);
    let input = gen::join_lines(t, &lines, term, final_term);
    let mut strats = vec![];
    let nr = 2 + t.below(3);
    for _ in 0..nr {
        strats.push(Strat::Reader {
            chunks: super::c03::gen_chunks(t),
            capacity: if t.chance(1, 8) { None } else { Some(t.small(64)) },
        });
    }
    strats.push(Strat::Reader { chunks: vec![1], capacity: Some(1) });
    if t.chance(1, 4) {
        strats.push(Strat::PathNoMmap);
        strats.push(Strat::PathMmap);
    }
    if t.chance(1, 20) {
        strats.push(Strat::PathFifo);
    }
    Case {
        mat,
        cfg,
        input: Bs(input),
        strats,
        also_multi_line: t.chance(1, 2),
        heap_limit_probe: t.chance(1, 4),
        cli: t.chance(1, 40),
    }
}

fn is_alloc_error(r: &Result<(), String>) -> bool {
    matches!(r, Err(e) if e.contains("allocation limit"))
}

pub fn check(case: &Case) -> Verdict {
    let term = case.cfg.term;
    let m = match build_mat(&case.mat, term) {
        Ok(m) => m,
        Err(_) => return Verdict::Reject("builder rejected the pattern"),
    };
    // The searcher must end up in line mode; skip patterns that can match the terminator.
    if let (Mat::Re { pat }, AnyM::Re(rm)) = (&case.mat, &m) {
        if pat.multiline {
            let nm = rm.non_matching_bytes().map_or(false, |s| s.contains(b'\n'));
            if !nm {
                return Verdict::Reject("-U style matcher may match the terminator");
            }
        }
    }
    let input = &case.input.0;
    if crate::gen::starts_with_bom(input) {
        return Verdict::Reject("input starts with a byte-order mark (transcoding is C17's subject)");
    }
    let reference = m.run(&case.cfg, &Strat::Slice, input);
    let ctx = |label: &str, out: &RunOut| {
        format!(
            " matcher={:?}\n cfg={:?}\n input={:?} ({} bytes)\n reference slice: {} -> {:?}\n {label}: {} -> {:?}",
            case.mat,
            case.cfg,
            Bs(input[..input.len().min(400)].to_vec()),
            input.len(),
            sea::show_events(&tail(&reference.events)),
            reference.result,
            sea::show_events(&tail(&out.events)),
            out.result
        )
    };
    if let Err(e) = &reference.result {
        return Verdict::Fail(Fail::new(format!("slice search failed: {e}\n{}", ctx("slice", &reference))));
    }
    // "all equal *and* right": the reference run against the LineModel fed
    // with the matcher's own per-line verdicts
    let lines = model::split_lines(input, term.byte());
    let success: Vec<bool> = lines
        .iter()
        .map(|l| m.is_match(model::content(input, l, term == Term::Crlf)) != case.cfg.invert)
        .collect();
    let exp = model::expected(input, &case.cfg, &lines, &success, false);
    let (body, fin) = model::split_finish(&reference.events);
    // Known finding under C01 (rooted in the regex engine): with a Unicode
    // word assertion the engine's look-behind reads past stray UTF-8
    // continuation bytes at the start of a line into the previous line, so
    // whole-buffer matching and per-line matching may disagree on such a
    // line. The strategy comparison below is unaffected; only this
    // model cross-check is skipped for that shape.
    let engine_lookbehind_shape = match &m {
        AnyM::Re(rm) => {
            rm.verif_final_hir().properties().look_set().contains_word_unicode()
                && lines.iter().skip(1).any(|l| input.get(l.start).map_or(false, |b| (0x80..=0xBF).contains(b)))
        }
        _ => false,
    };
    // Second crack in the trusted base: the engine may miss a match depending
    // on the offset its search starts at (see mat::engine_inconsistent_on_line).
    let engine_offset_shape = match &m {
        AnyM::Re(rm) => lines.iter().any(|l| {
            let c = model::content(input, l, term == Term::Crlf);
            crate::mat::engine_inconsistent_on_line(rm, input, l.start, l.start + c.len())
        }),
        _ => false,
    };
    // the general law (mat::offsets_inconsistent), evaluated only when something disagrees
    let engine_law_broken = || match &m {
        AnyM::Re(rm) => crate::mat::engine_probe(rm, None, input, term.byte(), term == Term::Crlf).0,
        _ => false,
    };
    if engine_lookbehind_shape || engine_offset_shape {
        // fall through to the strategy comparison
    } else if let Err(e) = model::compare(&exp, body) {
        if engine_law_broken() {
            return Verdict::Fail(
                Fail::new(format!("slice result differs from the LineModel on an input where the regex engine contradicts itself: {e}\n{}", ctx("slice", &reference)))
                    .fact(crate::mat::ENGINE_FACT),
            );
        }
        return Verdict::Fail(
            Fail::new(format!("slice result differs from the LineModel: {e}\n expected: {}\n{}", sea::show_events(&tail(&exp.events)), ctx("slice", &reference)))
                .fact("model"),
        );
    }
    if let (Some(n), Some(Event::Finish { byte_count, .. })) = (exp.byte_count, fin) {
        if *byte_count != n {
            return Verdict::Fail(Fail::new(format!("completed slice search reports {byte_count} bytes, input has {n}\n{}", ctx("slice", &reference))));
        }
    }
    let mut max_data_reads = 0;
    let mut variants = 0;
    let mut cfgs = vec![case.cfg.clone()];
    // XSlow declares neither a terminator nor non-matching bytes, so a
    // multi-line request legitimately selects the multi-line searcher.
    if case.also_multi_line && !matches!(case.mat, Mat::X(XKind::XSlow)) {
        cfgs.push(SCfg { multi_line: true, ..case.cfg.clone() });
    }
    for cfg in &cfgs {
        let mut strats = case.strats.clone();
        if cfg.multi_line {
            strats.insert(0, Strat::Slice);
        }
        for strat in &strats {
            let out = m.run(cfg, strat, input);
            variants += 1;
            max_data_reads = max_data_reads.max(out.data_reads);
            let label = format!("{}{}", strat.label(), if cfg.multi_line { "+multi_line" } else { "" });
            if out.events != reference.events || out.result != reference.result {
                let mut f = Fail::new(format!("results depend on the strategy ({label} vs slice)\n{}", ctx(&label, &out)));
                if engine_offset_shape || engine_law_broken() {
                    // where a buffer begins decides at which offsets the engine's
                    // searches start (known finding)
                    f = f.fact("regex-engine-inconsistent-across-start-offsets");
                }
                if engine_lookbehind_shape {
                    // where a buffer begins changes what the engine's
                    // look-behind sees before such a line (known finding)
                    f = f.fact("unicode-word-lookaround").fact("line-starts-with-utf8-continuation-byte");
                }
                if only_finish_differs(&out.events, &reference.events) {
                    f = f.fact("only-byte-count-differs");
                    if case.cfg.stop_on_nonmatch {
                        f = f.fact("stop_on_nonmatch");
                    }
                }
                return Verdict::Fail(f);
            }
            if out.buffer_mismatch {
                return Verdict::Fail(Fail::new(format!("SinkMatch::buffer()[range] != bytes() under {label}\n{}", ctx(&label, &out))));
            }
        }
    }
    // just-sufficient heap limit
    if case.heap_limit_probe {
        let chunks = vec![7usize];
        let probe = |limit: usize| m.run(&case.cfg, &Strat::HeapLimit { chunks: chunks.clone(), limit }, input);
        let mut hi = 1usize;
        while is_alloc_error(&probe(hi).result) && hi < (1 << 22) {
            hi *= 2;
        }
        let mut lo = hi / 2; // lo fails (or is 0), hi succeeds
        if hi == 1 {
            lo = 0;
        }
        while lo + 1 < hi {
            let mid = (lo + hi) / 2;
            if is_alloc_error(&probe(mid).result) {
                lo = mid;
            } else {
                hi = mid;
            }
        }
        for limit in [hi, hi + 1] {
            let out = probe(limit);
            variants += 1;
            if out.events != reference.events || out.result != reference.result {
                return Verdict::Fail(Fail::new(format!(
                    "results depend on the strategy (heap_limit={limit}, the smallest sufficient limit is {hi})\n{}",
                    ctx("heap_limit", &out)
                )));
            }
        }
    }
    if case.cli {
        if let Some(f) = check_cli(case) {
            return Verdict::Fail(f);
        }
    }
    let has_match = body.iter().any(|e| matches!(e, Event::Match { .. }));
    let mut info = Info::new(max_data_reads >= 3 && has_match && (case.cfg.passthru || case.cfg.before + case.cfg.after > 0));
    info.class_if(max_data_reads >= 3, "reader_refilled>=2");
    info.class_if(case.also_multi_line, "multi_line_requested");
    info.class_if(case.cfg.warm.is_some(), "searcher_reused_after_another_input");
    info.class_if(case.strats.iter().any(|s| matches!(s, Strat::PathFifo)), "path_that_reports_zero_length(named_pipe)");
    info.class_if(matches!(&case.mat, Mat::Re { pat } if pat.multiline), "matcher_built_without_terminator");
    info.class_if(case.heap_limit_probe, "heap_limit_probe");
    info.class_if(input.len() > 65536, "input>64KiB");
    info.class_if(case.cfg.stop_on_nonmatch && exp.stopped_at.is_some(), "stopped_on_nonmatch");
    info.class_if(term == Term::Crlf, "crlf");
    info.class_if(term == Term::Crlf && case.also_multi_line && matches!(&case.mat, Mat::Re { pat } if pat.patterns.iter().any(|p| p.contains("\\r") || p.contains("[^"))), "crlf_multi_line_pattern_may_match_cr");
    info.class_if(term == Term::Nul, "nul_terminator");
    info.class_if(lines.last().map_or(false, |l| !l.terminated), "unterminated_last_line");
    info.class_if(case.strats.iter().any(|s| matches!(s, Strat::PathMmap)), "file_and_mmap");
    info.class_if(lines.iter().any(|l| l.end - l.start > 200), "line_longer_than_any_small_capacity");
    info.class_if(case.cli, "cli_run");
    info.class_if(engine_lookbehind_shape, "model_cross_check_skipped_known_engine_lookbehind");
    info.class_if(engine_offset_shape, "model_cross_check_skipped_known_engine_offset_inconsistency");
    let _ = variants;
    Verdict::Pass(info)
}

fn tail(ev: &[Event]) -> Vec<Event> {
    if ev.len() <= 14 {
        ev.to_vec()
    } else {
        let mut v = ev[..4].to_vec();
        v.extend_from_slice(&ev[ev.len() - 8..]);
        v
    }
}

fn only_finish_differs(a: &[Event], b: &[Event]) -> bool {
    a.len() == b.len()
        && !a.is_empty()
        && a[..a.len() - 1] == b[..b.len() - 1]
        && matches!((a.last(), b.last()), (Some(Event::Finish { .. }), Some(Event::Finish { .. })))
}

/// `rg --mmap f`, `rg --no-mmap f` and `cat f | rg` print the same bytes.
fn check_cli(case: &Case) -> Option<Fail> {
    let Mat::Re { pat } = &case.mat else { return None };
    let dir = TempDir::fast("c02");
    dir.write("f", &case.input.0);
    let base = |extra: &[&str]| {
        let mut rg = Rg::new(&dir.path).args(["--no-config", "--color", "never", "-a", "-n", "-b", "--no-heading", "--no-filename"]);
        if case.cfg.invert {
            rg = rg.arg("-v");
        }
        if case.cfg.passthru {
            rg = rg.arg("--passthru");
        } else {
            rg = rg.arg("-A").arg(case.cfg.after.to_string()).arg("-B").arg(case.cfg.before.to_string());
        }
        if case.cfg.stop_on_nonmatch {
            rg = rg.arg("--stop-on-nonmatch");
        }
        if pat.case == CaseMode::Insensitive {
            rg = rg.arg("-i");
        }
        if pat.multiline {
            rg = rg.arg("-U");
        }
        match case.cfg.term {
            Term::Crlf => rg = rg.arg("--crlf"),
            Term::Nul => rg = rg.arg("--null-data"),
            Term::Lf => {}
        }
        rg = rg.args(extra.iter().copied()).arg("-e").arg(&pat.patterns[0]);
        rg
    };
    let a = base(&["--mmap"]).arg("f");
    let cmd = a.cmdline();
    let a = a.run();
    let b = base(&["--no-mmap"]).arg("f").run();
    let c = base(&[]).stdin(case.input.0.clone()).run();
    if a.timed_out || b.timed_out || c.timed_out {
        return None;
    }
    for (name, o) in [("--no-mmap", &b), ("stdin", &c)] {
        if o.stdout != a.stdout || o.status != a.status {
            return Some(Fail::new(format!(
                "CLI output depends on the strategy: --mmap vs {name}\n cmd: {cmd}\n input={:?}\n --mmap: status={:?} stdout={:?}\n {name}: status={:?} stdout={:?} stderr={:?}",
                case.input,
                a.status,
                Bs(a.stdout.clone()),
                o.status,
                Bs(o.stdout.clone()),
                Bs(o.stderr.clone())
            )).fact("cli"));
        }
    }
    None
}

pub fn run(pc: &PropCtx) {
    pc.rule(
        "generated (matcher that cannot match the terminator, searcher configuration with binary detection off, input up to ~150 KB); the event stream and final byte count of search_slice are compared with search_reader under several read-size schedules and hook-set initial capacities (including 1 byte), with the smallest sufficient heap limit and limit+1, with search_path with and without mmap, all again with multi_line(true) requested; the slice run itself is checked against the LineModel; 1/40 of the cases also compare rg --mmap / --no-mmap / stdin. Non-trivial = some reader refilled its buffer at least twice, at least one match, and context or passthru active; distinct by hash",
    );
    pc.assume("Interrupted reads are not injected here (C16 states they surface as errors in the line-by-line reader)");
    let cases = pc.tier.pick(60_000, 600_000);
    pc.run_tape("strategies", cases, (256, 6000), gen_case, check);
    if pc.tier == crate::runner::Tier::Thorough {
        pc.run_fuzz("C02:strategies", 30_000, 16000, &|v| replay(pc, "strategies", v).unwrap_or(Verdict::Reject("unreadable")));
    }
    pc.require_class("strategies:reader_refilled>=2", cases as u64 / 4);
}

pub fn replay(_pc: &PropCtx, _sub: &str, case: &serde_json::Value) -> Result<Verdict, String> {
    let c: Case = serde_json::from_value(case.clone()).map_err(|e| e.to_string())?;
    Ok(check(&c))
}
