//! C11 — line-mode matcher promises hold for every accepted pattern over
//! ALL lines. The line generator is exact: for each pattern, automata
//! products search for a witness line; the verdict always comes from
//! executing the real matcher on the witness, so a bug in the automaton code
//! can only lose witnesses, never raise a false alarm.

use std::collections::{HashMap, VecDeque};

use grep_matcher::{LineMatchKind, Matcher};
use grep_regex::RegexMatcher;
use regex_automata::dfa::{dense, Automaton, StartKind};
use regex_automata::nfa::thompson;
use regex_automata::util::primitives::StateID;
use regex_automata::util::start;
use regex_automata::{Anchored, MatchKind};
use regex_syntax::hir::Hir;
use serde::{Deserialize, Serialize};

use crate::bs::Bs;
use crate::gen::{self, ReOpts};
use crate::mat::{CaseMode, PatCfg};
use crate::runner::{Fail, Info, PropCtx, Verdict};
use crate::sea::Term;
use crate::tape::Tape;

#[derive(Clone, Debug, Serialize, Deserialize)]
pub struct Case {
    pub pat: PatCfg,
    /// extra sampled lines (claim 6); empty for enumerated patterns
    pub lines: Vec<Bs>,
}

type Dfa = dense::DFA<Vec<u32>>;

const DFA_LIMIT: usize = 8 << 20;

pub fn build_dfa(hir: &Hir) -> Option<Dfa> {
    let nfa = thompson::Compiler::new()
        .configure(thompson::Config::new().utf8(false).nfa_size_limit(Some(DFA_LIMIT)))
        .build_from_hir(hir)
        .ok()?;
    dense::Builder::new()
        .configure(
            dense::Config::new()
                .start_kind(StartKind::Both)
                .match_kind(MatchKind::LeftmostFirst)
                .unicode_word_boundary(true)
                .byte_classes(true)
                .dfa_size_limit(Some(DFA_LIMIT))
                .determinize_size_limit(Some(DFA_LIMIT)),
        )
        .build_from_nfa(&nfa)
        .ok()
}

fn term_bytes(t: Term) -> &'static [u8] {
    match t {
        Term::Lf => b"\n",
        Term::Crlf => b"\r\n",
        Term::Nul => b"\0",
    }
}

fn live(d: &Dfa, s: StateID) -> bool {
    !d.is_dead_state(s) && !d.is_quit_state(s)
}

/// One representative byte per DFA byte class, with `prefer` bytes used as
/// the representative of their own class.
fn alphabet(d: &Dfa, prefer: &[u8], exclude: &[u8]) -> Vec<u8> {
    let bc = d.byte_classes();
    let mut seen: HashMap<u8, u8> = HashMap::new();
    for &p in prefer {
        if !exclude.contains(&p) {
            seen.entry(bc.get(p)).or_insert(p);
        }
    }
    for b in 0..=255u8 {
        if exclude.contains(&b) {
            continue;
        }
        seen.entry(bc.get(b)).or_insert(b);
    }
    let mut v: Vec<u8> = seen.values().copied().collect();
    v.sort();
    v
}

const LOOK_BEHINDS: [Option<u8>; 5] = [None, Some(b'\n'), Some(b'a'), Some(b' '), Some(b'\r')];

/// Find a haystack on which some match (from an anchored start after the
/// given look-behind byte) contains one of `targets`. Returns
/// (prefix byte, bytes).
fn witness_containing(d: &Dfa, targets: &[u8]) -> Option<(Option<u8>, Vec<u8>)> {
    if targets.is_empty() {
        return None;
    }
    let alpha = alphabet(d, targets, &[]);
    for lb in LOOK_BEHINDS {
        let Ok(s0) = d.start_state(&start::Config::new().anchored(Anchored::Yes).look_behind(lb)) else { continue };
        if !live(d, s0) {
            continue;
        }
        // BFS over (state, seen-target)
        let mut prev: HashMap<(StateID, bool), Option<((StateID, bool), u8)>> = HashMap::new();
        let mut q = VecDeque::new();
        prev.insert((s0, false), None);
        q.push_back((s0, false));
        let rebuild = |prev: &HashMap<(StateID, bool), Option<((StateID, bool), u8)>>, mut k: (StateID, bool)| {
            let mut out = vec![];
            while let Some(Some((p, b))) = prev.get(&k) {
                out.push(*b);
                k = *p;
            }
            out.reverse();
            out
        };
        while let Some((s, seen)) = q.pop_front() {
            if seen && d.is_match_state(d.next_eoi_state(s)) {
                return Some((lb, rebuild(&prev, (s, seen))));
            }
            for &x in &alpha {
                let s2 = d.next_state(s, x);
                if !live(d, s2) {
                    continue;
                }
                if seen && d.is_match_state(s2) {
                    // the match ended before x and contains a target
                    let mut w = rebuild(&prev, (s, seen));
                    w.push(x);
                    return Some((lb, w));
                }
                let k2 = (s2, seen || targets.contains(&x));
                if !prev.contains_key(&k2) {
                    prev.insert(k2, Some(((s, seen), x)));
                    q.push_back(k2);
                }
            }
        }
    }
    None
}

/// Find a terminator-free line on which H matches and the literal automaton
/// F never does.
fn witness_h_without_f(h: &Dfa, f: &Dfa, exclude: &[u8]) -> Option<Vec<u8>> {
    let cfg = start::Config::new().anchored(Anchored::No).look_behind(None);
    let (Ok(h0), Ok(f0)) = (h.start_state(&cfg), f.start_state(&cfg)) else { return None };
    // joint alphabet: distinct (class_h, class_f)
    let mut reps: HashMap<(u8, u8), u8> = HashMap::new();
    for b in 0..=255u8 {
        if exclude.contains(&b) {
            continue;
        }
        reps.entry((h.byte_classes().get(b), f.byte_classes().get(b))).or_insert(b);
    }
    let mut alpha: Vec<u8> = reps.values().copied().collect();
    alpha.sort();
    type K = (StateID, StateID);
    let mut prev: HashMap<K, Option<(K, u8)>> = HashMap::new();
    let mut q = VecDeque::new();
    prev.insert((h0, f0), None);
    q.push_back((h0, f0));
    let rebuild = |prev: &HashMap<K, Option<(K, u8)>>, mut k: K| {
        let mut out = vec![];
        while let Some(Some((p, b))) = prev.get(&k) {
            out.push(*b);
            k = *p;
        }
        out.reverse();
        out
    };
    while let Some((hs, fs)) = q.pop_front() {
        // F sees a literal ending exactly at the end of the current string?
        let f_eoi = f.is_match_state(f.next_eoi_state(fs));
        if !f_eoi && (h.is_match_state(hs) || h.is_match_state(h.next_eoi_state(hs))) {
            return Some(rebuild(&prev, (hs, fs)));
        }
        if !live(h, hs) {
            continue;
        }
        for &x in &alpha {
            let (h2, f2) = (h.next_state(hs, x), f.next_state(fs, x));
            if f.is_match_state(f2) || f.is_quit_state(f2) || h.is_quit_state(h2) {
                continue; // a literal occurred (or outside the decidable alphabet)
            }
            // H may be dead after its first match; keep it only while useful
            if !live(h, h2) && !h.is_match_state(h2) {
                continue;
            }
            let k2 = (h2, f2);
            if !prev.contains_key(&k2) {
                prev.insert(k2, Some(((hs, fs), x)));
                q.push_back(k2);
            }
        }
    }
    None
}

/// Find a terminator-free haystack on which the two automata disagree about
/// where matches end.
fn witness_disagreement(a: &Dfa, b: &Dfa, exclude: &[u8]) -> Option<Vec<u8>> {
    let cfg = start::Config::new().anchored(Anchored::No).look_behind(None);
    let (Ok(a0), Ok(b0)) = (a.start_state(&cfg), b.start_state(&cfg)) else { return None };
    let mut reps: HashMap<(u8, u8), u8> = HashMap::new();
    for x in 0..=255u8 {
        if exclude.contains(&x) {
            continue;
        }
        reps.entry((a.byte_classes().get(x), b.byte_classes().get(x))).or_insert(x);
    }
    let mut alpha: Vec<u8> = reps.values().copied().collect();
    alpha.sort();
    type K = (StateID, StateID);
    let mut prev: HashMap<K, Option<(K, u8)>> = HashMap::new();
    let mut q = VecDeque::new();
    prev.insert((a0, b0), None);
    q.push_back((a0, b0));
    let rebuild = |prev: &HashMap<K, Option<(K, u8)>>, mut k: K| {
        let mut out = vec![];
        while let Some(Some((p, x))) = prev.get(&k) {
            out.push(*x);
            k = *p;
        }
        out.reverse();
        out
    };
    while let Some((sa, sb)) = q.pop_front() {
        if a.is_match_state(sa) != b.is_match_state(sb)
            || a.is_match_state(a.next_eoi_state(sa)) != b.is_match_state(b.next_eoi_state(sb))
        {
            return Some(rebuild(&prev, (sa, sb)));
        }
        for &x in &alpha {
            let (a2, b2) = (a.next_state(sa, x), b.next_state(sb, x));
            if a.is_quit_state(a2) || b.is_quit_state(b2) {
                continue;
            }
            if a.is_dead_state(a2) && b.is_dead_state(b2) {
                continue;
            }
            let k2 = (a2, b2);
            if !prev.contains_key(&k2) {
                prev.insert(k2, Some(((sa, sb), x)));
                q.push_back(k2);
            }
        }
    }
    None
}

/// All matches the real matcher reports on a haystack (advance rule of C13).
fn all_matches(m: &RegexMatcher, hay: &[u8]) -> Vec<(usize, usize)> {
    let mut out = vec![];
    let mut pos = 0;
    while pos <= hay.len() {
        let Ok(Some(mt)) = m.find_at(hay, pos) else { break };
        out.push((mt.start(), mt.end()));
        pos = if mt.is_empty() { mt.end() + 1 } else { mt.end() };
    }
    out
}

/// Known finding classifier: with a NUL terminator the regex still treats
/// `\n` as the line terminator of its line anchors, so `$`/`^` do not see a
/// NUL-terminated line boundary (acknowledged by a FIXME in the searcher,
/// which never takes the fast path for NUL).
fn nul_anchor_facts(f: Fail, pat: &PatCfg, hir: &Hir, fails_without_term: bool) -> Fail {
    let ls = hir.properties().look_set();
    let has_line_anchor = ls.contains(regex_syntax::hir::Look::StartLF)
        || ls.contains(regex_syntax::hir::Look::EndLF)
        || ls.contains(regex_syntax::hir::Look::StartCRLF)
        || ls.contains(regex_syntax::hir::Look::EndCRLF);
    if pat.term == Term::Nul && has_line_anchor && !fails_without_term {
        f.fact("nul-terminator").fact("line-anchor-does-not-see-nul")
    } else {
        f
    }
}

/// The shape of the known finding `crlf-start-anchor-after-trailing-cr`: LF terminator, the line ends in a
/// carriage return, the pattern holds a CRLF-aware start-of-line assertion, and no match lies within the
/// line once it is followed by its terminator (between `\r` and `\n` that assertion is false, after a
/// final `\r` it is true).
fn crlf_anchor_shape(m: &RegexMatcher, pat: &PatCfg, hir: &Hir, w: &[u8]) -> bool {
    pat.term == Term::Lf && w.last() == Some(&b'\r') && hir.properties().look_set().contains(regex_syntax::hir::Look::StartCRLF) && {
        let mut wt = w.to_vec();
        wt.push(b'\n');
        !all_matches(m, &wt).iter().any(|(_, e)| *e <= w.len())
    }
}

fn candidate_none(m: &RegexMatcher, hay: &[u8]) -> bool {
    matches!(m.find_candidate_line(hay), Ok(None))
}

pub fn check(case: &Case) -> Verdict {
    let pat = &case.pat;
    if std::env::var_os("VERIF_TRACE_CASES").is_some() {
        let rss = std::fs::read_to_string("/proc/self/status").ok().and_then(|s| s.lines().find(|l| l.starts_with("VmRSS:")).map(|l| l.to_string())).unwrap_or_default();
        eprintln!("C11 case: {:?} term={:?} word={} whole={} {}", pat.patterns, pat.term, pat.word, pat.whole_line, rss);
    }
    let m = match pat.build() {
        Ok(m) => m,
        Err(e) => {
            // claim 5 is only counted
            return Verdict::Reject(if e.contains("not allowed") { "rejected: terminator literal not allowed" } else { "rejected by the builder" });
        }
    };
    let tb = term_bytes(pat.term);
    let h_hir = m.verif_final_hir().clone();
    let lits = m.verif_fast_line_literals().map(|l| l.to_vec());
    let nm = m.non_matching_bytes().cloned();
    let ctx = || {
        format!(
            " patterns={:?} case={:?} word={} whole_line={} fixed={} term={:?} unicode={} ban_nul={}\n final HIR: {}\n fast-line literals: {:?}",
            pat.patterns,
            pat.case,
            pat.word,
            pat.whole_line,
            pat.fixed,
            pat.term,
            pat.unicode,
            pat.ban_nul,
            h_hir,
            lits.as_ref().map(|l| l.iter().map(|x| Bs(x.clone())).collect::<Vec<_>>())
        )
    };
    let mut info = Info::new(false);
    // The matcher must advertise the terminator it was built for (or none,
    // when haystack anchors force the slow path).
    let advertised = m.line_terminator();
    if let Some(lt) = advertised {
        if lt != pat.term.lt() {
            return Verdict::Fail(Fail::new(format!("matcher advertises line terminator {lt:?}, built for {:?}\n{}", pat.term, ctx())));
        }
    }
    let hd = build_dfa(&h_hir);
    info.class_if(hd.is_some(), "dfa_built");
    info.class_if(hd.is_none(), "dfa_too_big_sampled_only");
    let n_set: Vec<u8> = match &nm {
        Some(s) => (0..=255u8).filter(|b| s.contains(*b)).collect(),
        None => vec![],
    };
    info.class_if(!n_set.is_empty() && n_set.len() < 256, "nonmatching_set_proper");
    if let Some(hd) = &hd {
        // claim 1: no match contains a terminator byte
        if let Some((lb, w)) = witness_containing(hd, tb) {
            let mut hay = vec![];
            hay.extend(lb);
            hay.extend_from_slice(&w);
            for (s, e) in all_matches(&m, &hay) {
                if hay[s..e].iter().any(|b| tb.contains(b)) {
                    return Verdict::Fail(
                        Fail::new(format!(
                            "claim 1 violated: find_at on {:?} reports the match {s}..{e} = {:?}, which contains the line terminator\n{}",
                            Bs(hay.clone()),
                            Bs(hay[s..e].to_vec()),
                            ctx()
                        ))
                        .fact("claim1"),
                    );
                }
            }
            info.class("claim1_witness_not_confirmed");
        }
        // claim 2: every declared non-matching byte occurs in no match.
        // Group the declared bytes by DFA byte class.
        let mut by_class: HashMap<u8, Vec<u8>> = HashMap::new();
        for &b in &n_set {
            if tb.contains(&b) {
                continue; // already covered by claim 1
            }
            by_class.entry(hd.byte_classes().get(b)).or_default().push(b);
        }
        let mut classes: Vec<_> = by_class.into_iter().collect();
        classes.sort();
        // cheap pre-filter: which classes occur on some path to a match at all
        for (_, bytes) in classes {
            let probe = [bytes[0]];
            if let Some((lb, w)) = witness_containing(hd, &probe) {
                let mut hay = vec![];
                hay.extend(lb);
                hay.extend_from_slice(&w);
                for (s, e) in all_matches(&m, &hay) {
                    if hay[s..e].contains(&probe[0]) {
                        return Verdict::Fail(
                            Fail::new(format!(
                                "claim 2 violated: byte {:?} is declared as never occurring in a match, but find_at on {:?} reports the match {s}..{e} = {:?}\n{}",
                                Bs(vec![probe[0]]),
                                Bs(hay.clone()),
                                Bs(hay[s..e].to_vec()),
                                ctx()
                            ))
                            .fact("claim2"),
                        );
                    }
                }
                info.class("claim2_witness_not_confirmed");
            }
        }
        // claim 3: the candidate search passes over no matching line
        if let Some(lits) = &lits {
            info.nontrivial = true;
            info.class("fast_line_regex_present");
            let f_hir = Hir::alternation(lits.iter().map(|l| Hir::literal(l.clone())).collect());
            if let Some(fd) = build_dfa(&f_hir) {
                if let Some(w) = witness_h_without_f(hd, &fd, tb) {
                    if m.is_match(&w).unwrap_or(false) {
                        let mut with_term = w.clone();
                        with_term.push(pat.term.byte());
                        // (a matcher that withholds its terminator - haystack anchors - is only ever given
            // lines without their terminator)
            if candidate_none(&m, &w) || (advertised.is_some() && candidate_none(&m, &with_term)) {
                            return Verdict::Fail(nul_anchor_facts(
                                Fail::new(format!(
                                    "claim 3 violated: is_match({:?}) is true but find_candidate_line passes over the line (none of the inner literals occurs in it)\n{}",
                                    Bs(w.clone()),
                                    ctx()
                                ))
                                .fact("claim3"),
                                pat,
                                &h_hir,
                                candidate_none(&m, &w),
                            ));
                        }
                    }
                    info.class("claim3_witness_not_confirmed");
                }
            }
        }
        // claim 4: not silently altered — same answers as the matcher built
        // without a terminator on every terminator-free haystack
        let mut free = pat.clone();
        free.multiline = true;
        free.dotall = false;
        if let Ok(m2) = free.build() {
            if let Some(h2) = build_dfa(m2.verif_final_hir()) {
                info.class_if(m2.verif_final_hir() != &h_hir, "hir_narrowed_by_stripping");
                if let Some(w) = witness_disagreement(hd, &h2, tb) {
                    let a = m.find(&w).ok().flatten().map(|x| (x.start(), x.end()));
                    let b = m2.find(&w).ok().flatten().map(|x| (x.start(), x.end()));
                    if a != b {
                        return Verdict::Fail(
                            Fail::new(format!(
                                "claim 4 violated: on the terminator-free haystack {:?} the line-mode matcher finds {a:?} but the same pattern built without a line terminator finds {b:?} — the pattern was silently altered\n{}\n HIR without terminator: {}",
                                Bs(w.clone()),
                                ctx(),
                                m2.verif_final_hir()
                            ))
                            .fact("claim4"),
                        );
                    }
                    info.class("claim4_witness_not_confirmed");
                }
            }
        }
    }
    // claim 6: direct execution on sampled lines (also covers what the
    // automata cannot: huge DFAs, non-ASCII lines under Unicode word boundaries)
    for l in &case.lines {
        let w: Vec<u8> = l.0.iter().copied().filter(|b| !tb.contains(b)).collect();
        for (s, e) in all_matches(&m, &w) {
            if let Some(b) = w[s..e].iter().find(|b| n_set.contains(b)) {
                return Verdict::Fail(
                    Fail::new(format!(
                        "claim 2 violated (sampled line): byte {:?} declared non-matching occurs in the match {s}..{e} of {:?}\n{}",
                        Bs(vec![*b]),
                        Bs(w.clone()),
                        ctx()
                    ))
                    .fact("claim2"),
                );
            }
        }
        // a haystack WITH terminators: no match may contain one
        let mut joined = w.clone();
        joined.extend_from_slice(tb);
        joined.extend_from_slice(&w);
        for (s, e) in all_matches(&m, &joined) {
            if joined[s..e].iter().any(|b| tb.contains(b)) {
                return Verdict::Fail(
                    Fail::new(format!(
                        "claim 1 violated (sampled haystack): match {s}..{e} of {:?} contains the terminator\n{}",
                        Bs(joined.clone()),
                        ctx()
                    ))
                    .fact("claim1"),
                );
            }
        }
        if m.is_match(&w).unwrap_or(false) {
            let mut with_term = w.clone();
            with_term.push(pat.term.byte());
            if candidate_none(&m, &w) || (advertised.is_some() && candidate_none(&m, &with_term)) {
                let crlf_shape = !candidate_none(&m, &w) && crlf_anchor_shape(&m, pat, &h_hir, &w);
                let crlf_fact = |f: Fail| if crlf_shape { f.fact("in-context").fact("crlf-start-anchor-after-trailing-cr") } else { f };
                return Verdict::Fail(crlf_fact(nul_anchor_facts(
                    Fail::new(format!(
                        "claim 3 violated (sampled line): is_match({:?}) but find_candidate_line finds nothing in the line {} its terminator\n{}",
                        Bs(w.clone()),
                        if candidate_none(&m, &w) { "even without" } else { "followed by" },
                        ctx()
                    ))
                    .fact("claim3"),
                    pat,
                    &h_hir,
                    candidate_none(&m, &w),
                )));
            }
        }
    }
    // claim 3 in context: a matcher that advertises its line terminator is searched over whole
    // buffers (the searcher's fast path: find_candidate_line from the end of the previous
    // candidate's line); every sampled line that matches on its own must still be offered when
    // it stands between two other lines
    if advertised.is_some() {
        for l in &case.lines {
            let w: Vec<u8> = l.0.iter().copied().filter(|b| !tb.contains(b)).collect();
            if !m.is_match(&w).unwrap_or(false) {
                continue;
            }
            let term = pat.term.bytes();
            let mut buf: Vec<u8> = term.to_vec();
            let w_start = buf.len();
            buf.extend_from_slice(&w);
            let w_end = buf.len();
            buf.extend_from_slice(term);
            buf.extend_from_slice(term);
            let mut pos = 0;
            let mut offered = false;
            let mut steps = 0;
            while pos <= buf.len() && steps < 16 {
                steps += 1;
                let at = match m.find_candidate_line(&buf[pos..]) {
                    Ok(Some(LineMatchKind::Confirmed(i))) | Ok(Some(LineMatchKind::Candidate(i))) => pos + i,
                    _ => break,
                };
                if at >= w_start && at <= w_end {
                    offered = true;
                    break;
                }
                // continue after the line that contains `at`
                let tbyte = *term.last().unwrap();
                pos = buf[at.min(buf.len())..].iter().position(|b| *b == tbyte).map_or(buf.len() + 1, |k| at + k + 1);
            }
            if !offered {
                let crlf_shape = crlf_anchor_shape(&m, pat, &h_hir, &w);
                let crlf_fact = |f: Fail| if crlf_shape { f.fact("crlf-start-anchor-after-trailing-cr") } else { f };
                return Verdict::Fail(crlf_fact(nul_anchor_facts(
                    Fail::new(format!(
                        "claim 3 violated (in context): the matcher advertises its line terminator and is_match({:?}) holds, but a candidate search over the buffer {:?} (restarted after each offered line) never offers that line\n{}",
                        Bs(w.clone()),
                        Bs(buf.clone()),
                        ctx()
                    ))
                    .fact("claim3")
                    .fact("in-context"),
                    pat,
                    &h_hir,
                    false,
                )));
            }
            info.class("claim3_in_context_checked");
        }
    }
    info.class_if(
        h_hir.properties().look_set().contains(regex_syntax::hir::Look::Start) || h_hir.properties().look_set().contains(regex_syntax::hir::Look::End),
        "haystack_anchor_in_pattern",
    );
    info.class_if(pat.patterns.iter().any(|p| p.contains(['\r', '\n', '\0'])), "raw_control_byte_in_accepted_pattern");
    info.class_if(pat.ban_nul, "nul_banned");
    info.class_if(pat.case == CaseMode::Insensitive && pat.patterns.len() == 1 && pat.patterns[0].matches('|').count() >= 4, "wide_case_insensitive_alternation");
    info.class_if(pat.word, "word");
    info.class_if(pat.whole_line, "whole_line");
    info.class_if(pat.case != CaseMode::Sensitive, "case_insensitive_or_smart");
    info.class_if(pat.term == Term::Crlf, "crlf");
    info.class_if(pat.term == Term::Nul, "nul");
    info.class_if(advertised.is_none(), "terminator_withheld");
    Verdict::Pass(info)
}

// ---------- exhaustive small grammar ----------

const LEAVES: &[&str] = &["a", "b", ".", "\\s", "\\w", "[^a]", "\\b", "^", "$"];
const UNARY: &[&str] = &["*", "+", "?", "{2}"];

/// Second grammar, aimed at the inner-literal extractor: few leaves, more
/// depth (literal runs around classes and repetitions).
const LIT_LEAVES: &[&str] = &["a", "b", "[a-z]", "[ab]"];
const LIT_UNARY: &[&str] = &["+", "*", "?", "{1,2}", "{11}"];

/// All patterns with exactly `n` nodes (rendered), memoized by the caller.
fn patterns_of_size(n: usize, memo: &mut Vec<Vec<String>>) {
    patterns_of_size_over(n, memo, LEAVES, UNARY)
}

fn patterns_of_size_over(n: usize, memo: &mut Vec<Vec<String>>, leaves: &[&str], unary: &[&str]) {
    // memo[k] = patterns with k nodes (index 0 unused)
    while memo.len() <= n {
        let k = memo.len();
        let mut out = vec![];
        if k == 1 {
            out.extend(leaves.iter().map(|s| s.to_string()));
        } else if k >= 2 {
            for p in &memo[k - 1] {
                for u in unary {
                    // large counts only directly around a leaf: nested they
                    // multiply (11^depth) and compiled sizes explode
                    if u.starts_with("{1") && u.len() >= 4 && !u.contains(',') && k - 1 != 1 {
                        continue;
                    }
                    // a repetition of a repetition or of an assertion is legal regex syntax; keep it
                    out.push(format!("(?:{p}){u}"));
                }
            }
            for left in 1..k - 1 {
                let right = k - 1 - left;
                for a in &memo[left] {
                    for b in &memo[right] {
                        out.push(format!("(?:{a})(?:{b})"));
                        out.push(format!("(?:{a})|(?:{b})"));
                    }
                }
            }
        }
        memo.push(out);
    }
}

fn variants(p: &str) -> Vec<PatCfg> {
    let mut v = vec![];
    for term in [Term::Lf, Term::Crlf, Term::Nul] {
        for (case, word, whole) in [
            (CaseMode::Sensitive, false, false),
            (CaseMode::Insensitive, false, false),
            (CaseMode::Sensitive, true, false),
            (CaseMode::Sensitive, false, true),
        ] {
            let mut pc = PatCfg::simple(p, term);
            pc.case = case;
            pc.word = word;
            pc.whole_line = whole;
            v.push(pc);
        }
    }
    let mut banned = PatCfg::simple(p, Term::Lf);
    banned.ban_nul = true;
    v.push(banned);
    v
}

pub fn gen_case(t: &mut Tape) -> Case {
    let mut o = ReOpts::line_mode();
    o.allow_literal_newline = t.chance(1, 6);
    let mut pat = super::c01::gen_patcfg(t, &o);
    if t.chance(1, 6) {
        // a raw terminator byte inside a pattern (not an escape): plain-literal
        // patterns and -F take the builder's literal paths, which have their own
        // terminator test
        let raw = *t.pick(&["\r", "\n", "\0", "\r\n"]);
        let i = t.below(pat.patterns.len());
        let p = &mut pat.patterns[i];
        let cuts: Vec<usize> = p.char_indices().map(|(k, _)| k).chain(std::iter::once(p.len())).collect();
        let at = cuts[t.below(cuts.len())];
        p.insert_str(at, raw);
    }
    if !pat.fixed && t.chance(1, 10) {
        // a wide alternation of words, case-insensitively: more literals than the inner-literal
        // extractor keeps (limit_total = 64 after trimming), so it has to give up soundly
        let n = 3 + t.below(6);
        let words: Vec<String> = (0..n)
            .map(|_| {
                let len = 3 + t.below(3);
                (0..len).map(|_| *t.pick(&['a', 'b', 'c', 'k', 's', 'x', 'm', 'q'])).collect::<String>()
            })
            .collect();
        pat.patterns = vec![if t.bool() { words.join("|") } else { format!("(?:{})[0-9]", words.join("|")) }];
        pat.case = CaseMode::Insensitive;
        pat.word = t.bool();
        pat.whole_line = false;
    }
    if !pat.fixed && t.chance(1, 8) {
        // a haystack anchor on some paths through the pattern only (one alternation branch, an
        // optional position): the matcher must then either withhold its line terminator or
        // still offer every line that matches on its own
        let i = t.below(pat.patterns.len());
        let p = pat.patterns[i].clone();
        let q = *t.pick(&["b", "ab", "c", "xy"]);
        pat.patterns[i] = match t.below(5) {
            0 => format!("\\A(?:{p})|{q}"),
            1 => format!("{q}|(?:{p})\\z"),
            2 => format!("(?:\\A|x)(?:{p})"),
            3 => format!("(?:{p})(?:\\z|,)"),
            _ => format!("(?:\\A)?(?:{p})\\z|{q}"),
        };
    }
    // the way ripgrep builds its matcher whenever binary detection is on: NUL is banned
    // (patterns that must match it are rejected, classes containing it still match it)
    if pat.term != Term::Nul && t.chance(1, 4) {
        pat.ban_nul = true;
    }
    let ci = pat.case == CaseMode::Insensitive;
    let hirs: Vec<_> = pat
        .patterns
        .iter()
        .filter_map(|p| {
            let p = if pat.fixed { regex::escape(p) } else { p.clone() };
            gen::parse_hir(&p, ci, pat.unicode, pat.term == Term::Crlf, false)
        })
        .collect();
    let mut alpha = vec![];
    for h in &hirs {
        gen::literal_alphabet(h, &mut alpha);
    }
    let n = 4 + t.below(8);
    let lines = (0..n).map(|_| Bs(gen::gen_line(t, &hirs, &alpha, pat.term))).collect();
    Case { pat, lines }
}

fn corpus_patterns() -> Vec<String> {
    let path = std::path::Path::new(env!("CARGO_MANIFEST_DIR")).join("corpus/repo_patterns.txt");
    std::fs::read_to_string(path).map(|s| s.lines().filter(|l| !l.is_empty()).map(|l| l.to_string()).collect()).unwrap_or_default()
}

pub fn run(pc: &PropCtx) {
    pc.rule(
        "patterns: (i) every AST of up to N nodes over 9 leaves (a b . \\s \\w [^a] \\b ^ $), 4 repetition operators, concatenation and alternation, (ii) random larger patterns with all builder options, (iii) pattern-looking string literals scanned from the repository's tests and sources; each under LF/CRLF/NUL x {plain, -i, -w, -x}. Per accepted pattern the compiled HIR (hook) is turned into a dense DFA and automata searches produce a witness iff one exists: a match containing a terminator byte (claim 1) or a declared non-matching byte (claim 2), a terminator-free line matched by the pattern on which none of the extracted inner literals occurs (claim 3, product with the literal automaton), a terminator-free haystack on which the pattern built with and without the terminator differ (claim 4); each witness is then executed against the real matcher and only a concrete misbehaviour is a violation. Non-trivial = the matcher has a fast candidate-line regex; distinct by hash / by enumeration",
    );
    pc.assume("DFA construction (regex-automata dense DFA, Unicode word boundaries decided over ASCII only) is trusted only as a witness finder; verdicts come from find_at / is_match / find_candidate_line on the witness");
    let max_nodes = pc.tier.pick(4, 5);
    let mut memo: Vec<Vec<String>> = vec![vec![]];
    patterns_of_size(max_nodes, &mut memo);
    let pats: Vec<String> = memo.iter().skip(1).flatten().cloned().collect();
    pc.bound("enumerated_max_nodes", serde_json::json!(max_nodes));
    pc.bound("enumerated_patterns", serde_json::json!(pats.len()));
    let cases = pats.iter().flat_map(|p| variants(p)).map(|pat| Case { pat, lines: vec![] });
    pc.run_enum("enumerated_grammar", cases, check);
    let lit_nodes = pc.tier.pick(6, 7);
    let mut memo2: Vec<Vec<String>> = vec![vec![]];
    patterns_of_size_over(lit_nodes, &mut memo2, LIT_LEAVES, LIT_UNARY);
    let pats2: Vec<String> = memo2.iter().skip(1).flatten().cloned().collect();
    pc.bound("literal_grammar_max_nodes", serde_json::json!(lit_nodes));
    pc.bound("literal_grammar_patterns", serde_json::json!(pats2.len()));
    // -w adds Unicode word assertions, which is what makes the builder run
    // its own inner-literal extraction even for patterns the regex engine
    // already accelerates
    let cases = pats2.iter().flat_map(|p| {
        let plain = PatCfg::simple(p, Term::Lf);
        let mut word = plain.clone();
        word.word = true;
        [plain, word]
    }).map(|pat| Case { pat, lines: vec![] });
    pc.run_enum("literal_grammar", cases, check);
    // Third grammar: flat concatenations of tokens (literal, class, repeated
    // class, optional, small groups) — the shape "literal, skipped group,
    // literal" that the extractor's cross/choose logic has to get right.
    // (capturing groups matter: unlike non-capturing ones they are not
    // flattened into the surrounding concatenation of the HIR)
    const TOKENS: &[&str] = &["a", "b", "c", "[a-z]", "[a-z]+", "[ab]", "a?", "([a-z]+c)", "(a|bc)", "b*", "(?:[a-z]c)"];
    let cat_len = pc.tier.pick(5, 6);
    let mut cats: Vec<String> = vec![];
    let mut frontier: Vec<String> = vec![String::new()];
    for _ in 0..cat_len {
        let mut next = vec![];
        for p in &frontier {
            for tk in TOKENS {
                next.push(format!("{p}{tk}"));
            }
        }
        cats.extend(next.iter().cloned());
        frontier = next;
    }
    pc.bound("concat_grammar_max_tokens", serde_json::json!(cat_len));
    pc.bound("concat_grammar_patterns", serde_json::json!(cats.len()));
    let cases = cats.iter().map(|p| {
        let mut pat = PatCfg::simple(p, Term::Lf);
        pat.word = true;
        Case { pat, lines: vec![] }
    });
    pc.run_enum("concat_grammar", cases, check);
    let corpus = corpus_patterns();
    pc.bound("repo_corpus_patterns", serde_json::json!(corpus.len()));
    let cases = corpus.iter().flat_map(|p| variants(p)).map(|pat| {
        let hirs: Vec<_> = gen::parse_hir(&pat.patterns[0], false, true, false, false).into_iter().collect();
        // a few deterministic sampled lines: minimal samples of the language
        let zero = [0u32; 0];
        let mut t = Tape::new(&zero);
        let mut l = vec![];
        if let Some(h) = hirs.first() {
            gen::sample_hir(&mut t, h, term_bytes(pat.term), &mut l, 0);
        }
        Case { pat, lines: vec![Bs(l)] }
    });
    pc.run_enum("repo_corpus", cases, check);
    let n = pc.tier.pick(6_000, 150_000);
    pc.run_tape("random_patterns", n, (128, 1200), gen_case, check);
    if pc.tier == crate::runner::Tier::Thorough {
        pc.run_fuzz("C11:random_patterns", 6_000, 5000, &|v| replay(pc, "random_patterns", v).unwrap_or(Verdict::Reject("unreadable")));
    }
    pc.require_class("random_patterns:fast_line_regex_present", n as u64 / 40);
    pc.require_class("enumerated_grammar:dfa_built", pats.len() as u64);
}

pub fn replay(_pc: &PropCtx, _sub: &str, case: &serde_json::Value) -> Result<Verdict, String> {
    let c: Case = serde_json::from_value(case.clone()).map_err(|e| e.to_string())?;
    Ok(check(&c))
}
