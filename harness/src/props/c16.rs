//! C16 — stopping early or failing mid-stream yields a prefix of the full
//! results. Fault enumeration: for one generated search, the sink stops /
//! fails at *every* event index and the reader fails / is interrupted at
//! *every* read index.

use serde::{Deserialize, Serialize};

use crate::bs::Bs;
use crate::runner::{Fail, Info, PropCtx, Verdict};
use crate::sea::{self, Bin, Event, ReadFault, RunOut, SCfg, SinkFault, Strat, Term, READ_ERR_MSG, SINK_ERR_MSG};
use crate::tape::Tape;

use super::c02::{self, AnyM, Mat};

#[derive(Clone, Debug, Serialize, Deserialize)]
pub struct Case {
    pub mat: Mat,
    pub cfg: SCfg,
    pub input: Bs,
    pub strat: Strat,
}

pub fn run_any(m: &AnyM, cfg: &SCfg, strat: &Strat, input: &[u8], sf: Option<SinkFault>, rf: Option<ReadFault>) -> RunOut {
    use crate::mat::XAny;
    match m {
        AnyM::X(XAny::Regex(m)) => sea::run(m, cfg, strat, input, sf, rf),
        AnyM::X(XAny::X(m)) => sea::run(m, cfg, strat, input, sf, rf),
        AnyM::Re(m) => sea::run(m, cfg, strat, input, sf, rf),
    }
}

pub fn gen_case(t: &mut Tape) -> Case {
    let mut base = c02::gen_case(t);
    // keep inputs small: every event and every read becomes a fault point
    if base.input.len() > 600 {
        let cut = base.input.0[..600].iter().rposition(|b| *b == base.cfg.term.byte()).map(|i| i + 1).unwrap_or(600);
        base.input.0.truncate(cut);
    }
    let mut cfg = base.cfg.clone();
    // (the earlier search on the same searcher is repeated for every fault point: keep it short)
    if let Some(w) = &mut cfg.warm {
        w.0.truncate(300);
    }
    // binary detection on for a part of the cases, with NULs in the input
    if cfg.term != Term::Nul && t.chance(1, 4) {
        cfg.binary = if t.bool() { Bin::Quit(0) } else { Bin::Convert(0) };
        if !base.input.is_empty() && t.chance(3, 4) {
            let n = 1 + t.below(2);
            for _ in 0..n {
                let p = t.below(base.input.len());
                if base.input.0[p] != b'\n' {
                    base.input.0[p] = 0;
                }
            }
        }
        if let Mat::Re { pat } = &mut base.mat {
            pat.ban_nul = true;
        }
    }
    let strat = match t.weighted(&[3, 6, 1]) {
        0 => Strat::Slice,
        1 => Strat::Reader {
            chunks: super::c03::gen_chunks(t),
            capacity: if t.chance(1, 8) { None } else { Some(t.small(48)) },
        },
        _ => Strat::PathNoMmap,
    };
    Case { mat: base.mat, cfg, input: base.input, strat }
}

pub fn gen_case_ml(t: &mut Tape) -> Case {
    let c = super::c13::gen_case(t);
    let mut strat = c.strat;
    if let Strat::Reader { capacity, .. } = &mut strat {
        *capacity = None;
    }
    if t.chance(1, 5) {
        strat = Strat::HeapLimit { chunks: super::c03::gen_chunks(t), limit: c.input.len() + 1 + t.below(64) };
    }
    let mut cfg = c.cfg;
    if let Some(w) = &mut cfg.warm {
        w.0.truncate(300);
    }
    Case { mat: Mat::Re { pat: c.pat }, cfg, input: c.input, strat }
}

fn is_prefix(a: &[Event], b: &[Event]) -> bool {
    a.len() <= b.len() && a == &b[..a.len()]
}

pub fn check(case: &Case) -> Verdict {
    let m = match c02::build_mat(&case.mat, case.cfg.term) {
        Ok(m) => m,
        Err(_) => return Verdict::Reject("builder rejected the pattern"),
    };
    check_with(&m, case)
}

pub fn check_with(m: &AnyM, case: &Case) -> Verdict {
    let input = &case.input.0;
    if crate::gen::starts_with_bom(input) {
        return Verdict::Reject("input starts with a byte-order mark (transcoding is C17's subject)");
    }
    let full = run_any(m, &case.cfg, &case.strat, input, None, None);
    if let Err(e) = &full.result {
        return Verdict::Fail(Fail::new(format!("uninterrupted search failed: {e}\n case={case:?}")));
    }
    let l = &full.events;
    let n_body = match l.last() {
        Some(Event::Finish { .. }) => l.len() - 1,
        _ => {
            return Verdict::Fail(Fail::new(format!("uninterrupted search did not signal completion\n events={}\n case={case:?}", sea::show_events(l))))
        }
    };
    if !full.after_fault.is_empty() {
        return Verdict::Fail(Fail::new(format!("completion signalled twice\n case={case:?}")));
    }
    let body = &l[..n_body];
    let describe = |what: String, out: &RunOut| {
        Fail::new(format!(
            "{what}\n matcher={:?}\n cfg={:?}\n strategy={}\n input={:?}\n uninterrupted: {}\n this run:      {} -> {:?}\n calls after the fault: {}",
            case.mat,
            case.cfg,
            case.strat.label(),
            case.input,
            sea::show_events(l),
            sea::show_events(&out.events),
            out.result,
            sea::show_events(&out.after_fault)
        ))
        .fact(if case.cfg.multi_line { "multi_line" } else { "line_mode" })
    };
    let mut stop_points = 0u64;
    let mut kinds = std::collections::BTreeSet::new();
    for k in 0..n_body {
        kinds.insert(body[k].kind_name());
        // consumer asks to stop at event k
        let out = run_any(m, &case.cfg, &case.strat, input, Some(SinkFault::Stop(k)), None);
        stop_points += 1;
        let want_prefix = &body[..=k];
        let ok_shape = out.events.len() == k + 2
            && out.events[..=k] == *want_prefix
            && matches!(out.events.last(), Some(Event::Finish { .. }));
        if !ok_shape || !out.after_fault.is_empty() || out.result.is_err() {
            return Verdict::Fail(
                describe(
                    format!(
                        "stop requested at event #{k} ({}): expected exactly the first {} events, then one finish, nothing else, Ok",
                        body[k].kind_name(),
                        k + 1
                    ),
                    &out,
                )
                .fact(format!("stop-at:{}", body[k].kind_name())),
            );
        }
        // consumer fails at event k
        let out = run_any(m, &case.cfg, &case.strat, input, Some(SinkFault::Error(k)), None);
        stop_points += 1;
        let ok = out.events == *want_prefix
            && out.after_fault.is_empty()
            && matches!(&out.result, Err(e) if e.contains(SINK_ERR_MSG));
        if !ok {
            return Verdict::Fail(
                describe(
                    format!(
                        "sink error at event #{k} ({}): expected exactly the first {} events, no finish, and the sink's error returned",
                        body[k].kind_name(),
                        k + 1
                    ),
                    &out,
                )
                .fact(format!("error-at:{}", body[k].kind_name())),
            );
        }
    }
    let mut read_points = 0u64;
    let mut retried = 0u64;
    let effective_ml = case.cfg.multi_line && {
        use crate::mat::XAny;
        let s = sea::build_searcher(&case.cfg, &case.strat);
        match m {
            AnyM::X(XAny::Regex(m)) => s.multi_line_with_matcher(m),
            AnyM::X(XAny::X(m)) => s.multi_line_with_matcher(m),
            AnyM::Re(m) => s.multi_line_with_matcher(m),
        }
    };
    if case.strat.is_reader() {
        for j in 0..full.reads {
            for fault in [ReadFault::Error(j), ReadFault::Interrupted(j)] {
                let out = run_any(m, &case.cfg, &case.strat, input, None, Some(fault));
                read_points += 1;
                if !out.read_fault_fired {
                    // the search ended before reaching read j (cannot happen for j < reads of the full run)
                    return Verdict::Fail(describe(format!("read #{j} was never issued although the uninterrupted run issued {} reads", full.reads), &out));
                }
                let interrupted = matches!(fault, ReadFault::Interrupted(_));
                if interrupted && out.result.is_ok() && out.events == *l && out.after_fault.is_empty() {
                    // some layer retried the interrupted read: the search
                    // simply completed, which is a legal outcome as well
                    retried += 1;
                    continue;
                }
                if interrupted && effective_ml {
                    // the multi-line fill loop retries interrupted reads
                    if out.events != *l || out.result.is_err() || !out.after_fault.is_empty() {
                        return Verdict::Fail(
                            describe(format!("Interrupted at read #{j} while reading the whole input for a multi-line search: expected a retry and the full results"), &out)
                                .fact("read-interrupted"),
                        );
                    }
                    continue;
                }
                let has_finish = out.events.iter().any(|e| matches!(e, Event::Finish { .. }));
                let msg_ok = match &out.result {
                    Err(e) => interrupted || e.contains(READ_ERR_MSG),
                    Ok(()) => false,
                };
                if has_finish || !is_prefix(&out.events, body) || !msg_ok || !out.after_fault.is_empty() {
                    return Verdict::Fail(
                        describe(
                            format!(
                                "{} at read #{j}: expected a prefix of the uninterrupted results, no finish, and the reader's error returned",
                                if interrupted { "Interrupted" } else { "I/O error" }
                            ),
                            &out,
                        )
                        .fact(if interrupted { "read-interrupted" } else { "read-error" }),
                    );
                }
            }
        }
    }
    let has_ctx = body.iter().any(|e| matches!(e, Event::Context { .. }));
    let has_break = body.iter().any(|e| matches!(e, Event::Break));
    let mut info = Info::new(body.len() >= 4 && has_ctx && has_break);
    for k in kinds {
        info.class(match k {
            "begin" => "stop_at_begin",
            "match" => "stop_at_match",
            "context" => "stop_at_context",
            "break" => "stop_at_break",
            "binary" => "stop_at_binary_notice",
            _ => "stop_at_other",
        });
    }
    info.class_if(read_points > 0, "read_faults_injected");
    info.class_if(retried > 0, "interrupted_read_was_retried");
    info.class_if(read_points > 0 && retried * 2 < read_points, "interrupted_read_surfaced_as_error");
    info.class_if(case.cfg.binary != Bin::None, "binary_detection_on");
    info.class_if(case.cfg.multi_line, "multi_line");
    let _ = stop_points;
    Verdict::Pass(info)
}

// ---------- -m N at the CLI ----------

#[derive(Clone, Debug, Serialize, Deserialize)]
pub struct MaxCase {
    pub lines: Vec<Bs>,
    pub final_term: bool,
    pub max_count: usize,
    pub after: usize,
    pub before: usize,
    pub json: bool,
    pub mmap: bool,
}

pub fn gen_max_case(t: &mut Tape) -> MaxCase {
    let n = t.below(30);
    let density = 1 + t.below(5) as u32;
    let lines = (0..n)
        .map(|_| {
            let len = t.small(6);
            let mut l: Vec<u8> = (0..len).map(|_| *t.pick(&[b'o', b'p', b' '])).collect();
            if t.chance(density, 6) {
                let p = t.below(l.len() + 1);
                l.insert(p, b'x');
            }
            Bs(l)
        })
        .collect();
    MaxCase { lines, final_term: !t.chance(1, 4), max_count: t.below(6), after: t.small(4), before: t.small(3), json: t.chance(1, 3), mmap: t.bool() }
}

/// `rg -m N -A a -B b x f`: exactly the first N matching lines plus the
/// context they are entitled to (the lines following the N-th match may be
/// printed with either marker; only which lines appear, and in order, is asserted).
pub fn check_max(case: &MaxCase) -> Verdict {
    use crate::cli::{Rg, TempDir};
    let input = super::c03::input_of(&case.lines, case.final_term, Term::Lf);
    let dir = TempDir::fast("c16m");
    dir.write("f", &input);
    let mut rg = Rg::new(&dir.path).args(["--no-config", "--color", "never", "-a", "-j1", "-n", "--no-heading", "--no-filename"]);
    rg = rg.arg(if case.mmap { "--mmap" } else { "--no-mmap" });
    rg = rg.arg(format!("-m{}", case.max_count)).arg(format!("-A{}", case.after)).arg(format!("-B{}", case.before));
    if case.json {
        rg = rg.arg("--json");
    }
    rg = rg.arg("-e").arg("x").arg("f");
    let cmd = rg.cmdline();
    let out = rg.run();
    if out.timed_out {
        return Verdict::Reject("timeout (inconclusive)");
    }
    let lines = crate::model::split_lines(&input, b'\n');
    let matching: Vec<usize> = lines.iter().enumerate().filter(|(_, l)| input[l.start..l.end].contains(&b'x')).map(|(i, _)| i).collect();
    let first: Vec<usize> = matching.iter().copied().take(case.max_count).collect();
    let mut want: Vec<usize> = vec![];
    for (i, _) in lines.iter().enumerate() {
        if first.iter().any(|m| i + case.before >= *m && i <= *m + case.after) {
            want.push(i + 1);
        }
    }
    // observed line numbers, and which of them are marked as matches
    let mut got: Vec<usize> = vec![];
    let mut got_matches: Vec<usize> = vec![];
    if case.json {
        for l in out.stdout.split(|b| *b == b'\n') {
            if l.is_empty() {
                continue;
            }
            let Ok(v) = serde_json::from_slice::<serde_json::Value>(l) else {
                return Verdict::Fail(Fail::new(format!("invalid JSON line\n cmd: {cmd}")));
            };
            let ty = v["type"].as_str().unwrap_or("");
            if ty == "match" || ty == "context" {
                let n = v["data"]["line_number"].as_u64().unwrap_or(0) as usize;
                got.push(n);
                if ty == "match" {
                    got_matches.push(n);
                }
            }
        }
    } else {
        for rec in out.stdout.split(|b| *b == b'\n') {
            if rec.is_empty() || rec == b"--" {
                continue;
            }
            let d = rec.iter().take_while(|b| b.is_ascii_digit()).count();
            let Some(n) = std::str::from_utf8(&rec[..d]).ok().and_then(|x| x.parse::<usize>().ok()) else {
                return Verdict::Fail(Fail::new(format!("cannot parse record {:?}\n cmd: {cmd}", Bs(rec.to_vec()))));
            };
            got.push(n);
            if rec.get(d) == Some(&b':') {
                got_matches.push(n);
            }
        }
    }
    let fail = |msg: String| {
        Fail::new(format!(
            "{msg}\n cmd: {cmd}\n input={:?}\n matching lines: {:?}\n expected printed lines: {want:?}\n observed printed lines: {got:?} (marked as matches: {got_matches:?})\n stdout={:?}",
            Bs(input.clone()),
            matching.iter().map(|i| i + 1).collect::<Vec<_>>(),
            Bs(out.stdout[..out.stdout.len().min(800)].to_vec())
        ))
    };
    if got != want {
        return Verdict::Fail(fail(format!("-m {} -A {} -B {}: the printed lines are not the first {} matching lines plus their context", case.max_count, case.after, case.before, case.max_count)));
    }
    // the first N matching lines must be marked as matches
    for m in &first {
        if !got_matches.contains(&(m + 1)) {
            return Verdict::Fail(fail(format!("line {} is among the first {} matching lines but is not printed as a match", m + 1, case.max_count)));
        }
    }
    if got_matches.iter().any(|n| !matching.contains(&(n - 1))) {
        return Verdict::Fail(fail("a non-matching line is printed as a match".into()));
    }
    let want_status = if first.is_empty() { 1 } else { 0 };
    if out.status != Some(want_status) {
        return Verdict::Fail(fail(format!("exit status {:?}, expected {want_status}", out.status)));
    }
    let mut info = Info::new(matching.len() > case.max_count && case.max_count > 0 && case.after > 0);
    info.class_if(matching.len() > case.max_count, "limit_cuts_matches");
    info.class_if(case.max_count == 0, "max_count_zero");
    info.class_if(matching.get(case.max_count).map_or(false, |m| first.last().map_or(false, |l| *m <= l + case.after)), "further_match_inside_trailing_context");
    info.class_if(case.json, "json");
    Verdict::Pass(info)
}

pub fn run(pc: &PropCtx) {
    pc.rule(
        "for each generated search (matcher, configuration incl. binary detection, input <= 600 bytes, strategy) the uninterrupted event log L is recorded; then the sink returns stop, and separately an error, at EVERY event index of L (begin, match, context, break, binary notice), and for reader strategies the reader returns an I/O error, and separately Interrupted, at EVERY read index. Oracle: delivered == L[..=k] (+ exactly one finish after a stop, none after an error, error returned); read faults: delivered is a prefix of L, no finish, error returned. Non-trivial = |L| >= 4 with at least one context and one break event; distinct by hash. evaluations counts cases; classes count fault points by kind",
    );
    let cases = pc.tier.pick(60_000, 600_000);
    pc.run_tape("line_mode_faults", cases, (256, 3000), gen_case, check);
    let ml_cases = pc.tier.pick(45_000, 450_000);
    pc.run_tape("multi_line_faults", ml_cases, (128, 1500), gen_case_ml, check);
    pc.require_class("multi_line_faults:multi_line", ml_cases as u64 / 4);
    if pc.tier == crate::runner::Tier::Thorough {
        pc.run_fuzz("C16:line_mode_faults", 3_000, 12000, &|v| replay(pc, "line_mode_faults", v).unwrap_or(Verdict::Reject("unreadable")));
        pc.run_fuzz("C16:multi_line_faults", 3_000, 6000, &|v| replay(pc, "multi_line_faults", v).unwrap_or(Verdict::Reject("unreadable")));
    }
    pc.set_shrink_iters(300);
    let m_cases = pc.tier.pick(4_000, 60_000);
    pc.run_tape("max_count_cli", m_cases, (64, 400), gen_max_case, check_max);
    pc.require_class("max_count_cli:further_match_inside_trailing_context", m_cases as u64 / 40);
    pc.require_class("line_mode_faults:stop_at_context", cases as u64 / 20);
    pc.require_class("line_mode_faults:stop_at_break", cases as u64 / 40);
    pc.require_class("line_mode_faults:read_faults_injected", cases as u64 / 10);
}

pub fn replay(_pc: &PropCtx, _sub: &str, case: &serde_json::Value) -> Result<Verdict, String> {
    if _sub == "max_count_cli" {
        let c: MaxCase = serde_json::from_value(case.clone()).map_err(|e| e.to_string())?;
        return Ok(check_max(&c));
    }
    let c: Case = serde_json::from_value(case.clone()).map_err(|e| e.to_string())?;
    Ok(check(&c))
}
