//! One module per property.
use crate::runner::{PropCtx, Verdict};
use serde_json::Value;

pub mod c01;
pub mod c03;

pub struct Prop {
    pub id: &'static str,
    pub level: &'static str,
    pub run: fn(&PropCtx),
    pub replay: fn(&PropCtx, &str, &Value) -> Result<Verdict, String>,
}

pub const PROPS: &[Prop] = &[
    Prop { id: "C01", level: "exploration", run: c01::run, replay: c01::replay },
    Prop { id: "C03", level: "exploration", run: c03::run, replay: c03::replay },
];

pub fn find(id: &str) -> Option<&'static Prop> {
    PROPS.iter().find(|p| p.id == id)
}
