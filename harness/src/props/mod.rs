//! One module per property.
use crate::runner::{PropCtx, Verdict};
use serde_json::Value;

pub mod c01;
pub mod c02;
pub mod c03;
pub mod c04;
pub mod c05;
pub mod c06;
pub mod c07;
pub mod c08;
pub mod c09;
pub mod c10;
pub mod c11;
pub mod c12;
pub mod c13;
pub mod c14;
pub mod c15;
pub mod c16;
pub mod c17;
pub mod c18;
pub mod c19;

pub struct Prop {
    pub id: &'static str,
    pub level: &'static str,
    pub run: fn(&PropCtx),
    pub replay: fn(&PropCtx, &str, &Value) -> Result<Verdict, String>,
}

pub const PROPS: &[Prop] = &[
    Prop { id: "C01", level: "exploration", run: c01::run, replay: c01::replay },
    Prop { id: "C02", level: "exploration", run: c02::run, replay: c02::replay },
    Prop { id: "C03", level: "exploration", run: c03::run, replay: c03::replay },
    Prop { id: "C04", level: "exploration", run: c04::run, replay: c04::replay },
    Prop { id: "C05", level: "exploration", run: c05::run, replay: c05::replay },
    Prop { id: "C06", level: "exploration", run: c06::run, replay: c06::replay },
    Prop { id: "C07", level: "exploration", run: c07::run, replay: c07::replay },
    Prop { id: "C08", level: "exploration", run: c08::run, replay: c08::replay },
    Prop { id: "C09", level: "exploration", run: c09::run, replay: c09::replay },
    Prop { id: "C10", level: "exploration", run: c10::run, replay: c10::replay },
    Prop { id: "C11", level: "exploration", run: c11::run, replay: c11::replay },
    Prop { id: "C12", level: "exploration", run: c12::run, replay: c12::replay },
    Prop { id: "C13", level: "exploration", run: c13::run, replay: c13::replay },
    Prop { id: "C14", level: "exploration", run: c14::run, replay: c14::replay },
    Prop { id: "C15", level: "fault_enumeration", run: c15::run, replay: c15::replay },
    Prop { id: "C16", level: "fault_enumeration", run: c16::run, replay: c16::replay },
    Prop { id: "C17", level: "exploration", run: c17::run, replay: c17::replay },
    Prop { id: "C18", level: "fault_enumeration", run: c18::run, replay: c18::replay },
    Prop { id: "C19", level: "exploration", run: c19::run, replay: c19::replay },
];

pub fn find(id: &str) -> Option<&'static Prop> {
    PROPS.iter().find(|p| p.id == id)
}
