//! C15 — exit status and error reporting contract (CLI-level fault
//! enumeration against the real `rg` binary, run as uid/gid 65534 so that
//! mode-000 entries are really inaccessible).
//!
//! Three subchecks:
//! * `faults` — generated small trees with a generated subset of matching
//!   files and a generated set of per-file faults (mode-000 files and
//!   directories, dangling symlinks met during `-L` traversal or given
//!   explicitly, nonexistent explicit paths, a path whose read fails), one
//!   reporting mode and one thread count per case. Oracle: the decision
//!   table for the status, stderr names exactly the faulty entries, stdout
//!   equals a fault-free run on the tree minus the faulty entries (which is
//!   itself checked against a counting model).
//! * `args` — enumeration of invalid pattern / glob / encoding / flag
//!   arguments x mode x threads: status 2, empty stdout, a diagnostic.
//! * `pipe` — fault-free trees; stdout is closed after k bytes for every k
//!   (small outputs) or ~64 sampled k (outputs up to several hundred KiB):
//!   status 0, empty stderr, termination within a watchdog.

use std::collections::BTreeSet;
use std::os::unix::fs::PermissionsExt;
use std::path::Path;
use std::sync::OnceLock;
use std::time::Duration;

use serde::{Deserialize, Serialize};

use crate::bs::Bs;
use crate::cli::{Out, Rg, TempDir};
use crate::runner::{Fail, Info, PropCtx, Verdict};
use crate::tape::Tape;

const NEEDLE: &str = "needle";

// ---------------------------------------------------------------- modes ---

#[derive(Clone, Copy, Debug, PartialEq, Eq, Serialize, Deserialize)]
pub enum Mode {
    Std,
    Count,
    List,
    Quiet,
    Files,
    Json,
    FilesQuiet,
}

const MODES: [Mode; 7] = [Mode::Std, Mode::Count, Mode::List, Mode::Quiet, Mode::Files, Mode::Json, Mode::FilesQuiet];

impl Mode {
    fn name(self) -> &'static str {
        match self {
            Mode::Std => "std",
            Mode::Count => "count",
            Mode::List => "list",
            Mode::Quiet => "quiet",
            Mode::Files => "files",
            Mode::Json => "json",
            Mode::FilesQuiet => "filesquiet",
        }
    }
    fn index(self) -> usize {
        MODES.iter().position(|m| *m == self).unwrap()
    }
    /// `--files` modes list files without opening them and take no pattern.
    fn is_files(self) -> bool {
        matches!(self, Mode::Files | Mode::FilesQuiet)
    }
    fn is_quiet(self) -> bool {
        matches!(self, Mode::Quiet | Mode::FilesQuiet)
    }
    fn flags(self) -> Vec<&'static str> {
        match self {
            // -H: the record format must not depend on how many path
            // arguments are left in the reference run
            Mode::Std => vec!["-H"],
            Mode::Count => vec!["-c", "-H"],
            Mode::List => vec!["-l"],
            Mode::Quiet => vec!["-q"],
            Mode::Files => vec!["--files"],
            Mode::Json => vec!["--json"],
            Mode::FilesQuiet => vec!["--files", "-q"],
        }
    }
}

/// Class names `cell_m{0,1}_f{0,1}_{mode}_j{1,4}` as static strings.
fn cell_class(matching: bool, faulty: bool, mode: Mode, threads: u8) -> &'static str {
    static TABLE: OnceLock<Vec<&'static str>> = OnceLock::new();
    let t = TABLE.get_or_init(|| {
        let mut v = vec![];
        for m in 0..2 {
            for f in 0..2 {
                for mode in MODES {
                    for j in [1, 4] {
                        let s: &'static str = Box::leak(format!("cell_m{m}_f{f}_{}_j{j}", mode.name()).into_boxed_str());
                        v.push(s);
                    }
                }
            }
        }
        v
    });
    let j = if threads == 1 { 0 } else { 1 };
    t[((matching as usize * 2 + faulty as usize) * MODES.len() + mode.index()) * 2 + j]
}

fn mode_class(prefix: &str, mode: Mode, threads: u8) -> &'static str {
    static TABLE: OnceLock<std::sync::Mutex<std::collections::BTreeMap<String, &'static str>>> = OnceLock::new();
    let t = TABLE.get_or_init(|| std::sync::Mutex::new(Default::default()));
    let key = format!("{prefix}_{}_j{}", mode.name(), if threads == 1 { 1 } else { 4 });
    let mut g = t.lock().unwrap();
    if let Some(s) = g.get(&key) {
        return s;
    }
    let s: &'static str = Box::leak(key.clone().into_boxed_str());
    g.insert(key, s);
    s
}

// ----------------------------------------------------------------- tree ---

#[derive(Clone, Debug, Serialize, Deserialize)]
pub struct DirSpec {
    /// index of the parent directory (must be smaller than the own index)
    pub parent: Option<usize>,
    /// mode 000
    pub locked: bool,
    /// mode 0744 (only on directories that hold nothing but files): uid 65534 can list the
    /// directory but neither stat nor open what is in it - every file in it is a faulty entry
    #[serde(default)]
    pub noexec: bool,
}

#[derive(Clone, Debug, Serialize, Deserialize)]
pub struct FileSpec {
    pub dir: Option<usize>,
    /// number of lines containing the needle
    pub nmatch: u32,
    /// number of lines without it
    pub nfill: u32,
    /// padding bytes appended to every matching line
    pub pad: u32,
    /// mode 000
    pub locked: bool,
}

#[derive(Clone, Debug, Serialize, Deserialize)]
pub struct LinkSpec {
    pub dir: Option<usize>,
    /// `Some(i)`: symlink to file i; `None`: dangling
    pub target: Option<usize>,
}

/// Entry names are derived from the index (`d3`, `f0`, `l1`), so base names
/// are unique in the tree; `name_pad` appends `_xxx..` to make long paths.
#[derive(Clone, Debug, Serialize, Deserialize)]
pub struct Tree {
    pub dirs: Vec<DirSpec>,
    pub files: Vec<FileSpec>,
    pub links: Vec<LinkSpec>,
    pub name_pad: u32,
}

impl Tree {
    fn valid(&self) -> Result<(), &'static str> {
        for (i, d) in self.dirs.iter().enumerate() {
            if d.parent.map_or(false, |p| p >= i) {
                return Err("malformed tree: directory parent index");
            }
        }
        let nd = self.dirs.len();
        if self.files.iter().any(|f| f.dir.map_or(false, |d| d >= nd))
            || self.links.iter().any(|l| l.dir.map_or(false, |d| d >= nd) || l.target.map_or(false, |t| t >= self.files.len()))
        {
            return Err("malformed tree: index out of range");
        }
        if self.name_pad > 230 {
            return Err("malformed tree: name too long");
        }
        for (i, d) in self.dirs.iter().enumerate() {
            if d.noexec
                && (d.locked
                    || self.dirs.iter().any(|c| c.parent == Some(i))
                    || self.links.iter().any(|l| l.dir == Some(i) || l.target.map_or(false, |t| self.files[t].dir == Some(i))))
            {
                return Err("a list-only directory (mode 0744) may hold nothing but files that no link points to");
            }
        }
        Ok(())
    }
    fn name(&self, kind: char, i: usize) -> String {
        let mut s = format!("{kind}{i}");
        if self.name_pad > 0 {
            s.push('_');
            for _ in 0..self.name_pad {
                s.push('x');
            }
        }
        s
    }
    fn dir_rel(&self, i: usize) -> String {
        match self.dirs[i].parent {
            None => self.name('d', i),
            Some(p) => format!("{}/{}", self.dir_rel(p), self.name('d', i)),
        }
    }
    fn in_dir(&self, dir: Option<usize>, name: String) -> String {
        match dir {
            None => name,
            Some(d) => format!("{}/{}", self.dir_rel(d), name),
        }
    }
    fn file_rel(&self, i: usize) -> String {
        self.in_dir(self.files[i].dir, self.name('f', i))
    }
    fn link_rel(&self, i: usize) -> String {
        self.in_dir(self.links[i].dir, self.name('l', i))
    }
    fn depth(&self, dir: Option<usize>) -> usize {
        match dir {
            None => 0,
            Some(d) => 1 + self.depth(self.dirs[d].parent),
        }
    }
    /// Can the contents of this directory be listed (itself and all
    /// ancestors are not locked)?
    fn dir_open(&self, dir: Option<usize>) -> bool {
        match dir {
            None => true,
            Some(d) => !self.dirs[d].locked && self.dir_open(self.dirs[d].parent),
        }
    }
    /// Mode 000, or inside a directory that can be listed but not searched.
    fn file_blocked(&self, i: usize) -> bool {
        self.files[i].locked || self.files[i].dir.map_or(false, |d| self.dirs[d].noexec)
    }
    /// A file that can be reached and read.
    fn file_healthy(&self, i: usize) -> bool {
        !self.file_blocked(i) && self.dir_open(self.files[i].dir)
    }
}

fn file_content(f: &FileSpec) -> Vec<u8> {
    let mut out = Vec::with_capacity((f.nmatch as usize) * (16 + f.pad as usize) + (f.nfill as usize) * 8);
    let before = f.nfill / 2;
    for i in 0..before {
        out.extend_from_slice(format!("hay {i}\n").as_bytes());
    }
    for i in 0..f.nmatch {
        out.extend_from_slice(format!("{NEEDLE} {i}").as_bytes());
        if f.pad > 0 {
            out.push(b' ');
            out.extend(std::iter::repeat(b'p').take(f.pad as usize));
        }
        out.push(b'\n');
    }
    for i in before..f.nfill {
        out.extend_from_slice(format!("hay {i}\n").as_bytes());
    }
    out
}

fn chmod(p: &Path, mode: u32) {
    let _ = std::fs::set_permissions(p, std::fs::Permissions::from_mode(mode));
}

/// Which entries of a tree to materialise.
struct Keep {
    dirs: Vec<bool>,
    files: Vec<bool>,
    links: Vec<bool>,
}

/// Create the tree under `base` (world-readable / traversable), then apply
/// the mode-000 locks if asked.
fn build_tree(tree: &Tree, base: &Path, keep: &Keep, apply_locks: bool) {
    std::fs::create_dir_all(base).expect("create tree root");
    chmod(base, 0o755);
    for i in 0..tree.dirs.len() {
        if keep.dirs[i] {
            let p = base.join(tree.dir_rel(i));
            std::fs::create_dir_all(&p).expect("create dir");
            chmod(&p, 0o755);
        }
    }
    for (i, f) in tree.files.iter().enumerate() {
        if keep.files[i] {
            let p = base.join(tree.file_rel(i));
            std::fs::write(&p, file_content(f)).expect("write file");
            chmod(&p, 0o644);
        }
    }
    for (i, l) in tree.links.iter().enumerate() {
        if keep.links[i] {
            let p = base.join(tree.link_rel(i));
            let target = match l.target {
                None => "nowhere".to_string(),
                Some(t) => format!("{}{}", "../".repeat(tree.depth(l.dir)), tree.file_rel(t)),
            };
            std::os::unix::fs::symlink(target, &p).expect("create symlink");
        }
    }
    if apply_locks {
        for (i, f) in tree.files.iter().enumerate() {
            if keep.files[i] && f.locked {
                chmod(&base.join(tree.file_rel(i)), 0o000);
            }
        }
        // deepest first is not needed: the harness runs as root
        for (i, d) in tree.dirs.iter().enumerate() {
            if keep.dirs[i] && d.locked {
                chmod(&base.join(tree.dir_rel(i)), 0o000);
            } else if keep.dirs[i] && d.noexec {
                chmod(&base.join(tree.dir_rel(i)), 0o744);
            }
        }
    }
}

// --------------------------------------------------------- faults: case ---

#[derive(Clone, Copy, Debug, PartialEq, Eq, Serialize, Deserialize)]
pub enum Roots {
    /// `rg ... .`
    Dot,
    /// every top-level entry given explicitly
    TopLevel,
}

#[derive(Clone, Copy, Debug, PartialEq, Eq, Serialize, Deserialize)]
pub enum Extra {
    /// `nosuch`
    Missing,
    /// `nosuchdir/x`
    MissingNested,
    /// `/proc/self/mem`: opens, the first read fails with EIO
    ReadFails,
}

impl Extra {
    fn path(self) -> &'static str {
        match self {
            Extra::Missing => "nosuch",
            Extra::MissingNested => "nosuchdir/x",
            Extra::ReadFails => "/proc/self/mem",
        }
    }
}

#[derive(Clone, Debug, Serialize, Deserialize)]
pub struct FaultCase {
    pub tree: Tree,
    pub roots: Roots,
    pub extras: Vec<Extra>,
    pub extras_first: bool,
    /// `-L`
    pub follow: bool,
    pub mode: Mode,
    pub threads: u8,
    /// `--no-messages`: the per-file diagnostics are suppressed, the exit
    /// status is not
    #[serde(default)]
    pub no_messages: bool,
    /// `--stats` (search modes only): a trailer on stdout; with `-q` the search no longer stops
    /// at the first match, the exit status rules stay the same
    #[serde(default)]
    pub stats: bool,
    /// `--max-filesize 1M` (larger than every generated file: must change nothing)
    #[serde(default)]
    pub max_filesize: bool,
}

/// stdout without the `--stats` trailer (an empty line, `N matches`, ...).
fn strip_stats(stdout: &[u8]) -> Vec<u8> {
    let mut pos = 0;
    let mut cut = None;
    for line in stdout.split_inclusive(|b| *b == b'\n') {
        let text = &line[..line.len() - usize::from(line.ends_with(b"\n"))];
        if let Some(num) = text.strip_suffix(b" matches") {
            if !num.is_empty() && num.iter().all(|b| b.is_ascii_digit()) {
                cut = Some(pos);
            }
        }
        pos += line.len();
    }
    match cut {
        Some(c) => {
            let mut v = stdout[..c].to_vec();
            if v.ends_with(b"\n\n") || v == b"\n" {
                v.pop();
            }
            v
        }
        None => stdout.to_vec(),
    }
}

/// What the documentation and the property let us expect from one run.
struct Expect {
    /// paths (relative to the search directory, or absolute for extras)
    /// that must be named on stderr
    faulty: Vec<String>,
    /// a match exists in a searched file / a file is listed
    any: bool,
    /// number of output records of the fault-free reference run
    records: usize,
    /// what to materialise for the reference run
    keep: Keep,
    /// path arguments of the faulty run and of the reference run
    roots: Vec<String>,
    ref_roots: Vec<String>,
}

fn expect_faults(c: &FaultCase) -> Result<Expect, &'static str> {
    let t = &c.tree;
    t.valid()?;
    let files_mode = c.mode.is_files();
    let top = |dir: Option<usize>| dir.is_none();
    let explicit = |dir: Option<usize>| c.roots == Roots::TopLevel && top(dir);
    let mut faulty = vec![];
    let mut keep = Keep { dirs: vec![false; t.dirs.len()], files: vec![false; t.files.len()], links: vec![false; t.links.len()] };
    // searched / listed entries: number of matching lines of each
    let mut searched: Vec<u32> = vec![];
    for (i, d) in t.dirs.iter().enumerate() {
        if !t.dir_open(d.parent) {
            continue; // invisible
        }
        if d.locked {
            faulty.push(t.dir_rel(i));
        } else {
            keep.dirs[i] = true;
        }
    }
    for (i, f) in t.files.iter().enumerate() {
        if !t.dir_open(f.dir) {
            continue;
        }
        if t.file_blocked(i) && !files_mode {
            faulty.push(t.file_rel(i));
        } else {
            // --files lists a mode-000 file without opening it
            keep.files[i] = true;
            searched.push(f.nmatch);
        }
    }
    for (i, l) in t.links.iter().enumerate() {
        if !t.dir_open(l.dir) {
            continue;
        }
        let visited = c.follow || explicit(l.dir);
        match l.target {
            None => {
                if visited {
                    faulty.push(t.link_rel(i));
                } else {
                    keep.links[i] = true; // silently skipped
                }
            }
            Some(tg) => {
                if !t.file_healthy(tg) {
                    return Err("symlink to an inaccessible file (outcome depends on undocumented stat/open order)");
                }
                keep.links[i] = true;
                if visited {
                    searched.push(t.files[tg].nmatch);
                }
            }
        }
    }
    let mut roots = vec![];
    let mut ref_roots = vec![];
    match c.roots {
        Roots::Dot => {
            roots.push(".".to_string());
            ref_roots.push(".".to_string());
        }
        Roots::TopLevel => {
            for i in 0..t.files.len() {
                if top(t.files[i].dir) {
                    roots.push(t.file_rel(i));
                    if keep.files[i] {
                        ref_roots.push(t.file_rel(i));
                    }
                }
            }
            for i in 0..t.dirs.len() {
                if t.dirs[i].parent.is_none() {
                    roots.push(t.dir_rel(i));
                    if keep.dirs[i] {
                        ref_roots.push(t.dir_rel(i));
                    }
                }
            }
            for i in 0..t.links.len() {
                if top(t.links[i].dir) {
                    roots.push(t.link_rel(i));
                    if keep.links[i] {
                        ref_roots.push(t.link_rel(i));
                    }
                }
            }
        }
    }
    // explicit extra paths; `--files` lists /proc/self/mem without reading it
    let mut extras: Vec<String> = vec![];
    let mut ref_extras: Vec<String> = vec![];
    for e in &c.extras {
        let p = e.path().to_string();
        if extras.contains(&p) {
            continue;
        }
        extras.push(p.clone());
        if *e == Extra::ReadFails && files_mode {
            ref_extras.push(p);
            searched.push(0);
        } else {
            faulty.push(p);
        }
    }
    if c.extras_first {
        let mut r = extras.clone();
        r.extend(roots);
        roots = r;
        let mut r = ref_extras.clone();
        r.extend(ref_roots);
        ref_roots = r;
    } else {
        roots.extend(extras);
        ref_roots.extend(ref_extras);
    }
    if roots.is_empty() {
        return Err("no path argument (implicit path has its own 'nothing searched' diagnostic)");
    }
    let any = if files_mode { !searched.is_empty() } else { searched.iter().any(|n| *n > 0) };
    let with_match = searched.iter().filter(|n| **n > 0).count();
    let lines: usize = searched.iter().map(|n| *n as usize).sum();
    let records = match c.mode {
        Mode::Std => lines,
        Mode::Count | Mode::List => with_match,
        Mode::Files => searched.len(),
        // begin + end per file with a match, one record per matching line
        // (the summary message is not counted)
        Mode::Json => lines + 2 * with_match,
        Mode::Quiet | Mode::FilesQuiet => 0,
    };
    Ok(Expect { faulty, any, records, keep, roots, ref_roots })
}

fn expected_status(mode: Mode, any: bool, errors: bool) -> i32 {
    if mode.is_quiet() && any {
        0
    } else if errors {
        2
    } else if any {
        0
    } else {
        1
    }
}

fn base_rg(cwd: &Path, mode: Mode, threads: u8, follow: bool) -> Rg {
    let mut rg = Rg::new(cwd)
        .args(["--no-config", "--color", "never", "--no-ignore-parent"])
        .arg(format!("-j{threads}"))
        .args(mode.flags())
        .drop_uid(true);
    if follow {
        rg = rg.arg("-L");
    }
    if !mode.is_files() {
        rg = rg.args(["-e", NEEDLE]);
    }
    rg
}

fn clip(b: &[u8]) -> String {
    if b.len() <= 900 {
        format!("{:?}", Bs(b.to_vec()))
    } else {
        format!("{:?}...[{} bytes in total]", Bs(b[..900].to_vec()), b.len())
    }
}

/// Output records made comparable across runs: sorted lines; JSON messages
/// reduced to the parts that are results (no timings).
fn normalise(mode: Mode, stdout: &[u8]) -> Result<Vec<String>, String> {
    let mut recs = vec![];
    for line in stdout.split(|b| *b == b'\n') {
        if line.is_empty() {
            continue;
        }
        if mode == Mode::Json {
            let v: serde_json::Value =
                serde_json::from_slice(line).map_err(|e| format!("stdout line is not JSON ({e}): {}", clip(line)))?;
            let ty = v["type"].as_str().unwrap_or("?").to_string();
            let d = &v["data"];
            let rec = match ty.as_str() {
                "begin" => format!("begin {}", d["path"]),
                "match" | "context" => format!("{ty} {} {} {}", d["path"], d["line_number"], d["lines"]),
                "end" => format!("end {} matches={}", d["path"], d["stats"]["matches"]),
                // the trailing summary is not a per-file result (timings,
                // totals); it is present even when nothing was searched
                "summary" => continue,
                other => format!("unknown message type {other}: {v}"),
            };
            recs.push(rec);
        } else {
            recs.push(String::from_utf8_lossy(line).into_owned());
        }
    }
    recs.sort();
    Ok(recs)
}

/// Does this stderr line name `path`? Diagnostics have the shape
/// `rg: <path>: <message>`, the path as given or with the `./` of the root.
fn names(line: &str, path: &str) -> bool {
    let Some(rest) = line.strip_prefix("rg: ") else { return false };
    rest.starts_with(&format!("{path}: ")) || rest.starts_with(&format!("./{path}: "))
}

fn run_twice_on_timeout(mk: &dyn Fn() -> Rg) -> (Out, String) {
    let rg = mk();
    let cmd = rg.cmdline();
    let out = rg.run();
    if !out.timed_out {
        return (out, cmd);
    }
    let out = mk().timeout(Duration::from_secs(40)).run();
    (out, cmd)
}

pub fn check_faults(c: &FaultCase) -> Verdict {
    let ex = match expect_faults(c) {
        Ok(e) => e,
        Err(why) => return Verdict::Reject(why),
    };
    if c.threads != 1 && c.threads != 4 {
        return Verdict::Reject("thread count outside {1,4}");
    }
    let tmp = TempDir::new("c15");
    chmod(&tmp.path, 0o755);
    let full = tmp.path.join("t");
    let reduced = tmp.path.join("r");
    let all = Keep { dirs: vec![true; c.tree.dirs.len()], files: vec![true; c.tree.files.len()], links: vec![true; c.tree.links.len()] };
    build_tree(&c.tree, &full, &all, true);
    build_tree(&c.tree, &reduced, &ex.keep, false);

    let errors = !ex.faulty.is_empty();
    let want = expected_status(c.mode, ex.any, errors);
    let (out, cmd) = run_twice_on_timeout(&|| {
        let rg = base_rg(&full, c.mode, c.threads, c.follow);
        let rg = if c.no_messages { rg.arg("--no-messages") } else { rg };
        let rg = if c.stats && !c.mode.is_files() { rg.arg("--stats") } else { rg };
        let rg = if c.max_filesize { rg.args(["--max-filesize", "1M"]) } else { rg };
        rg.args(ex.roots.iter().cloned())
    });
    if out.timed_out {
        return Verdict::Reject("watchdog expired twice (inconclusive)");
    }
    let describe = |what: &str, out: &Out, extra: &str| -> String {
        format!(
            "{what}\n case: {}\n cmd (cwd = generated tree, uid 65534): {cmd}\n expected: status {want}; faulty entries that must be named on stderr: {:?}; match/listed file present: {}\n observed: status {:?}\n stdout={}\n stderr={}\n{extra}",
            serde_json::to_string(c).unwrap_or_default(),
            ex.faulty,
            ex.any,
            out.status,
            clip(&out.stdout),
            clip(&out.stderr)
        )
    };
    // 1. the status decision table
    if out.status != Some(want) {
        return Verdict::Fail(Fail::new(describe("exit status differs from the decision table", &out, "")));
    }
    // 2. stderr names the faulty entries, and only those
    let stderr = String::from_utf8_lossy(&out.stderr).into_owned();
    let lines: Vec<&str> = stderr.lines().filter(|l| !l.is_empty()).collect();
    for l in &lines {
        if !ex.faulty.iter().any(|p| names(l, p)) {
            return Verdict::Fail(Fail::new(describe(&format!("stderr line {l:?} names no entry that is expected to fail"), &out, "")));
        }
    }
    let stats = c.stats && !c.mode.is_files();
    // (with --stats a quiet search does not stop at the first match)
    let early_stop = c.mode.is_quiet() && ex.any && !stats;
    if c.no_messages {
        // --no-messages: "suppress all error messages related to opening and
        // reading files" — nothing may be printed, the status stays
        if !lines.is_empty() {
            return Verdict::Fail(Fail::new(describe("--no-messages was given but a diagnostic was printed", &out, "")));
        }
    } else if !early_stop {
        for p in &ex.faulty {
            if !lines.iter().any(|l| names(l, p)) {
                return Verdict::Fail(Fail::new(describe(&format!("no diagnostic on stderr names the faulty entry {p:?}"), &out, "")));
            }
        }
    }
    // 3. stdout: the results of all other files, as in a fault-free run on
    //    the tree minus the faulty entries
    let shown = if stats && c.mode != Mode::Json { strip_stats(&out.stdout) } else { out.stdout.clone() };
    if stats && c.mode != Mode::Json && shown.len() == out.stdout.len() {
        return Verdict::Fail(Fail::new(describe("--stats was given but stdout carries no statistics trailer", &out, "")));
    }
    let got = match normalise(c.mode, &shown) {
        Ok(r) => r,
        Err(e) => return Verdict::Fail(Fail::new(describe(&e, &out, ""))),
    };
    let mut ref_ran = false;
    let want_recs: Vec<String> = if c.mode.is_quiet() || ex.ref_roots.is_empty() {
        vec![]
    } else {
        let (rout, rcmd) = run_twice_on_timeout(&|| base_rg(&reduced, c.mode, c.threads, c.follow).args(ex.ref_roots.iter().cloned()));
        if rout.timed_out {
            return Verdict::Reject("watchdog expired twice (inconclusive)");
        }
        ref_ran = true;
        let rwant = expected_status(c.mode, ex.any, false);
        let rrecs = match normalise(c.mode, &rout.stdout) {
            Ok(r) => r,
            Err(e) => return Verdict::Fail(Fail::new(describe(&format!("reference run: {e}"), &rout, &format!(" reference cmd: {rcmd}")))),
        };
        if rout.status != Some(rwant) || !rout.stderr.is_empty() || rrecs.len() != ex.records {
            return Verdict::Fail(Fail::new(describe(
                &format!(
                    "fault-free reference run (tree minus faulty entries) disagrees with the model: expected status {rwant}, empty stderr and {} output records, got {} records",
                    ex.records,
                    rrecs.len()
                ),
                &rout,
                &format!(" reference cmd: {rcmd}"),
            )));
        }
        rrecs
    };
    if got != want_recs {
        let missing: Vec<&String> = want_recs.iter().filter(|r| !got.contains(r)).take(5).collect();
        let extra: Vec<&String> = got.iter().filter(|r| !want_recs.contains(r)).take(5).collect();
        return Verdict::Fail(Fail::new(describe(
            "stdout differs from the fault-free run on the tree minus the faulty entries",
            &out,
            &format!(" records missing: {missing:?}\n records extra: {extra:?}\n ({} expected, {} observed)", want_recs.len(), got.len()),
        )));
    }
    let mut info = Info::new(ex.any && errors);
    info.class(cell_class(ex.any, errors, c.mode, c.threads));
    info.class_if(ref_ran, "reference_run_compared");
    let t = &c.tree;
    info.class_if(t.files.iter().any(|f| f.locked && t.dir_open(f.dir)) && !c.mode.is_files(), "fault_file_mode_000");
    info.class_if(t.files.iter().any(|f| f.locked && t.dir_open(f.dir)) && c.mode.is_files(), "files_mode_lists_mode_000_file");
    info.class_if(t.dirs.iter().any(|d| d.locked && t.dir_open(d.parent)), "fault_dir_mode_000");
    info.class_if(t.dirs.iter().any(|d| d.locked && t.dir_open(d.parent) && d.parent.is_some()), "fault_dir_mode_000_nested");
    info.class_if(
        c.follow && t.links.iter().any(|l| l.target.is_none() && t.dir_open(l.dir) && !(c.roots == Roots::TopLevel && l.dir.is_none())),
        "fault_dangling_symlink_in_L_traversal",
    );
    info.class_if(
        c.roots == Roots::TopLevel && t.links.iter().any(|l| l.target.is_none() && l.dir.is_none()),
        "fault_dangling_symlink_explicit",
    );
    info.class_if(!c.follow && t.links.iter().any(|l| l.target.is_none() && t.dir_open(l.dir) && !(c.roots == Roots::TopLevel && l.dir.is_none())), "dangling_symlink_skipped_silently");
    info.class_if(c.roots == Roots::TopLevel && t.files.iter().any(|f| f.locked && f.dir.is_none()) && !c.mode.is_files(), "fault_file_mode_000_explicit");
    info.class_if(c.roots == Roots::TopLevel && t.dirs.iter().any(|d| d.locked && d.parent.is_none()), "fault_dir_mode_000_explicit");
    info.class_if(c.extras.iter().any(|e| matches!(e, Extra::Missing | Extra::MissingNested)), "fault_nonexistent_explicit_path");
    info.class_if(c.extras.contains(&Extra::ReadFails) && !c.mode.is_files(), "fault_read_error");
    info.class_if(ex.faulty.len() >= 2, "two_or_more_faults");
    info.class_if(ex.faulty.len() >= 2 && ex.any, "two_or_more_faults_and_match");
    info.class_if(early_stop && errors, "quiet_match_wins_over_error");
    info.class_if(c.mode.is_quiet() && !ex.any && errors, "quiet_without_match_reports_error");
    info.class_if(c.follow, "follow");
    info.class_if(c.no_messages && errors, "no_messages_with_error");
    info.class_if(t.dirs.iter().enumerate().any(|(i, d)| d.noexec && t.dir_open(d.parent) && t.files.iter().any(|f| f.dir == Some(i))) && !c.mode.is_files(), "fault_file_in_list_only_directory");
    info.class_if(c.max_filesize, "max_filesize_given");
    info.class_if(stats, "stats");
    info.class_if(stats && c.mode.is_quiet() && ex.any && errors, "quiet_stats_match_wins_over_error");
    info.class_if(c.roots == Roots::TopLevel, "explicit_roots");
    info.class_if(t.links.iter().any(|l| l.target.is_some()), "valid_symlink");
    Verdict::Pass(info)
}

// ---------------------------------------------------- faults: generator ---

fn gen_small_tree(t: &mut Tape, mode: Mode, fault_density: u32, match_density: u32) -> Tree {
    let n_dirs = t.small(4);
    let mut dirs = vec![];
    for i in 0..n_dirs {
        let p = t.below(i + 1);
        dirs.push(DirSpec { parent: if p == 0 { None } else { Some(p - 1) }, locked: t.chance(fault_density, 6), noexec: false });
    }
    // no file at all now and then, so that "--files lists nothing" occurs
    let empty = if mode.is_files() { t.chance(1, 3) } else { match_density == 0 && t.chance(1, 6) };
    let n_files = if empty { 0 } else { 1 + t.small(6) };
    let mut files = vec![];
    for i in 0..n_files {
        let d = if i == 0 { 0 } else { t.below(n_dirs + 1) };
        let nmatch = if t.chance(match_density, 3) { 1 + t.small(2) as u32 } else { 0 };
        files.push(FileSpec {
            dir: if d == 0 { None } else { Some(d - 1) },
            nmatch,
            nfill: t.small(3) as u32,
            pad: 0,
            locked: t.chance(fault_density, 6),
        });
    }
    let mut tree = Tree { dirs, files, links: vec![], name_pad: 0 };
    let n_links = t.small(3);
    for _ in 0..n_links {
        let d = t.below(n_dirs + 1);
        let dir = if d == 0 { None } else { Some(d - 1) };
        let healthy: Vec<usize> = (0..tree.files.len()).filter(|i| tree.file_healthy(*i)).collect();
        let dangling = fault_density > 0 && t.chance(1, 2);
        let target = if dangling || healthy.is_empty() { None } else { Some(*t.pick(&healthy)) };
        if target.is_none() && fault_density == 0 {
            continue;
        }
        tree.links.push(LinkSpec { dir, target });
    }
    // a directory that can be listed but not searched (mode 0744), where the shape allows it
    if fault_density > 0 {
        for i in 0..tree.dirs.len() {
            if t.chance(1, 2) {
                tree.dirs[i].noexec = true;
                if tree.valid().is_err() {
                    tree.dirs[i].noexec = false;
                }
            }
        }
    }
    tree
}

pub fn gen_faults(t: &mut Tape) -> FaultCase {
    let mode = *t.pick(&MODES);
    let threads = *t.pick(&[1u8, 4]);
    // 0 => no fault anywhere; otherwise each entry is faulty with d/6
    let fault_density = *t.pick(&[0u32, 1, 2, 3, 0, 2]);
    // 0 => nothing matches; otherwise each file matches with d/3
    let match_density = *t.pick(&[0u32, 1, 2, 2]);
    let tree = gen_small_tree(t, mode, fault_density, match_density);
    let follow = t.bool();
    let roots = *t.pick(&[Roots::Dot, Roots::TopLevel]);
    let mut extras = vec![];
    if fault_density > 0 {
        let n = t.weighted(&[6, 3, 1]);
        for _ in 0..n {
            extras.push(*t.pick(&[Extra::Missing, Extra::MissingNested, Extra::ReadFails]));
        }
    }
    let extras_first = t.bool();
    // (drawn last: the rest of the case does not depend on it)
    let no_messages = t.chance(1, 5);
    let stats = if mode == Mode::Quiet { t.bool() } else { t.chance(1, 5) };
    let max_filesize = t.chance(1, 3);
    FaultCase { tree, roots, extras, extras_first, follow, mode, threads, no_messages, stats, max_filesize }
}

// ------------------------------------------------------------------ args ---

#[derive(Clone, Debug, Serialize, Deserialize)]
pub struct ArgCase {
    /// regex | glob | encoding | flag | value
    pub kind: String,
    pub bad: Vec<String>,
    /// a valid `-e needle` is given as well (regex kind: in addition to the bad one)
    pub with_good_pattern: bool,
    pub bad_last: bool,
    pub mode: Mode,
    pub threads: u8,
    pub tree_has_match: bool,
    /// what is searched: "." (directory), "f0" (one explicit file), "f0 f1", "-" (stdin)
    #[serde(default)]
    pub target: String,
}

fn arg_cases() -> Vec<ArgCase> {
    let mut bads: Vec<(&str, Vec<&str>)> = vec![];
    for re in ["(", ")", "[", "[a", "\\", "a{2,1}", "(?z)", "\\p{NoSuchClass}", "*", "(?P<n>"] {
        bads.push(("regex", vec!["-e", re]));
    }
    // two patterns that are each invalid but read as one valid regex when joined with `|`
    bads.push(("regex", vec!["-e", "(a", "-e", "b)"]));
    bads.push(("regex", vec!["-e", "[a", "-e", "b]"]));
    bads.push(("regex", vec!["-e", "(needle", "-e", "hay)"]));
    for g in ["[", "[a", "{a", "[!"] {
        bads.push(("glob", vec!["-g", g]));
    }
    bads.push(("glob", vec!["--iglob", "["]));
    bads.push(("glob", vec!["--glob=[z"]));
    bads.push(("encoding", vec!["-E", "nope"]));
    bads.push(("encoding", vec!["--encoding=utf-99"]));
    bads.push(("encoding", vec!["-E", ""]));
    bads.push(("flag", vec!["--no-such-flag"]));
    bads.push(("flag", vec!["--frobnicate=1"]));
    bads.push(("flag", vec!["-%"]));
    // short flags outside ASCII, among them code points whose low byte is the name of a real flag
    // (U+0169 -> i, U+0171 -> q, U+016E -> n), alone and inside a cluster
    for f in ["-\u{169}", "-\u{171}", "-n\u{169}", "-\u{e9}", "-\u{3bb}", "-\u{16e}"] {
        bads.push(("flag", vec![f]));
    }
    bads.push(("value", vec!["-j", "x"]));
    bads.push(("value", vec!["--color=purple"]));
    bads.push(("value", vec!["-A", "x"]));
    bads.push(("value", vec!["--max-count=-1"]));
    bads.push(("value", vec!["--sort=size"]));
    bads.push(("value", vec!["-t", "nosuchtype"]));
    bads.push(("value", vec!["--type-add", "bad"]));
    bads.push(("value", vec!["--max-filesize", "1Q"]));
    let mut out = vec![];
    for (kind, bad) in &bads {
        for mode in MODES {
            for threads in [1u8, 4] {
                for tree_has_match in [true, false] {
                    for (with_good_pattern, bad_last) in [(true, false), (true, true), (false, false)] {
                        if *kind != "regex" && !with_good_pattern {
                            continue;
                        }
                        for target in [".", "f0", "f0 f1", "-"] {
                            if target == "-" && (mode.is_files() || threads != 1) {
                                continue;
                            }
                            out.push(ArgCase {
                                kind: kind.to_string(),
                                bad: bad.iter().map(|s| s.to_string()).collect(),
                                with_good_pattern,
                                bad_last,
                                mode,
                                threads,
                                tree_has_match,
                                target: target.to_string(),
                            });
                        }
                    }
                }
            }
        }
    }
    out
}

pub fn check_args(c: &ArgCase) -> Verdict {
    if c.kind == "regex" && c.mode.is_files() {
        return Verdict::Reject("--files takes no pattern: an invalid regex is never parsed");
    }
    if c.bad.is_empty() {
        return Verdict::Reject("no invalid argument in the case");
    }
    let tmp = TempDir::new("c15a");
    chmod(&tmp.path, 0o755);
    let p = tmp.write("f0", if c.tree_has_match { b"needle 0\nhay\n" } else { b"hay\n" });
    chmod(&p, 0o644);
    let p = tmp.write("f1", b"hay\n");
    chmod(&p, 0o644);
    let mk = || {
        let mut rg = Rg::new(&tmp.path)
            .args(["--no-config", "--color", "never", "--no-ignore-parent"])
            .arg(format!("-j{}", c.threads))
            .args(c.mode.flags())
            .drop_uid(true);
        if !c.bad_last {
            rg = rg.args(c.bad.iter().cloned());
        }
        if !c.mode.is_files() && c.with_good_pattern {
            rg = rg.args(["-e", NEEDLE]);
        }
        if c.bad_last {
            rg = rg.args(c.bad.iter().cloned());
        }
        match c.target.as_str() {
            "" | "." => rg.arg("."),
            "-" => rg.arg("-").stdin(if c.tree_has_match { b"needle 0\nhay\n".to_vec() } else { b"hay\n".to_vec() }),
            t => rg.args(t.split(' ')),
        }
    };
    let (out, cmd) = run_twice_on_timeout(&mk);
    if out.timed_out {
        return Verdict::Reject("watchdog expired twice (inconclusive)");
    }
    let stderr = String::from_utf8_lossy(&out.stderr);
    if out.status != Some(2) || !out.stdout.is_empty() || !stderr.starts_with("rg: ") {
        return Verdict::Fail(Fail::new(format!(
            "invalid {} argument {:?}: expected status 2, empty stdout and a diagnostic on stderr\n case: {}\n cmd: {cmd}\n observed: status {:?}\n stdout={}\n stderr={}",
            c.kind,
            c.bad,
            serde_json::to_string(c).unwrap_or_default(),
            out.status,
            clip(&out.stdout),
            clip(&out.stderr)
        )));
    }
    let mut info = Info::new(c.tree_has_match);
    info.class(match c.kind.as_str() {
        "regex" => "invalid_regex",
        "glob" => "invalid_glob",
        "encoding" => "unknown_encoding",
        "flag" => "unknown_flag",
        _ => "invalid_flag_value",
    });
    info.class(mode_class("args", c.mode, c.threads));
    info.class(match c.target.as_str() {
        "" | "." => "target_directory",
        "-" => "target_stdin",
        "f0" => "target_one_explicit_file",
        _ => "target_two_explicit_files",
    });
    Verdict::Pass(info)
}

// --------------------------------------------------------------- vanish ---

/// A file that is listed by the traversal (or named explicitly) and then
/// removed, or truncated to nothing, before ripgrep opens it. Injected by the
/// `verif-hooks` build of rg (`VERIF_FAULT_BEFORE_OPEN`, crates/core/search.rs).
#[derive(Clone, Debug, Serialize, Deserialize)]
pub struct VanishFile {
    /// 0 = top directory, 1 = sub/, 2 = sub/deep/
    pub dir: u8,
    pub matching: bool,
    /// 0 = untouched, 1 = removed before it is opened, 2 = truncated before it is opened
    pub fault: u8,
    /// content beyond one 64 KiB buffer
    pub big: bool,
}

#[derive(Clone, Debug, Serialize, Deserialize)]
pub struct VanishCase {
    pub files: Vec<VanishFile>,
    pub mode: Mode,
    pub threads: u8,
    pub mmap: bool,
    /// every file is named on the command line instead of searching `.`
    pub explicit: bool,
}

pub fn gen_vanish(t: &mut Tape) -> VanishCase {
    let n = 2 + t.below(6);
    let files = (0..n)
        .map(|_| VanishFile { dir: t.below(3) as u8, matching: t.bool(), fault: t.weighted(&[4, 2, 1]) as u8, big: t.chance(1, 10) })
        .collect();
    VanishCase {
        files,
        mode: *t.pick(&[Mode::Std, Mode::Count, Mode::List, Mode::Quiet, Mode::Json]),
        threads: if t.bool() { 1 } else { 4 },
        mmap: t.bool(),
        explicit: t.chance(1, 4),
    }
}

fn vanish_rel(i: usize, f: &VanishFile) -> String {
    format!("{}v{i}.txt", ["", "sub/", "sub/deep/"][f.dir.min(2) as usize])
}

fn vanish_content(i: usize, f: &VanishFile) -> Vec<u8> {
    let mut v = vec![];
    if f.big {
        for k in 0..6000 {
            v.extend_from_slice(format!("hay line {k}\n").as_bytes());
        }
    }
    if f.matching {
        v.extend_from_slice(format!("{NEEDLE} {i}\nhay\n").as_bytes());
    } else {
        v.extend_from_slice(format!("hay {i}\n").as_bytes());
    }
    v
}

pub fn check_vanish(c: &VanishCase) -> Verdict {
    if c.mode.is_files() {
        return Verdict::Reject("--files opens no file");
    }
    let jitter = crate::cli::rg_jitter_path();
    if jitter == crate::cli::rg_path() {
        return Verdict::Reject("the rg binary with verif-hooks has not been built");
    }
    let live = TempDir::new("c15v");
    let reference = TempDir::new("c15r");
    let mut spec = vec![];
    let mut removed: Vec<String> = vec![];
    for (i, f) in c.files.iter().enumerate() {
        let rel = vanish_rel(i, f);
        let content = vanish_content(i, f);
        live.write(&rel, &content);
        match f.fault {
            1 => {
                spec.push(format!("remove:v{i}.txt"));
                removed.push(rel.clone());
            }
            2 => {
                spec.push(format!("truncate:v{i}.txt"));
                reference.write(&rel, b"");
            }
            _ => {
                reference.write(&rel, &content);
            }
        }
    }
    // (both trees have the same directories, so that an empty directory cannot make a difference)
    for d in ["sub/deep"] {
        let _ = std::fs::create_dir_all(live.path.join(d));
        let _ = std::fs::create_dir_all(reference.path.join(d));
    }
    let mk = |cwd: &Path, faulted: bool| {
        let mut rg = Rg::new(cwd)
            .args(["--no-config", "--color", "never", "--no-ignore-parent"])
            .arg(format!("-j{}", c.threads))
            .arg(if c.mmap { "--mmap" } else { "--no-mmap" })
            .args(c.mode.flags())
            .args(["-e", NEEDLE]);
        if faulted {
            rg = rg.program(&jitter).env("VERIF_FAULT_BEFORE_OPEN", &spec.join(","));
        }
        if c.explicit {
            for (i, f) in c.files.iter().enumerate() {
                // the reference tree lacks the removed files: naming them there would be a different fault
                if faulted || f.fault != 1 {
                    rg = rg.arg(vanish_rel(i, f));
                }
            }
            rg
        } else {
            rg.arg(".")
        }
    };
    if c.explicit && c.files.iter().all(|f| f.fault == 1) {
        return Verdict::Reject("every explicit file is removed: the reference run would have no path argument");
    }
    let (r, rcmd) = run_twice_on_timeout(&|| mk(&reference.path, false));
    let (o, cmd) = run_twice_on_timeout(&|| mk(&live.path, true));
    if r.timed_out || o.timed_out {
        return Verdict::Reject("watchdog expired twice (inconclusive)");
    }
    let describe = |msg: String| {
        Fail::new(format!(
            "{msg}\n case: {}\n faulted run: VERIF_FAULT_BEFORE_OPEN={} <rg built with --features verif-hooks> {cmd}\n   status {:?}\n   stdout={}\n   stderr={}\n reference run (tree without the removed files, truncated files empty): {rcmd}\n   status {:?}\n   stdout={}\n   stderr={}",
            serde_json::to_string(c).unwrap_or_default(),
            spec.join(","),
            o.status,
            clip(&o.stdout),
            clip(&o.stderr),
            r.status,
            clip(&r.stdout),
            clip(&r.stderr)
        ))
    };
    if !r.stderr.is_empty() || !(r.status == Some(0) || r.status == Some(1)) {
        return Verdict::Fail(describe("the fault-free reference run reports an error".into()));
    }
    let any = r.status == Some(0);
    // -q stops at the first match: the files behind it are never opened
    let stops_early = c.mode.is_quiet() && any;
    let (want, got) = match (normalise(c.mode, &r.stdout), normalise(c.mode, &o.stdout)) {
        (Ok(a), Ok(b)) => (a, b),
        (Err(e), _) | (_, Err(e)) => return Verdict::Fail(describe(e)),
    };
    if want != got {
        return Verdict::Fail(describe("a file vanishing (or being emptied) between listing and opening changed the results of the other files".into()));
    }
    let stderr = String::from_utf8_lossy(&o.stderr).into_owned();
    let lines: Vec<&str> = stderr.lines().collect();
    for l in &lines {
        if !removed.iter().any(|p| names(l, p)) {
            return Verdict::Fail(describe(format!("stderr line {l:?} names none of the removed files {removed:?}")));
        }
    }
    if !stops_early {
        for p in &removed {
            let n = lines.iter().filter(|l| names(l, p)).count();
            if n != 1 {
                return Verdict::Fail(describe(format!("the removed file {p} is named by {n} diagnostics, expected exactly one")));
            }
        }
    }
    let errors = if stops_early { !lines.is_empty() } else { !removed.is_empty() };
    let want_status = expected_status(c.mode, any, errors);
    if o.status != Some(want_status) {
        return Verdict::Fail(describe(format!("exit status {:?}, expected {want_status} (match found: {any}, files removed before opening: {})", o.status, removed.len())));
    }
    let mut info = Info::new(!removed.is_empty() && any);
    info.class_if(!removed.is_empty(), "file_removed_before_open");
    info.class_if(c.files.iter().any(|f| f.fault == 2), "file_truncated_before_open");
    info.class_if(c.files.iter().any(|f| f.fault == 2 && f.matching), "truncated_file_would_have_matched");
    info.class_if(c.files.iter().any(|f| f.fault != 0 && f.big), "faulted_file_over_64KiB");
    info.class_if(c.explicit, "files_named_explicitly");
    info.class_if(c.mmap, "mmap");
    info.class_if(stops_early, "quiet_stops_at_first_match");
    info.class(mode_class("vanish", c.mode, c.threads));
    Verdict::Pass(info)
}

// ------------------------------------------------------------------ pipe ---

#[derive(Clone, Debug, Serialize, Deserialize)]
pub struct PipeCase {
    /// fault-free tree (no locks, no dangling links)
    pub tree: Tree,
    pub mode: Mode,
    pub threads: u8,
    /// every k in 0..=len is tried when len <= all_k_limit
    pub all_k_limit: u32,
    /// otherwise: fixed buffer-size related k plus these fractions of len
    pub k_seeds: Vec<u32>,
    /// search every file through `--pre cat` (the output then reaches the
    /// printer through the preprocessor's reader)
    #[serde(default)]
    pub pre: bool,
    /// with `pre`: 0 = `cat` (killed by SIGPIPE when rg stops reading), 1 = a script that ignores SIGPIPE, so
    /// that its `cat` notices the failed write itself, says so on stderr and exits 1 (what every Python
    /// preprocessor does): the consumer's departure must still end the run silently with the usual status
    #[serde(default)]
    pub pre_kind: u8,
}

const BUFFER_KS: [usize; 24] = [
    0, 1, 2, 1023, 1024, 1025, 4095, 4096, 4097, 8191, 8192, 8193, 16383, 16384, 16385, 32768, 65535, 65536, 65537, 73728, 131071, 131072, 131073, 262144,
];

fn pipe_ks(c: &PipeCase, len: usize) -> Vec<usize> {
    if len <= c.all_k_limit as usize {
        return (0..=len).collect();
    }
    let mut ks: BTreeSet<usize> = BTreeSet::new();
    for k in BUFFER_KS {
        if k <= len {
            ks.insert(k);
        }
    }
    ks.insert(len);
    ks.insert(len - 1);
    ks.insert(len / 2);
    for s in &c.k_seeds {
        if ks.len() >= 64 {
            break;
        }
        ks.insert(((*s as u64 * (len as u64 + 1)) >> 32) as usize);
    }
    ks.into_iter().collect()
}

pub fn check_pipe(c: &PipeCase) -> Verdict {
    let t = &c.tree;
    if let Err(why) = t.valid() {
        return Verdict::Reject(why);
    }
    if t.dirs.iter().any(|d| d.locked) || t.files.iter().any(|f| f.locked) || t.links.iter().any(|l| l.target.is_none()) {
        return Verdict::Reject("closed pipe combined with a per-file fault: the property does not say which status wins");
    }
    if c.threads != 1 && c.threads != 4 {
        return Verdict::Reject("thread count outside {1,4}");
    }
    let tmp = TempDir::new("c15p");
    chmod(&tmp.path, 0o755);
    let root = tmp.path.join("t");
    let all = Keep { dirs: vec![true; t.dirs.len()], files: vec![true; t.files.len()], links: vec![true; t.links.len()] };
    build_tree(t, &root, &all, false);
    let any = if c.mode.is_files() { !t.files.is_empty() } else { t.files.iter().any(|f| f.nmatch > 0) };
    let want = expected_status(c.mode, any, false);
    let script = tmp.path.join("pre.sh");
    if c.pre && c.pre_kind == 1 {
        std::fs::write(&script, "#!/bin/sh\ntrap '' PIPE\ncat \"$1\"\n").expect("write pre.sh");
        chmod(&script, 0o755);
    }
    let mk = || {
        let rg = base_rg(&root, c.mode, c.threads, false);
        let rg = if c.pre && !c.mode.is_files() {
            if c.pre_kind == 1 { rg.arg("--pre").arg(script.to_str().expect("utf-8 temp path")) } else { rg.arg("--pre").arg("cat") }
        } else {
            rg
        };
        rg.arg(".").timeout(Duration::from_secs(10))
    };
    let case_json = || serde_json::to_string(c).unwrap_or_default();

    // the uninterrupted run fixes the output length
    let (full, cmd) = run_twice_on_timeout(&mk);
    if full.timed_out {
        return Verdict::Reject("watchdog expired twice on the uninterrupted run (inconclusive)");
    }
    if full.status != Some(want) || !full.stderr.is_empty() {
        return Verdict::Fail(Fail::new(format!(
            "uninterrupted run on a fault-free tree: expected status {want} and empty stderr\n case: {}\n cmd: {cmd}\n observed: status {:?}\n stdout={}\n stderr={}",
            case_json(),
            full.status,
            clip(&full.stdout),
            clip(&full.stderr)
        )));
    }
    let len = full.stdout.len();
    let ks = pipe_ks(c, len);
    let mut forced = 0usize;
    let mut unconfirmed_timeouts = 0usize;
    for &k in &ks {
        let mut out = mk().close_stdout_after(k).run();
        if out.timed_out {
            // inconclusive unless a second run with a longer watchdog confirms
            let again = mk().close_stdout_after(k).timeout(Duration::from_secs(30)).run();
            if again.timed_out {
                return Verdict::Fail(
                    Fail::new(format!(
                        "rg did not terminate after its stdout was closed at byte {k} of {len} (watchdog 10 s, confirmed by a second run with 30 s)\n case: {}\n cmd: {cmd} | head -c {k}",
                        case_json()
                    ))
                    .fact("closed-pipe")
                    .fact("no-termination"),
                );
            }
            unconfirmed_timeouts += 1;
            out = again;
        }
        if out.stdout.len() > k {
            return Verdict::Reject("harness read more than k bytes");
        }
        if out.status != Some(want) || !out.stderr.is_empty() {
            let mut f = Fail::new(format!(
                "stdout closed by the consumer after {k} of {len} bytes: expected status {want}, no diagnostic\n case: {}\n cmd: {cmd} | head -c {k}\n observed: status {:?}, {} bytes read\n stderr={}\n (uninterrupted run: status {:?}, {len} bytes)",
                case_json(),
                out.status,
                out.stdout.len(),
                clip(&out.stderr),
                full.status
            ))
            .fact("closed-pipe");
            if out.status == Some(1) && want == 0 && out.stderr.is_empty() {
                f = f.fact("exit-status-1-although-matches-were-printed");
                if c.threads == 1 && !c.mode.is_files() {
                    // the shape of the known root cause: serial `search`
                    // breaks out of its loop before `matched` is updated
                    f = f.fact("serial-search-path");
                }
            }
            return Verdict::Fail(f);
        }
        // the writer certainly saw the closed pipe if what is left does not
        // fit into the pipe buffer
        if len - k.min(len) > 65536 {
            forced += 1;
        }
    }
    let mut info = Info::new(any && len > 0);
    info.class(mode_class("pipe", c.mode, c.threads));
    info.class_if(len <= c.all_k_limit as usize && len > 0, "every_k");
    info.class_if(len > c.all_k_limit as usize, "sampled_k");
    info.class_if(len > 8192, "output_over_8KiB");
    info.class_if(len > 65536, "output_over_64KiB");
    info.class_if(forced > 0, "epipe_certain_for_some_k");
    info.class_if(len > 8192 && c.threads == 1, "serial_output_over_8KiB");
    info.class_if(len > 8192 && c.threads == 1 && !c.mode.is_files(), "serial_search_output_over_8KiB");
    info.class_if(len > 8192 && c.threads == 4, "parallel_output_over_8KiB");
    info.class_if(len > 65536 && c.mode.is_files(), "files_mode_output_over_64KiB");
    info.class_if(!any, "nothing_to_print");
    info.class_if(c.pre && !c.mode.is_files(), "through_preprocessor");
    info.class_if(c.pre && c.pre_kind == 1 && !c.mode.is_files(), "through_preprocessor_that_reports_its_broken_pipe");
    info.class_if(c.pre && c.pre_kind == 1 && !c.mode.is_files() && len > 8192 && c.threads == 1, "serial_reporting_preprocessor_output_over_8KiB");
    info.class_if(c.pre && !c.mode.is_files() && len > 8192 && c.threads == 1, "serial_preprocessor_output_over_8KiB");
    info.class_if(unconfirmed_timeouts > 0, "timeout_not_confirmed_by_second_run");
    info.class_if(ks.len() >= 60, "k_60_or_more");
    Verdict::Pass(info)
}

pub fn gen_pipe(t: &mut Tape, all_k_limit: u32) -> PipeCase {
    let mode = MODES[t.weighted(&[6, 4, 4, 1, 5, 5, 1])];
    let threads = *t.pick(&[1u8, 4]);
    // 0 small (every k), 1 medium (10..60 KiB), 2 large (> 64 KiB),
    // 3 intermediate (0.5..4 KiB: every k in the thorough tier)
    let size = if mode.is_quiet() {
        0
    } else if mode == Mode::Files {
        // listing is cheap: more of the > 64 KiB outputs here
        [0, 1, 2, 3][t.weighted(&[4, 2, 5, 1])]
    } else {
        [0, 1, 2, 3][t.weighted(&[5, 2, 3, 1])]
    };
    let mut tree = Tree { dirs: vec![], files: vec![], links: vec![], name_pad: 0 };
    let by_lines = matches!(mode, Mode::Std | Mode::Json);
    if size == 0 {
        let n_dirs = t.small(2);
        for i in 0..n_dirs {
            let p = t.below(i + 1);
            tree.dirs.push(DirSpec { parent: if p == 0 { None } else { Some(p - 1) }, locked: false, noexec: false });
        }
        let n_files = 1 + t.small(3);
        let nothing = t.chance(1, 8);
        for i in 0..n_files {
            let d = t.below(n_dirs + 1);
            let nmatch = if nothing {
                0
            } else if i == 0 {
                1 + t.small(1) as u32
            } else {
                t.small(2) as u32
            };
            tree.files.push(FileSpec { dir: if d == 0 { None } else { Some(d - 1) }, nmatch, nfill: t.small(2) as u32, pad: 0, locked: false });
        }
    } else if by_lines {
        // output size comes from many long matching lines
        let n_dirs = t.small(2);
        for i in 0..n_dirs {
            let p = t.below(i + 1);
            tree.dirs.push(DirSpec { parent: if p == 0 { None } else { Some(p - 1) }, locked: false, noexec: false });
        }
        let n_files = 1 + t.small(3);
        for i in 0..n_files {
            let d = t.below(n_dirs + 1);
            let big = i == 0 || t.chance(1, 2);
            let nmatch = if !big {
                t.small(3) as u32
            } else if size == 3 {
                t.range(4, 20) as u32
            } else if size == 1 {
                t.range(120, 500) as u32
            } else {
                t.range(1100, 3500) as u32
            };
            tree.files.push(FileSpec {
                dir: if d == 0 { None } else { Some(d - 1) },
                nmatch,
                nfill: t.small(40) as u32,
                pad: t.range(40, 100) as u32,
                locked: false,
            });
        }
    } else {
        // -c / -l / --files: output size comes from many long paths
        tree.name_pad = t.range(150, 200) as u32;
        let n_dirs = 1 + t.below(3);
        for i in 0..n_dirs {
            let p = t.below(i + 1);
            tree.dirs.push(DirSpec { parent: if p == 0 { None } else { Some(p - 1) }, locked: false, noexec: false });
        }
        let n_files = if size == 3 {
            t.range(2, 8)
        } else if size == 1 {
            t.range(25, 70)
        } else {
            t.range(190, 420)
        };
        for _ in 0..n_files {
            let d = 1 + t.below(n_dirs);
            tree.files.push(FileSpec { dir: Some(d - 1), nmatch: if t.chance(1, 10) { 0 } else { 1 }, nfill: 0, pad: 0, locked: false });
        }
    }
    let mut k_seeds = vec![];
    for _ in 0..48 {
        k_seeds.push(t.raw());
    }
    // (drawn last so that the rest of the case does not depend on it)
    let pre = t.chance(1, 2);
    let pre_kind = if pre && t.chance(1, 2) { 1 } else { 0 };
    // (the serial driver is where a file's search itself meets the closed pipe while the preprocessor runs)
    let threads = if pre_kind == 1 && t.chance(3, 4) { 1 } else { threads };
    PipeCase { tree, mode, threads, all_k_limit, k_seeds, pre, pre_kind }
}

// ------------------------------------------------------- shrink budget ---

/// Every evaluation spawns processes (the pipe check up to ~130 of them), so
/// an unbounded proptest shrink (up to 4000 re-executions) could outlast
/// the run's watchdog and turn a violation into "inconclusive". Once the
/// first (not known) failure of a subcheck is `limit` old, cases that are
/// not already known to fail are no longer executed ("pass, unexplored"),
/// which ends the shrink at the smallest failing case found so far. The
/// reported case is always one that was really executed and failed, and it
/// is re-executed by `vcheck replay`. Nothing changes while no failure exists.
struct ShrinkBudget {
    limit: Duration,
    first_fail: std::sync::Mutex<Option<std::time::Instant>>,
    failed: std::sync::Mutex<std::collections::HashMap<String, Fail>>,
}

impl ShrinkBudget {
    fn new(limit: Duration) -> ShrinkBudget {
        ShrinkBudget { limit, first_fail: Default::default(), failed: Default::default() }
    }
    fn run<C: Serialize>(&self, pc: &PropCtx, c: &C, check: impl Fn(&C) -> Verdict) -> Verdict {
        let key = serde_json::to_string(c).unwrap_or_default();
        let started = *self.first_fail.lock().unwrap();
        if let Some(t0) = started {
            if t0.elapsed() > self.limit {
                return match self.failed.lock().unwrap().get(&key) {
                    Some(f) => Verdict::Fail(f.clone()),
                    None => Verdict::Pass(Info::new(false)),
                };
            }
        }
        let v = check(c);
        if let Verdict::Fail(f) = &v {
            if pc.strict || pc.match_known(f).is_none() {
                self.failed.lock().unwrap().insert(key, f.clone());
                self.first_fail.lock().unwrap().get_or_insert_with(std::time::Instant::now);
            }
        }
        v
    }
}

// ------------------------------------------------------------------- run ---

pub fn run(pc: &PropCtx) {
    pc.rule(
        "faults: generated tree (<= 4 dirs, <= 7 files, <= 3 symlinks; each file matches with a generated density; each entry is mode 000 / dangling with a generated density), one of 7 modes (standard, -c, -l, -q, --files, --json, --files -q), -j1 or -j4, -L or not, root '.' or every top-level entry given explicitly, optional nonexistent / unreadable explicit paths; rg runs as uid 65534. Oracle: status from the documented decision table, stderr names exactly the faulty entries, stdout equals a fault-free run on the tree minus the faulty entries (itself checked against a record-count model). Non-trivial = the run has both a matching (listed) file and a faulty entry. | args: enumeration of invalid regex / glob / encoding / flag / flag value x mode x threads x position; status 2, empty stdout, diagnostic. | vanish: 2-7 files in up to three directory levels, each removed or truncated to nothing (generated) between being listed and being opened (fault injected by the verif-hooks build of rg), 5 modes, -j1/-j4, mmap or not, '.' or every file named explicitly; stdout must equal a run on the tree without the removed files and with the truncated ones empty, stderr must name exactly the removed files once each, status from the decision table. | pipe: fault-free tree, stdout closed after k bytes for every k in 0..=len when len <= 320 (thorough: 4096), else 24 buffer-size related k plus sampled k up to 64 in total, outputs up to several hundred KiB; status 0 (1 if nothing matches), empty stderr, termination within a 10 s watchdog (a timeout counts only if a second run with 30 s also expires). Non-trivial = something is printed",
    );
    pc.assume("the harness is root and rg runs with uid/gid 65534, so mode-000 entries really fail with EACCES");
    pc.assume("/proc/self/mem can be opened by its own process and the first read fails with EIO (used as 'a path whose read fails')");
    pc.assume("-q (and --files -q) stop at the first match, so diagnostics for faulty entries are then only required to be a subset of the expected ones");
    pc.assume("--files does not open files: a mode-000 regular file is an ordinary listed file there");
    pc.bound("faults.tree", serde_json::json!({"dirs": 4, "files": 7, "links": 3}));
    let all_k_limit: u32 = pc.tier.pick(320, 4096);
    pc.bound("pipe.all_k_limit", serde_json::json!(all_k_limit));
    pc.bound("pipe.sampled_k", serde_json::json!(64));
    pc.note("not reached: a file truncated while it is being read (after it was opened); closed pipe combined with a per-file fault (the property does not say which status wins)");

    let n_faults = pc.tier.pick(3_000, 60_000);
    let budget = ShrinkBudget::new(Duration::from_secs(30));
    pc.run_tape("faults", n_faults, (16, 110), gen_faults, |c| budget.run(pc, c, check_faults));

    let args = arg_cases();
    let args: Vec<ArgCase> = match pc.tier {
        crate::runner::Tier::Thorough => args,
        // quick: every (argument, mode) pair, alternating the other dimensions
        crate::runner::Tier::Quick => args.into_iter().enumerate().filter(|(i, _)| i % 5 == 0).map(|(_, c)| c).collect(),
    };
    pc.run_enum("args", args.into_iter(), check_args);

    let n_vanish = pc.tier.pick(600, 12_000);
    pc.run_tape("vanish", n_vanish, (8, 60), gen_vanish, check_vanish);
    for c in ["file_removed_before_open", "file_truncated_before_open", "truncated_file_would_have_matched", "files_named_explicitly"] {
        pc.require_class(&format!("vanish:{c}"), pc.tier.pick(20, 400));
    }

    let n_pipe = pc.tier.pick(160, 3_200);
    let budget = ShrinkBudget::new(Duration::from_secs(60));
    pc.run_tape("pipe", n_pipe, (64, 1000), |t| gen_pipe(t, all_k_limit), |c| budget.run(pc, c, check_pipe));

    // the 2x2 table must be populated for every mode and thread count
    let floor = pc.tier.pick(8, 100);
    for m in [false, true] {
        for f in [false, true] {
            for mode in MODES {
                for j in [1u8, 4] {
                    pc.require_class(&format!("faults:{}", cell_class(m, f, mode, j)), floor);
                }
            }
        }
    }
    for c in [
        "fault_file_mode_000",
        "fault_dir_mode_000",
        "fault_dangling_symlink_in_L_traversal",
        "fault_dangling_symlink_explicit",
        "fault_nonexistent_explicit_path",
        "fault_read_error",
        "quiet_match_wins_over_error",
        "quiet_without_match_reports_error",
        "reference_run_compared",
    ] {
        pc.require_class(&format!("faults:{c}"), pc.tier.pick(20, 400));
    }
    for c in ["invalid_regex", "invalid_glob", "unknown_encoding", "unknown_flag"] {
        pc.require_class(&format!("args:{c}"), 10);
    }
    for c in ["every_k", "sampled_k", "output_over_64KiB", "epipe_certain_for_some_k", "serial_search_output_over_8KiB", "parallel_output_over_8KiB", "files_mode_output_over_64KiB"] {
        pc.require_class(&format!("pipe:{c}"), pc.tier.pick(4, 80));
    }
}

pub fn replay(_pc: &PropCtx, sub: &str, case: &serde_json::Value) -> Result<Verdict, String> {
    match sub {
        "faults" => {
            let c: FaultCase = serde_json::from_value(case.clone()).map_err(|e| e.to_string())?;
            Ok(check_faults(&c))
        }
        "args" => {
            let c: ArgCase = serde_json::from_value(case.clone()).map_err(|e| e.to_string())?;
            Ok(check_args(&c))
        }
        "pipe" => {
            let c: PipeCase = serde_json::from_value(case.clone()).map_err(|e| e.to_string())?;
            Ok(check_pipe(&c))
        }
        "vanish" => {
            let c: VanishCase = serde_json::from_value(case.clone()).map_err(|e| e.to_string())?;
            Ok(check_vanish(&c))
        }
        other => Err(format!("unknown subcheck {other}")),
    }
}
