//! C06 — single-threaded and parallel traversal report the same entries,
//! once each, and that set is what an independent recursive lister computes
//! from the documented meaning of the traversal options.
//!
//! In-process use of the `ignore` crate: `WalkBuilder::build()` against
//! `WalkBuilder::build_parallel().run(..)` (1..=16 threads) against `list`,
//! the DirLister of DESIGN.md: `std::fs::read_dir` plus its own symlink,
//! loop, device, size, depth and filter logic. None of the lister's code calls
//! walkdir or the ignore crate.

use std::collections::{BTreeMap, BTreeSet};
use std::ffi::OsStr;
use std::os::unix::fs::MetadataExt;
use std::path::{Path, PathBuf};
use std::sync::atomic::{AtomicU64, Ordering};
use std::sync::{mpsc, Arc, Mutex};
use std::time::Duration;

use ignore::{WalkBuilder, WalkState};
use serde::{Deserialize, Serialize};

use crate::cli::TempDir;
use crate::runner::{Fail, Info, PropCtx, Verdict};
use crate::tape::Tape;

// ---------------------------------------------------------------- the case

/// One step of building the tree. Paths are area-prefixed: `@T/..` lives in
/// a scratch directory under $TMPDIR (/tmp), `@S/..` in one under /dev/shm
/// (a different device). A link target is written verbatim unless it starts
/// with `@T`/`@S`, in which case the prefix is replaced by the real scratch
/// path (absolute link, used for cross-device links).
#[derive(Clone, Debug, Serialize, Deserialize, PartialEq)]
pub enum Node {
    Dir { path: String },
    File { path: String, size: u64 },
    Link { path: String, target: String },
    /// `<dir>/.ignore` with these lines (sub-grammar: `name`, `name/`, `!name`, `!name/`)
    Ignore { dir: String, lines: Vec<String> },
}

#[derive(Clone, Debug, Serialize, Deserialize, PartialEq)]
pub struct Std {
    pub hidden: bool,
    pub ignore: bool,
    pub parents: bool,
}

#[derive(Clone, Debug, Serialize, Deserialize, PartialEq)]
pub struct Opts {
    pub max_depth: Option<usize>,
    pub max_filesize: Option<u64>,
    pub follow_links: bool,
    pub same_file_system: bool,
    /// `filter_entry(|e| !reject.contains(e.file_name()))`; no filter installed when empty
    pub reject: Vec<String>,
    /// None = `standard_filters(false)`; Some = only these three switched as given
    pub std: Option<Std>,
}

#[derive(Clone, Debug, Serialize, Deserialize)]
pub struct Case {
    pub nodes: Vec<Node>,
    pub roots: Vec<String>,
    pub opts: Opts,
    pub threads: Vec<usize>,
}

// ---------------------------------------------------------------- generator

const DIR_NAMES: &[&str] = &["a", "b", "c", "A", ".hd", "a-b", "[a]", "drop.txt"];
const FILE_NAMES: &[&str] = &["x.rs", "y.txt", "drop.txt", "z.o", ".h", "a-b", "a.b", "foo.", "*.rs", "[a]", "a?", "c", "A"];
const LINK_NAMES: &[&str] = &["l0", "l1", "l2", ".hl", "drop.txt", "a", "x.rs", "b"];
const REJECT_NAMES: &[&str] = &["drop.txt", "a", "b", "x.rs", ".h", "l0", "A", "w3", "l1", ".hd"];
const RULE_NAMES: &[&str] = &["a", "b", "c", "A", "x.rs", "y.txt", "drop.txt", ".h", ".hd", "a-b", "l0", "l1", ".hl"];
const SIZES: &[u64] = &[5, 0, 1, 6, 10, 11, 100, 101, 300];

#[derive(Default)]
struct G {
    nodes: Vec<Node>,
    used: BTreeSet<String>,
    dirs: Vec<String>,
    files: Vec<String>,
    links: Vec<String>,
}

impl G {
    fn add_dir(&mut self, p: &str) -> bool {
        if !self.used.insert(p.to_string()) {
            return false;
        }
        self.nodes.push(Node::Dir { path: p.to_string() });
        self.dirs.push(p.to_string());
        true
    }
    fn add_file(&mut self, p: &str, size: u64) -> bool {
        if !self.used.insert(p.to_string()) {
            return false;
        }
        self.nodes.push(Node::File { path: p.to_string(), size });
        self.files.push(p.to_string());
        true
    }
    fn add_link(&mut self, p: &str, target: String) -> bool {
        if !self.used.insert(p.to_string()) {
            return false;
        }
        self.nodes.push(Node::Link { path: p.to_string(), target });
        self.links.push(p.to_string());
        true
    }
    fn pick_dir(&self, t: &mut Tape) -> String {
        self.dirs[t.below(self.dirs.len())].clone()
    }
}

fn depth_of(p: &str) -> usize {
    p.split('/').count()
}

/// Link text that leads from directory `from_dir` to `to` (relative inside
/// one area, area-prefixed absolute across areas).
fn link_text(from_dir: &str, to: &str) -> String {
    let a: Vec<&str> = from_dir.split('/').collect();
    let b: Vec<&str> = to.split('/').collect();
    if a[0] != b[0] {
        return to.to_string();
    }
    let mut i = 0;
    while i < a.len() && i < b.len() && a[i] == b[i] {
        i += 1;
    }
    let mut parts: Vec<&str> = vec![".."; a.len() - i];
    parts.extend(&b[i..]);
    if parts.is_empty() {
        ".".to_string()
    } else {
        parts.join("/")
    }
}

fn gen_rule(t: &mut Tape, present: &[String]) -> String {
    // mostly names that occur in the tree (and are inside the sub-grammar)
    let name: &str = if !present.is_empty() && t.chance(2, 3) { &present[t.below(present.len())] } else { *t.pick(RULE_NAMES) };
    match t.weighted(&[4, 2, 1, 1]) {
        0 => name.to_string(),
        1 => format!("!{name}"),
        2 => format!("{name}/"),
        _ => format!("!{name}/"),
    }
}

pub fn gen_case(t: &mut Tape, all_threads: bool) -> Case {
    let mut g = G::default();
    g.add_dir("@T/r0");
    // options first: the tree is biased toward what the options can see
    let use_shm = t.chance(1, 3);
    let max_depth = if t.chance(1, 2) { Some(*t.pick(&[1usize, 2, 3, 0, 4, 6])) } else { None };
    let max_filesize = if t.chance(1, 2) { Some(*t.pick(&[5u64, 0, 1, 10, 100])) } else { None };
    let follow_links = t.chance(1, 2);
    let same_file_system = if use_shm { t.chance(3, 4) } else { t.chance(1, 8) };
    let mut reject: Vec<String> = vec![];
    if t.chance(1, 2) {
        for _ in 0..1 + t.small(3) {
            let n = t.pick(REJECT_NAMES).to_string();
            if !reject.contains(&n) {
                reject.push(n);
            }
        }
    }
    let std = if t.chance(1, 3) {
        Some(Std { hidden: t.chance(2, 3), ignore: t.chance(2, 3), parents: t.chance(1, 3) })
    } else {
        None
    };

    // skeleton
    let shape = t.weighted(&[6, 1, 1]);
    if t.chance(1, 3) {
        g.add_dir("@T/r1");
    }
    if use_shm {
        g.add_dir("@S/s0");
        g.add_file("@S/s0/y.txt", *t.pick(SIZES));
        if t.bool() {
            g.add_dir("@S/s0/a");
        }
    }
    for _ in 0..2 + t.small(12) {
        let parent = g.pick_dir(t);
        if depth_of(&parent) > 6 {
            continue;
        }
        let name = *t.pick(DIR_NAMES);
        g.add_dir(&format!("{parent}/{name}"));
    }
    if shape == 1 {
        // deep chain
        let mut p = g.pick_dir(t);
        for _ in 0..t.range(5, 12) {
            p = format!("{p}/{}", *t.pick(&["a", "b", "c", "d"]));
            g.add_dir(&p);
        }
    }
    if shape == 2 {
        // wide fan-out
        let p = g.pick_dir(t);
        for i in 0..t.range(12, 40) {
            if t.chance(1, 4) {
                g.add_dir(&format!("{p}/w{i}"));
            } else {
                g.add_file(&format!("{p}/w{i}"), *t.pick(SIZES));
            }
        }
    }
    for _ in 0..2 + t.small(16) {
        let parent = g.pick_dir(t);
        let name = *t.pick(FILE_NAMES);
        g.add_file(&format!("{parent}/{name}"), *t.pick(SIZES));
    }
    // symlinks
    for _ in 0..t.small(6) {
        let parent = g.pick_dir(t);
        let name = *t.pick(LINK_NAMES);
        let path = format!("{parent}/{name}");
        let kind = t.weighted(&[3, 3, 3, 1, 1, 1, 3, 1]);
        let target = match kind {
            0 if !g.files.is_empty() => {
                let f = g.files[t.below(g.files.len())].clone();
                link_text(&parent, &f)
            }
            1 => {
                let d = g.pick_dir(t);
                link_text(&parent, &d)
            }
            2 => {
                // an ancestor of the link (its own directory included): a cycle
                let comps: Vec<&str> = parent.split('/').collect();
                let keep = t.range(2, comps.len().max(2)).min(comps.len());
                link_text(&parent, &comps[..keep].join("/"))
            }
            3 => "nope".to_string(),
            4 => name.to_string(),
            5 if !g.links.is_empty() => {
                let l = g.links[t.below(g.links.len())].clone();
                link_text(&parent, &l)
            }
            6 if use_shm => {
                // to a directory in the other area
                let other: Vec<String> = g.dirs.iter().filter(|d| d[..2] != parent[..2]).cloned().collect();
                if other.is_empty() {
                    "nope".to_string()
                } else {
                    other[t.below(other.len())].clone()
                }
            }
            7 => link_text(&parent, &parent[..2]),
            _ => {
                let d = g.pick_dir(t);
                link_text(&parent, &d)
            }
        };
        g.add_link(&path, target);
    }
    // ignore files (inert unless the `ignore` switch is on)
    let want_ignore = match &std {
        Some(s) if s.ignore => t.chance(4, 5),
        _ => t.chance(1, 5),
    };
    if want_ignore {
        let parents = std.as_ref().map_or(false, |s| s.parents);
        let present: Vec<String> = {
            let set: BTreeSet<String> = g
                .used
                .iter()
                .map(|p| name_of(p).to_string())
                .filter(|n| RULE_NAMES.contains(&n.as_str()))
                .collect();
            set.into_iter().collect()
        };
        for _ in 0..1 + t.small(2) {
            let dir = if parents && t.chance(1, 2) { "@T".to_string() } else { g.pick_dir(t) };
            if !g.used.insert(format!("{dir}/.ignore")) {
                continue;
            }
            let lines: Vec<String> = (0..1 + t.small(3)).map(|_| gen_rule(t, &present)).collect();
            g.nodes.push(Node::Ignore { dir, lines });
        }
    }
    // a directory-only rule (or its negation) aimed at a symlink: whether it applies depends on
    // what the link resolves to when links are followed, and both walkers must agree on that
    if want_ignore && t.chance(1, 2) {
        let links: Vec<String> = g
            .nodes
            .iter()
            .filter_map(|n| match n {
                Node::Link { path, .. } if path.starts_with("@T/r") => Some(path.clone()),
                _ => None,
            })
            .collect();
        if !links.is_empty() {
            let l = &links[t.below(links.len())];
            let (parent, name) = l.rsplit_once('/').unwrap();
            if !name.contains(['[', '*', '?', '\\', ' ', '!', '#']) {
                let line = match t.below(3) {
                    0 => format!("{name}/"),
                    1 => format!("!{name}/"),
                    _ => name.to_string(),
                };
                let dir = if t.bool() { parent.to_string() } else { "@T/r0".to_string() };
                let mut done = false;
                for n in g.nodes.iter_mut() {
                    if let Node::Ignore { dir: d, lines } = n {
                        if *d == dir {
                            lines.push(line.clone());
                            done = true;
                            break;
                        }
                    }
                }
                if !done && g.used.insert(format!("{dir}/.ignore")) {
                    g.nodes.push(Node::Ignore { dir, lines: vec![line] });
                }
            }
        }
    }
    // roots
    let mut roots = vec!["@T/r0".to_string()];
    let mut symlink_root = false;
    if g.used.contains("@T/r1") && t.chance(2, 3) {
        roots.push("@T/r1".to_string());
    }
    if t.chance(1, 4) {
        // a root that is a file
        if !g.files.is_empty() && t.bool() {
            roots.push(g.files[t.below(g.files.len())].clone());
        } else {
            g.add_file("@T/rf.txt", *t.pick(SIZES));
            roots.push("@T/rf.txt".to_string());
        }
    }
    if t.chance(1, 6) {
        // a root nested in another root; often one whose own name a filter would remove
        // (both walkers must treat it alike: depth 0 is exempt from the filters)
        let filtered: Vec<String> = g
            .dirs
            .iter()
            .chain(g.files.iter())
            .filter(|d| d.starts_with("@T/r") && (name_of(d).starts_with('.') || reject.iter().any(|x| x == name_of(d))))
            .cloned()
            .collect();
        let d = if !filtered.is_empty() && t.bool() { filtered[t.below(filtered.len())].clone() } else { g.pick_dir(t) };
        if !roots.contains(&d) {
            roots.push(d);
        }
    }
    let shm_way = if use_shm { t.below(3) } else { 3 };
    if shm_way == 0 && !roots.iter().any(|r| r == "@S/s0") {
        roots.push("@S/s0".to_string());
    }
    if shm_way == 1 || t.chance(1, 8) {
        // a root that is a symlink to a directory
        let target = if use_shm && (shm_way == 1 || t.bool()) { "@S/s0".to_string() } else { link_text("@T", &g.pick_dir(t)) };
        if g.add_link("@T/rl", target) {
            roots.push("@T/rl".to_string());
            symlink_root = true;
        }
    }
    if shm_way == 2 {
        // reached through an inner link (needs follow_links to matter)
        let parent = g.dirs.iter().find(|d| d.starts_with("@T")).cloned().unwrap();
        // often under a name that a filter removes
        let name: String = if !reject.is_empty() && t.chance(1, 3) {
            reject[0].clone()
        } else if std.as_ref().map_or(false, |s| s.hidden) && t.chance(1, 2) {
            ".hl".to_string()
        } else {
            t.pick(LINK_NAMES).to_string()
        };
        g.add_link(&format!("{parent}/{name}"), "@S/s0".to_string());
        if t.bool() {
            g.add_link("@S/s0/back", "@T/r0".to_string());
        }
    }
    if t.chance(1, 12) && !g.files.is_empty() {
        // a root that is a symlink to a file
        let f = g.files[t.below(g.files.len())].clone();
        if g.add_link("@T/rlf", link_text("@T", &f)) {
            roots.push("@T/rlf".to_string());
            symlink_root = true;
        }
    }
    if roots.len() > 1 && t.chance(1, 3) {
        roots.rotate_left(1);
    }
    let follow_links = if shm_way == 2 && t.chance(3, 4) { true } else { follow_links };
    let mut std = std;
    if let Some(s) = &mut std {
        if symlink_root {
            // which directories count as parents of a symlinked root is undocumented
            s.parents = false;
        }
    }
    let threads = if all_threads { (1..=16).collect() } else { vec![t.range(1, 16), t.range(1, 16)] };
    Case {
        nodes: g.nodes,
        roots,
        opts: Opts { max_depth, max_filesize, follow_links, same_file_system, reject, std },
        threads,
    }
}

// ---------------------------------------------------------------- the tree on disk

struct Env {
    t: TempDir,
    s: Option<TempDir>,
}

impl Env {
    fn real(&self, p: &str) -> Result<PathBuf, &'static str> {
        let (area, rest) = match p.find('/') {
            Some(i) => (&p[..i], &p[i + 1..]),
            None => (p, ""),
        };
        let base = match area {
            "@T" => &self.t.path,
            "@S" => match &self.s {
                Some(s) => &s.path,
                None => return Err("case uses @S but /dev/shm is not available"),
            },
            _ => return Err("path without area prefix"),
        };
        Ok(if rest.is_empty() { base.clone() } else { base.join(rest) })
    }

    fn show(&self, p: &Path) -> String {
        if let Ok(r) = p.strip_prefix(&self.t.path) {
            let r = r.to_string_lossy();
            return if r.is_empty() { "@T".to_string() } else { format!("@T/{r}") };
        }
        if let Some(s) = &self.s {
            if let Ok(r) = p.strip_prefix(&s.path) {
                let r = r.to_string_lossy();
                return if r.is_empty() { "@S".to_string() } else { format!("@S/{r}") };
            }
        }
        p.to_string_lossy().into_owned()
    }

    fn build(case: &Case) -> Result<Env, &'static str> {
        let uses_s = case.roots.iter().any(|r| r.starts_with("@S"))
            || case.nodes.iter().any(|n| match n {
                Node::Dir { path } | Node::File { path, .. } => path.starts_with("@S"),
                Node::Link { path, target } => path.starts_with("@S") || target.starts_with("@S"),
                Node::Ignore { dir, .. } => dir.starts_with("@S"),
            });
        let s = if uses_s {
            if !Path::new("/dev/shm").is_dir() {
                return Err("/dev/shm is not available");
            }
            Some(TempDir::new_in("/dev/shm", "c06s"))
        } else {
            None
        };
        let env = Env { t: TempDir::new("c06"), s };
        const BAD: &str = "tree specification cannot be materialised";
        for n in &case.nodes {
            match n {
                Node::Dir { path } => std::fs::create_dir_all(env.real(path)?).map_err(|_| BAD)?,
                Node::File { path, size } => {
                    let p = env.real(path)?;
                    if let Some(d) = p.parent() {
                        std::fs::create_dir_all(d).map_err(|_| BAD)?;
                    }
                    let f = std::fs::File::create(&p).map_err(|_| BAD)?;
                    f.set_len(*size).map_err(|_| BAD)?;
                }
                Node::Link { path, target } => {
                    let p = env.real(path)?;
                    if let Some(d) = p.parent() {
                        std::fs::create_dir_all(d).map_err(|_| BAD)?;
                    }
                    let tgt: PathBuf = if target.starts_with("@T") || target.starts_with("@S") {
                        env.real(target)?
                    } else {
                        PathBuf::from(target)
                    };
                    std::os::unix::fs::symlink(&tgt, &p).map_err(|_| BAD)?;
                }
                Node::Ignore { dir, lines } => {
                    let d = env.real(dir)?;
                    std::fs::create_dir_all(&d).map_err(|_| BAD)?;
                    let mut body = lines.join("\n");
                    body.push('\n');
                    std::fs::write(d.join(".ignore"), body).map_err(|_| BAD)?;
                }
            }
        }
        Ok(env)
    }
}

// ---------------------------------------------------------------- DirLister

/// (path, depth, is_dir)
type Key = (String, usize, bool);

#[derive(Clone, Debug)]
struct Rule {
    name: String,
    dir_only: bool,
    whitelist: bool,
}

/// Parse one `.ignore` file of the sub-grammar; None if a line is outside it.
fn parse_rules(text: &str) -> Option<Vec<Rule>> {
    let mut out = vec![];
    for line in text.lines() {
        if line.is_empty() {
            continue;
        }
        let (whitelist, rest) = match line.strip_prefix('!') {
            Some(r) => (true, r),
            None => (false, line),
        };
        let (dir_only, name) = match rest.strip_suffix('/') {
            Some(r) => (true, r),
            None => (false, rest),
        };
        if name.is_empty() || !name.bytes().all(|b| b.is_ascii_alphanumeric() || b == b'.' || b == b'-' || b == b'_') {
            return None;
        }
        out.push(Rule { name: name.to_string(), dir_only, whitelist });
    }
    Some(out)
}

#[derive(Clone, Copy, PartialEq)]
enum M {
    None,
    Ignore,
    Whitelist,
}

/// gitignore semantics for the sub-grammar: deeper files first, within a
/// file the last matching line decides.
fn match_rules(stack: &[Vec<Rule>], name: &str, is_dir: bool) -> M {
    for file in stack.iter().rev() {
        for r in file.iter().rev() {
            if r.name == name && (!r.dir_only || is_dir) {
                return if r.whitelist { M::Whitelist } else { M::Ignore };
            }
        }
    }
    M::None
}

#[derive(Default, Debug)]
struct Expect {
    /// entries every walker must report, with multiplicity
    req: BTreeMap<Key, u32>,
    /// entries the documentation leaves open (may be reported at most once)
    opt: BTreeSet<Key>,
    /// symlinks closing a cycle in a directory that is descended
    loops_req: BTreeSet<String>,
    /// ... whose own name is hidden / ignored (whether the error surfaces is not documented)
    loops_opt: BTreeSet<String>,
    /// symlinks that cannot be followed (dangling, self-referential)
    broken: BTreeSet<String>,
    n_entries: usize,
    // shape statistics of what was actually reachable
    empty_dirs: usize,
    deepest: usize,
    widest: usize,
    other_device_dirs: usize,
    /// directories on another device (same_file_system on) removed by a name filter
    filtered_other_device_dirs: usize,
    followed_dir_links: usize,
    followed_file_links: usize,
    unfollowed_links: usize,
}

const ENTRY_CAP: usize = 6000;

struct Lister<'a> {
    env: &'a Env,
    opts: &'a Opts,
    out: Expect,
}

impl<'a> Lister<'a> {
    fn emit(&mut self, p: &Path, depth: usize, is_dir: bool, optional: bool) -> Result<(), &'static str> {
        let key = (self.env.show(p), depth, is_dir);
        if optional {
            self.out.opt.insert(key);
        } else {
            *self.out.req.entry(key).or_insert(0) += 1;
        }
        self.out.n_entries += 1;
        self.out.deepest = self.out.deepest.max(depth);
        if self.out.n_entries > ENTRY_CAP {
            return Err("more than 6000 reachable entries after following links");
        }
        Ok(())
    }

    fn root(&mut self, root: &Path) -> Result<(), &'static str> {
        let md = std::fs::metadata(root).map_err(|_| "a root does not resolve (dangling or missing roots are outside the domain)")?;
        // depth 0 is the root itself; a root is reported whatever the filters say
        self.emit(root, 0, md.is_dir(), false)?;
        if !md.is_dir() {
            return Ok(());
        }
        let mut rules: Vec<Vec<Rule>> = vec![];
        if let Some(s) = &self.opts.std {
            if s.ignore && s.parents {
                let canon = std::fs::canonicalize(root).map_err(|_| "root cannot be canonicalised")?;
                let mut above: Vec<&Path> = canon.ancestors().skip(1).collect();
                above.reverse();
                for a in above {
                    let f = a.join(".ignore");
                    if let Ok(text) = std::fs::read_to_string(&f) {
                        let ours = a.starts_with(&self.env.t.path) || self.env.s.as_ref().map_or(false, |s| a.starts_with(&s.path));
                        if !ours {
                            return Err("a foreign .ignore file exists above the scratch directory");
                        }
                        rules.push(parse_rules(&text).ok_or(".ignore line outside the sub-grammar")?);
                    }
                }
            }
        }
        let anc = vec![(md.dev(), md.ino())];
        self.descend(root, 0, md.dev(), &anc, &rules)
    }

    fn descend(&mut self, dir: &Path, depth: usize, root_dev: u64, anc: &[(u64, u64)], rules: &[Vec<Rule>]) -> Result<(), &'static str> {
        if self.opts.max_depth.map_or(false, |m| depth >= m) {
            return Ok(());
        }
        let std = self.opts.std.clone();
        let mut rules: Vec<Vec<Rule>> = rules.to_vec();
        if std.as_ref().map_or(false, |s| s.ignore) {
            if let Ok(text) = std::fs::read_to_string(dir.join(".ignore")) {
                rules.push(parse_rules(&text).ok_or(".ignore line outside the sub-grammar")?);
            }
        }
        let mut names: Vec<std::ffi::OsString> = std::fs::read_dir(dir)
            .map_err(|_| "lister cannot read a directory")?
            .map(|e| e.map(|e| e.file_name()))
            .collect::<Result<_, _>>()
            .map_err(|_| "lister cannot read a directory")?;
        names.sort();
        if names.is_empty() {
            self.out.empty_dirs += 1;
        }
        self.out.widest = self.out.widest.max(names.len());
        for name in names {
            let p = dir.join(&name);
            let name = name.to_string_lossy().into_owned();
            let lmd = std::fs::symlink_metadata(&p).map_err(|_| "lister cannot stat an entry")?;
            let is_link = lmd.file_type().is_symlink();
            let std_skip = |is_dir: bool| -> bool {
                match &std {
                    None => false,
                    Some(s) => {
                        let m = if s.ignore { match_rules(&rules, &name, is_dir) } else { M::None };
                        match m {
                            M::Ignore => true,
                            M::Whitelist => false,
                            M::None => s.hidden && name.starts_with('.'),
                        }
                    }
                }
            };
            let (md, followed) = if is_link && self.opts.follow_links {
                match std::fs::metadata(&p) {
                    Ok(md) => (md, true),
                    Err(_) => {
                        // cannot be followed: an error, not an entry
                        self.out.broken.insert(self.env.show(&p));
                        continue;
                    }
                }
            } else {
                (lmd.clone(), false)
            };
            let is_dir = md.is_dir();
            if followed && is_dir && anc.contains(&(md.dev(), md.ino())) {
                // a link cycle: reported as an error, never descended
                if std_skip(true) {
                    self.out.loops_opt.insert(self.env.show(&p));
                } else {
                    self.out.loops_req.insert(self.env.show(&p));
                }
                continue;
            }
            let other_device_dir = is_dir && self.opts.same_file_system && md.dev() != root_dev;
            if std_skip(is_dir) {
                if other_device_dir {
                    self.out.filtered_other_device_dirs += 1;
                }
                continue;
            }
            let mut optional = false;
            if let (Some(max), false) = (self.opts.max_filesize, is_dir) {
                let too_big = md.len() > max;
                if is_link && !followed {
                    // The limit is documented for "the size of the file"; for a
                    // link that is not followed the walkers use the link's own
                    // size. Where the target's size would decide differently
                    // the lister accepts both.
                    let by_target = std::fs::metadata(&p).ok().filter(|m| !m.is_dir()).map(|m| m.len() > max);
                    match by_target {
                        Some(tb) if tb != too_big => optional = true,
                        _ => {
                            if too_big {
                                continue;
                            }
                        }
                    }
                } else if too_big {
                    continue;
                }
            }
            if self.opts.reject.iter().any(|r| *r == name) {
                if other_device_dir {
                    self.out.filtered_other_device_dirs += 1;
                }
                continue;
            }
            self.emit(&p, depth + 1, is_dir, optional)?;
            if is_link {
                if !followed {
                    self.out.unfollowed_links += 1;
                } else if is_dir {
                    self.out.followed_dir_links += 1;
                } else {
                    self.out.followed_file_links += 1;
                }
            }
            if is_dir {
                if other_device_dir {
                    // reported, but its contents are on another file system
                    self.out.other_device_dirs += 1;
                    continue;
                }
                let mut anc2 = anc.to_vec();
                anc2.push((md.dev(), md.ino()));
                self.descend(&p, depth + 1, root_dev, &anc2, &rules)?;
            }
        }
        Ok(())
    }
}

fn list(env: &Env, roots: &[PathBuf], opts: &Opts) -> Result<Expect, &'static str> {
    let mut l = Lister { env, opts, out: Expect::default() };
    for r in roots {
        l.root(r)?;
    }
    Ok(l.out)
}

// ---------------------------------------------------------------- the walkers

#[derive(Default, Debug, Clone)]
struct Walked {
    entries: Vec<Key>,
    loops: Vec<String>,
    io_errs: Vec<String>,
    other_errs: Vec<String>,
    /// the harness stopped the walk: it had reported more than `budget` items
    truncated: bool,
}

impl Walked {
    fn items(&self) -> usize {
        self.entries.len() + self.loops.len() + self.io_errs.len() + self.other_errs.len()
    }
}

fn classify(err: &ignore::Error, path: Option<&Path>, show: &dyn Fn(&Path) -> String, w: &mut Walked) {
    use ignore::Error as E;
    match err {
        E::Partial(v) => {
            for e in v {
                classify(e, path, show, w);
            }
        }
        E::WithLineNumber { err, .. } | E::WithDepth { err, .. } => classify(err, path, show, w),
        E::WithPath { path: p, err } => classify(err, Some(p), show, w),
        E::Loop { child, .. } => w.loops.push(show(child)),
        E::Io(e) => w.io_errs.push(format!("{}: {e}", path.map(|p| show(p)).unwrap_or_default())),
        other => w.other_errs.push(other.to_string()),
    }
}

fn builder(roots: &[PathBuf], opts: &Opts) -> WalkBuilder {
    let mut b = WalkBuilder::new(&roots[0]);
    for r in &roots[1..] {
        b.add(r);
    }
    b.standard_filters(false);
    if let Some(s) = &opts.std {
        b.hidden(s.hidden).ignore(s.ignore).parents(s.parents);
    }
    b.max_depth(opts.max_depth);
    b.max_filesize(opts.max_filesize);
    b.follow_links(opts.follow_links);
    b.same_file_system(opts.same_file_system);
    if !opts.reject.is_empty() {
        let rej = opts.reject.clone();
        b.filter_entry(move |e| !rej.iter().any(|n| e.file_name() == OsStr::new(n)));
    }
    b
}

fn observe_entry(e: &ignore::DirEntry, show: &dyn Fn(&Path) -> String, w: &mut Walked) {
    let ft = e.file_type();
    let mut is_dir = ft.map_or(false, |t| t.is_dir());
    if e.depth() == 0 && ft.map_or(false, |t| t.is_symlink()) {
        // The serial walker reports the file type of a symlinked root as
        // "symlink", the parallel one as the target's type; the property
        // does not speak about file types, so both are normalised to what
        // the root resolves to.
        is_dir = std::fs::metadata(e.path()).map_or(false, |m| m.is_dir());
    }
    w.entries.push((show(e.path()), e.depth(), is_dir));
    if let Some(err) = e.error() {
        classify(err, Some(e.path()), show, w);
    }
}

/// threads = None: `build()`; Some(n): `threads(n).build_parallel().run(..)`
///
/// `budget`: a walk that has reported more items than this is stopped by the
/// harness (a walker that runs away through a link cycle then shows up as
/// "extra entries" at once instead of as a watchdog expiry much later).
fn walk(roots: &[PathBuf], opts: &Opts, tdir: &Path, sdir: Option<&Path>, threads: Option<usize>, budget: usize) -> Walked {
    let tdir = tdir.to_path_buf();
    let sdir = sdir.map(|p| p.to_path_buf());
    let show = move |p: &Path| -> String {
        if let Ok(r) = p.strip_prefix(&tdir) {
            let r = r.to_string_lossy();
            return if r.is_empty() { "@T".to_string() } else { format!("@T/{r}") };
        }
        if let Some(s) = &sdir {
            if let Ok(r) = p.strip_prefix(s) {
                let r = r.to_string_lossy();
                return if r.is_empty() { "@S".to_string() } else { format!("@S/{r}") };
            }
        }
        p.to_string_lossy().into_owned()
    };
    let mut b = builder(roots, opts);
    match threads {
        None => {
            let mut w = Walked::default();
            for r in b.build() {
                match r {
                    Ok(e) => observe_entry(&e, &show, &mut w),
                    Err(err) => classify(&err, None, &show, &mut w),
                }
                if w.items() > budget {
                    w.truncated = true;
                    break;
                }
            }
            w
        }
        Some(n) => {
            let out = Arc::new(Mutex::new(Walked::default()));
            let show = Arc::new(show);
            b.threads(n).build_parallel().run(|| {
                let out = out.clone();
                let show = show.clone();
                Box::new(move |r| {
                    let mut w = out.lock().unwrap();
                    match r {
                        Ok(e) => observe_entry(&e, &*show, &mut w),
                        Err(err) => classify(&err, None, &*show, &mut w),
                    }
                    if w.items() > budget {
                        w.truncated = true;
                        return WalkState::Quit;
                    }
                    WalkState::Continue
                })
            });
            let w = out.lock().unwrap().clone();
            w
        }
    }
}

/// Number of walks that exceeded the watchdog once but finished when repeated.
static UNCONFIRMED_TIMEOUTS: AtomicU64 = AtomicU64::new(0);
const WATCHDOG: Duration = Duration::from_secs(30);

/// Run one walk on its own thread; None = the watchdog expired.
fn walk_guarded(roots: &[PathBuf], opts: &Opts, env: &Env, threads: Option<usize>, budget: usize) -> Option<Walked> {
    let (tx, rx) = mpsc::channel();
    let roots = roots.to_vec();
    let opts = opts.clone();
    let tdir = env.t.path.clone();
    let sdir = env.s.as_ref().map(|s| s.path.clone());
    std::thread::Builder::new()
        .stack_size(16 << 20)
        .spawn(move || {
            let w = walk(&roots, &opts, &tdir, sdir.as_deref(), threads, budget);
            let _ = tx.send(w);
        })
        .expect("spawn walker thread");
    rx.recv_timeout(WATCHDOG).ok()
}

// ---------------------------------------------------------------- the check

fn multiset(v: &[Key]) -> BTreeMap<Key, u32> {
    let mut m = BTreeMap::new();
    for k in v {
        *m.entry(k.clone()).or_insert(0) += 1;
    }
    m
}

/// a − b as a list with multiplicities
fn minus(a: &BTreeMap<Key, u32>, b: &BTreeMap<Key, u32>) -> Vec<Key> {
    let mut out = vec![];
    for (k, n) in a {
        let m = b.get(k).copied().unwrap_or(0);
        for _ in m..*n {
            out.push(k.clone());
        }
    }
    out
}

fn show_keys(v: &[Key]) -> String {
    if v.is_empty() {
        return "(none)".to_string();
    }
    let mut s = v.iter().take(12).map(|(p, d, dir)| format!("{p}{} @depth {d}", if *dir { "/" } else { "" })).collect::<Vec<_>>().join(", ");
    if v.len() > 12 {
        s.push_str(&format!(", ... ({} in all)", v.len()));
    }
    s
}

fn describe(case: &Case) -> String {
    let o = &case.opts;
    let mut s = String::new();
    s.push_str(&format!(
        " options: max_depth={:?} max_filesize={:?} follow_links={} same_file_system={} filter_entry rejects names {:?}; standard filters: {}\n",
        o.max_depth,
        o.max_filesize,
        o.follow_links,
        o.same_file_system,
        o.reject,
        match &o.std {
            None => "all off".to_string(),
            Some(x) => format!("hidden={} ignore={} parents={} (git_* off)", x.hidden, x.ignore, x.parents),
        }
    ));
    s.push_str(&format!(" roots: {:?}   (@T = scratch dir under $TMPDIR, @S = scratch dir under /dev/shm, another device)\n", case.roots));
    s.push_str(" tree, created in this order:\n");
    for n in &case.nodes {
        match n {
            Node::Dir { path } => s.push_str(&format!("   mkdir -p {path}\n")),
            Node::File { path, size } => s.push_str(&format!("   truncate -s {size} {path}\n")),
            Node::Link { path, target } => s.push_str(&format!("   ln -s {target} {path}\n")),
            Node::Ignore { dir, lines } => s.push_str(&format!("   printf '%s\\n' {:?} > {dir}/.ignore\n", lines)),
        }
    }
    s.push_str(" reproduce: ignore::WalkBuilder::new(roots[0]) + add(roots[1..]), standard_filters(false) then the switches above, max_depth/max_filesize/follow_links/same_file_system as above, filter_entry(|e| !rejects.contains(e.file_name())); compare .build() with .threads(n).build_parallel().run(..); or `vcheck replay <this file>`\n");
    s
}

fn name_of(p: &str) -> &str {
    p.rsplit('/').next().unwrap_or(p)
}

pub fn check(case: &Case) -> Verdict {
    // ---- domain
    if case.roots.is_empty() || case.threads.is_empty() {
        return Verdict::Reject("no roots or no thread counts");
    }
    if case.threads.iter().any(|n| *n == 0 || *n > 16) {
        return Verdict::Reject("thread count outside 1..=16");
    }
    {
        let mut seen = BTreeSet::new();
        if !case.roots.iter().all(|r| seen.insert(r.clone())) {
            return Verdict::Reject("the same root given twice");
        }
    }
    let o = &case.opts;
    let link_paths: BTreeSet<&str> = case
        .nodes
        .iter()
        .filter_map(|n| match n {
            Node::Link { path, .. } => Some(path.as_str()),
            _ => None,
        })
        .collect();
    // Both walkers exempt depth 0 from every filter, but the documentation
    // does not say so: for a root whose own name a filter would remove the
    // independent lister abstains; the two walkers must still agree with
    // each other (and report nothing twice).
    let mut lister_silent: Option<&'static str> = None;
    for r in &case.roots {
        let n = name_of(r);
        if o.reject.iter().any(|x| x == n) {
            lister_silent = Some("a root's own name is rejected by the entry filter (undocumented): walkers compared with each other only");
        }
        if let Some(s) = &o.std {
            if s.hidden && n.starts_with('.') {
                lister_silent = Some("a root's own name is hidden (undocumented): walkers compared with each other only");
            }
            if s.ignore && s.parents {
                let hit = case.nodes.iter().any(|nd| match nd {
                    Node::Ignore { lines, .. } => lines.iter().any(|l| l.trim_start_matches('!').trim_end_matches('/') == n),
                    _ => false,
                });
                if hit {
                    lister_silent = Some("a root's own name occurs in an ignore rule (undocumented): walkers compared with each other only");
                }
                if link_paths.contains(r.as_str()) {
                    return Verdict::Reject("parents(true) with a symlinked root (which parents apply is undocumented)");
                }
            }
        }
    }
    let env = match Env::build(case) {
        Ok(e) => e,
        Err(why) => return Verdict::Reject(why),
    };
    let mut roots = vec![];
    for r in &case.roots {
        match env.real(r) {
            Ok(p) => roots.push(p),
            Err(why) => return Verdict::Reject(why),
        }
    }
    if o.same_file_system {
        if let Some(s) = &env.s {
            let a = std::fs::metadata(&env.t.path).map(|m| m.dev()).ok();
            let b = std::fs::metadata(&s.path).map(|m| m.dev()).ok();
            if a == b {
                return Verdict::Reject("/dev/shm is not a separate device here");
            }
        }
    }

    // ---- the independent listing
    let exp = match list(&env, &roots, o) {
        Ok(e) => e,
        Err(why) => return Verdict::Reject(why),
    };

    // ---- the walkers, under a watchdog
    let mut runs: Vec<(String, Walked)> = vec![];
    // entries + one error per cycle-closing / unfollowable link, with a wide margin
    let budget = 4 * (exp.n_entries + exp.loops_req.len() + exp.loops_opt.len() + exp.broken.len()) + 64;
    let mut modes: Vec<Option<usize>> = vec![None];
    for n in &case.threads {
        if !modes.contains(&Some(*n)) {
            modes.push(Some(*n));
        }
    }
    for mode in modes {
        let label = match mode {
            None => "serial walker (build)".to_string(),
            Some(n) => format!("parallel walker ({n} threads)"),
        };
        let w = match walk_guarded(&roots, o, &env, mode, budget) {
            Some(w) => w,
            None => match walk_guarded(&roots, o, &env, mode, budget) {
                Some(_) => {
                    UNCONFIRMED_TIMEOUTS.fetch_add(1, Ordering::SeqCst);
                    return Verdict::Reject("watchdog expired once, the repeated walk finished (inconclusive)");
                }
                None => {
                    return Verdict::Fail(
                        Fail::new(format!(
                            "C06: the {label} did not finish within {}s, twice in a row (traversal must end)\n{}",
                            WATCHDOG.as_secs(),
                            describe(case)
                        ))
                        .fact("hang-confirmed-by-second-run"),
                    );
                }
            },
        };
        runs.push((label, w));
    }

    // ---- comparison
    let mut full = exp.req.clone();
    for k in &exp.opt {
        *full.entry(k.clone()).or_insert(0) += 1;
    }
    let sets: Vec<BTreeMap<Key, u32>> = runs.iter().map(|(_, w)| multiset(&w.entries)).collect();
    let mut problems: Vec<String> = vec![];
    let mut facts: Vec<String> = vec![];
    for (i, (label, _)) in runs.iter().enumerate() {
        let dups: Vec<Key> = sets[i].iter().filter(|(k, n)| **n > 1 && exp.req.get(*k).copied().unwrap_or(0) < **n).map(|(k, _)| k.clone()).collect();
        if lister_silent.is_none() && !dups.is_empty() {
            problems.push(format!("{label} reported entries more than once: {}", show_keys(&dups)));
            facts.push("duplicate-entry".to_string());
        }
        if runs[i].1.truncated {
            problems.push(format!("{label} was stopped by the harness after reporting more than {budget} entries and errors (the listing has {} entries)", exp.n_entries));
            facts.push("runaway-walk".to_string());
        }
        let missing = minus(&exp.req, &sets[i]);
        let extra = minus(&sets[i], &full);
        if lister_silent.is_none() && (!missing.is_empty() || !extra.is_empty()) {
            problems.push(format!(
                "{label} differs from the independent listing:\n     missing (reachable, not reported): {}\n     extra (reported, not reachable under the options): {}",
                show_keys(&missing),
                show_keys(&extra)
            ));
        }
    }
    for i in 1..runs.len() {
        let only_serial = minus(&sets[0], &sets[i]);
        let only_par = minus(&sets[i], &sets[0]);
        if !only_serial.is_empty() || !only_par.is_empty() {
            problems.push(format!(
                "serial walker and {} disagree:\n     only serial: {}\n     only parallel: {}",
                runs[i].0,
                show_keys(&only_serial),
                show_keys(&only_par)
            ));
            // root-cause shape of the design-phase finding: the serial
            // skip decision returns from the size branch before asking
            // the entry filter
            let par_ok = minus(&exp.req, &sets[i]).is_empty() && minus(&sets[i], &full).is_empty();
            if o.max_filesize.is_some()
                && !o.reject.is_empty()
                && only_par.is_empty()
                && par_ok
                && only_serial.iter().all(|(p, _, is_dir)| !*is_dir && o.reject.iter().any(|r| r == name_of(p)))
            {
                for f in ["max_filesize-set", "serial-only-extras", "extras-are-non-directories-rejected-by-filter_entry"] {
                    if !facts.iter().any(|x| x == f) {
                        facts.push(f.to_string());
                    }
                }
            } else if o.same_file_system
                && exp.filtered_other_device_dirs > 0
                && only_serial.is_empty()
                && par_ok
            {
                // second finding: the serial walker asks walkdir to skip a
                // filtered directory that walkdir never entered (other
                // device), which drops the rest of the parent directory
                for f in ["same_file_system-set", "serial-only-missing", "filtered-out-directory-on-other-device"] {
                    if !facts.iter().any(|x| x == f) {
                        facts.push(f.to_string());
                    }
                }
            } else {
                facts.push("serial-parallel-differ-other-shape".to_string());
            }
        }
    }
    // link cycles: reported as an error by every walker
    let mut loop_candidates = exp.loops_req.clone();
    loop_candidates.extend(exp.loops_opt.iter().cloned());
    for (label, w) in runs.iter().filter(|_| lister_silent.is_none()) {
        let got: BTreeSet<String> = w.loops.iter().cloned().collect();
        let missing: Vec<&String> = exp.loops_req.difference(&got).collect();
        let bogus: Vec<&String> = got.difference(&loop_candidates).collect();
        if !missing.is_empty() {
            problems.push(format!("{label} reported no Loop error for the cycle-closing link(s) {missing:?}"));
            facts.push("loop-error-missing".to_string());
        }
        if !bogus.is_empty() {
            problems.push(format!("{label} reported a Loop error for {bogus:?}, which close(s) no cycle among the directories being descended"));
            facts.push("loop-error-bogus".to_string());
        }
    }
    if !problems.is_empty() {
        let mut d = String::from("C06: serial walker, parallel walker and independent lister do not agree\n");
        d.push_str(&describe(case));
        d.push_str(&format!(
            " independent listing: {} required entries, {} optional; cycle-closing links {:?} (optional {:?}); unfollowable links {:?}\n   {}\n",
            exp.req.values().sum::<u32>(),
            exp.opt.len(),
            exp.loops_req,
            exp.loops_opt,
            exp.broken,
            show_keys(&exp.req.iter().flat_map(|(k, n)| std::iter::repeat(k.clone()).take(*n as usize)).collect::<Vec<_>>())
        ));
        for (label, w) in &runs {
            d.push_str(&format!(
                " {label}: {} entries, loop errors {:?}, io errors {:?}, other errors {:?}\n",
                w.entries.len(),
                w.loops,
                w.io_errs,
                w.other_errs
            ));
        }
        for p in &problems {
            d.push_str(" * ");
            d.push_str(p);
            d.push('\n');
        }
        let mut f = Fail::new(d);
        facts.sort();
        facts.dedup();
        for x in facts {
            f = f.fact(x);
        }
        return Verdict::Fail(f);
    }

    if lister_silent.is_some() {
        let mut info = Info::new(false);
        info.class("root_name_filtered:lister_abstains_walkers_compared_with_each_other");
        return Verdict::Pass(info);
    }
    // ---- accounting: which options removed something
    let variants: Vec<(&'static str, bool, Opts)> = vec![
        ("max_depth", o.max_depth.is_some(), Opts { max_depth: None, ..o.clone() }),
        ("max_filesize", o.max_filesize.is_some(), Opts { max_filesize: None, ..o.clone() }),
        ("same_file_system", o.same_file_system, Opts { same_file_system: false, ..o.clone() }),
        ("filter", !o.reject.is_empty(), Opts { reject: vec![], ..o.clone() }),
        (
            "hidden",
            o.std.as_ref().map_or(false, |s| s.hidden),
            Opts { std: o.std.clone().map(|s| Std { hidden: false, ..s }), ..o.clone() },
        ),
        (
            "ignore",
            o.std.as_ref().map_or(false, |s| s.ignore),
            Opts { std: o.std.clone().map(|s| Std { ignore: false, ..s }), ..o.clone() },
        ),
    ];
    let mut effective: Vec<&'static str> = vec![];
    for (name, active, v) in &variants {
        if !*active {
            continue;
        }
        match list(&env, &roots, v) {
            Ok(e2) => {
                if e2.n_entries > exp.n_entries {
                    effective.push(name);
                }
            }
            // without the option the tree explodes: it certainly removed entries
            Err(_) => effective.push(name),
        }
    }
    let mut info = Info::new(effective.len() >= 2);
    for e in &effective {
        info.class(match *e {
            "max_depth" => "removes:max_depth",
            "max_filesize" => "removes:max_filesize",
            "same_file_system" => "removes:same_file_system",
            "filter" => "removes:filter",
            "hidden" => "removes:hidden",
            _ => "removes:ignore",
        });
    }
    const PAIRS: &[(&str, &str, &str)] = &[
        ("max_depth", "max_filesize", "pair:max_depth+max_filesize"),
        ("max_depth", "same_file_system", "pair:max_depth+same_file_system"),
        ("max_depth", "filter", "pair:max_depth+filter"),
        ("max_depth", "hidden", "pair:max_depth+hidden"),
        ("max_depth", "ignore", "pair:max_depth+ignore"),
        ("max_filesize", "same_file_system", "pair:max_filesize+same_file_system"),
        ("max_filesize", "filter", "pair:max_filesize+filter"),
        ("max_filesize", "hidden", "pair:max_filesize+hidden"),
        ("max_filesize", "ignore", "pair:max_filesize+ignore"),
        ("same_file_system", "filter", "pair:same_file_system+filter"),
        ("same_file_system", "hidden", "pair:same_file_system+hidden"),
        ("same_file_system", "ignore", "pair:same_file_system+ignore"),
        ("filter", "hidden", "pair:filter+hidden"),
        ("filter", "ignore", "pair:filter+ignore"),
        ("hidden", "ignore", "pair:hidden+ignore"),
    ];
    for (a, b, c) in PAIRS {
        info.class_if(effective.contains(a) && effective.contains(b), c);
    }
    info.class_if(o.follow_links, "follow_links");
    info.class_if(o.follow_links && effective.len() >= 2, "follow_links+2_removing_options");
    info.class_if(o.std.is_some(), "standard_filters_partly_on");
    info.class_if(o.std.as_ref().map_or(false, |s| s.ignore && s.parents), "parents_on");
    info.class_if(!exp.loops_req.is_empty(), "cycle_reported_as_loop_error");
    info.class_if(!exp.loops_opt.is_empty(), "cycle_link_filtered_by_name");
    info.class_if(!exp.broken.is_empty(), "unfollowable_link_error");
    info.class_if(exp.followed_dir_links > 0, "link_to_dir_followed");
    info.class_if(exp.followed_file_links > 0, "link_to_file_followed");
    info.class_if(exp.unfollowed_links > 0, "link_reported_unfollowed");
    info.class_if(!exp.opt.is_empty(), "optional_entry(unfollowed_link_size)");
    info.class_if(exp.other_device_dirs > 0, "other_device_dir_not_descended");
    info.class_if(exp.filtered_other_device_dirs > 0, "other_device_dir_filtered_by_name");
    info.class_if(env.s.is_some(), "tree_spans_two_devices");
    info.class_if(exp.empty_dirs > 0, "empty_directory");
    info.class_if(exp.deepest >= 6, "deep_chain>=6");
    info.class_if(exp.widest >= 12, "wide_fanout>=12");
    info.class_if(case.roots.len() > 1, "several_roots");
    info.class_if(roots.iter().any(|r| std::fs::metadata(r).map_or(false, |m| m.is_file())), "file_root");
    info.class_if(case.roots.iter().any(|r| link_paths.contains(r.as_str())), "symlink_root");
    info.class_if(case.roots.iter().any(|r| r.starts_with("@S")), "root_on_second_device");
    info.class_if(case.roots.iter().any(|a| case.roots.iter().any(|b| a != b && a.starts_with(&format!("{b}/")))), "nested_roots");
    info.class_if(case.threads.iter().any(|n| *n == 1), "threads=1");
    info.class_if(case.threads.iter().any(|n| *n >= 8), "threads>=8");
    info.class_if(exp.n_entries >= 30, "entries>=30");
    info.class_if(exp.n_entries <= 2, "entries<=2");
    info.class_if(runs.iter().any(|(_, w)| !w.other_errs.is_empty()), "other_error_seen");
    Verdict::Pass(info)
}

pub fn run(pc: &PropCtx) {
    pc.rule(
        "generated tree specs (dirs <= 7 deep plus deep chains to 12+, fan-out to 40, files of sizes around the limits, symlinks to files / directories / ancestors (cycles) / other links / dangling / self / across devices / above the root, .ignore files of the sub-grammar name, name/, !name) materialised under a scratch dir in $TMPDIR and, for a third of the cases, a second one in /dev/shm; 1-5 roots (directory, file, nested, symlinked, on the second device); options max_depth, max_filesize, follow_links, same_file_system, filter_entry on the file name, hidden/ignore/parents; each case walks serially and in parallel with 2 (quick) or all 16 (thorough) thread counts. Oracle: multisets of (path, depth, is_dir) of serial walker == parallel walker == independent read_dir lister (two-directional), no duplicates, Loop error for every cycle-closing link in a descended directory, all walks end. Non-trivial = at least two options that each remove at least one entry (decided by re-listing with the option off); distinct by hash of the case",
    );
    pc.assume("std::fs (read_dir, metadata, symlink_metadata) and the kernel's dev/ino numbers are the trusted base of the lister");
    pc.assume("file type of a symlinked root is normalised to the type of its target (serial reports 'symlink', parallel the target's type; the property is about which entries are reported)");
    pc.assume("domain exclusions (documentation silent): dangling/missing roots, roots whose own name a filter would remove, parents(true) with a symlinked root; an unfollowed symlink under max_filesize is optional in the lister when the link's own size and its target's size decide differently (serial == parallel is still required)");
    pc.bound("thread_counts", serde_json::json!("1..=16"));
    pc.bound("max_entries_per_tree", serde_json::json!(ENTRY_CAP));
    pc.bound("watchdog_s", serde_json::json!(WATCHDOG.as_secs()));
    let all = pc.tier == crate::runner::Tier::Thorough;
    let cases: u32 = pc.tier.pick(4_000, 40_000);
    pc.run_tape("three_way", cases, (96, 600), |t| gen_case(t, all), check);
    let n = UNCONFIRMED_TIMEOUTS.load(Ordering::SeqCst);
    if n > 0 {
        pc.inconclusive(format!("{n} walk(s) exceeded the {}s watchdog once and finished when repeated", WATCHDOG.as_secs()));
    }
    let c = cases as u64;
    pc.require_class("three_way:removes:max_depth", c / 20);
    pc.require_class("three_way:removes:max_filesize", c / 20);
    pc.require_class("three_way:removes:filter", c / 20);
    pc.require_class("three_way:removes:same_file_system", c / 100);
    pc.require_class("three_way:removes:hidden", c / 100);
    pc.require_class("three_way:removes:ignore", c / 100);
    pc.require_class("three_way:pair:max_filesize+filter", c / 100);
    pc.require_class("three_way:cycle_reported_as_loop_error", c / 40);
    pc.require_class("three_way:link_to_dir_followed", c / 20);
    pc.require_class("three_way:link_to_file_followed", c / 40);
    pc.require_class("three_way:link_reported_unfollowed", c / 20);
    pc.require_class("three_way:other_device_dir_not_descended", c / 100);
    pc.require_class("three_way:other_device_dir_filtered_by_name", c / 300);
    pc.require_class("three_way:file_root", c / 20);
    pc.require_class("three_way:several_roots", c / 10);
    pc.require_class("three_way:empty_directory", c / 20);
    pc.require_class("three_way:deep_chain>=6", c / 50);
    pc.require_class("three_way:wide_fanout>=12", c / 50);
}

pub fn replay(_pc: &PropCtx, _sub: &str, case: &serde_json::Value) -> Result<Verdict, String> {
    let c: Case = serde_json::from_value(case.clone()).map_err(|e| e.to_string())?;
    Ok(check(&c))
}
