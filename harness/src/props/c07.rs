//! C07 — the parallel walker terminates and loses nothing under every
//! thread schedule (at the granularity of the hooked synchronisation points).
//!
//! Real `WalkParallel::visit` with real worker threads; every worker blocks
//! at each yield point of the `verif-hooks` feature until the controller
//! grants it the turn. Exactly one worker runs at a time, so an execution is
//! a function of the generated choice vector.

use std::collections::BTreeMap;
use std::path::PathBuf;
use std::sync::atomic::{AtomicUsize, Ordering};
use std::sync::{Arc, Condvar, Mutex, OnceLock};
use std::time::{Duration, Instant};

use ignore::verif::{set_yield_hook, YieldPoint};
use ignore::{WalkBuilder, WalkState};
use serde::{Deserialize, Serialize};

use crate::cli::TempDir;
use crate::runner::{Fail, Info, PropCtx, Verdict};
use crate::tape::Tape;

#[derive(Clone, Copy, Debug, PartialEq, Eq)]
enum WStatus {
    NotStarted,
    Waiting,
    Running,
    Exited,
}

#[derive(Clone, Copy, Debug, PartialEq, Eq)]
enum Mode {
    Controlled,
    /// hook returns at once: the threads run freely (livelock confirmation)
    Free,
    /// hook panics in every worker (recovery)
    Abort,
}

#[derive(Clone, Debug, Serialize, Deserialize)]
pub enum Chooser {
    /// `choices[i]` picks among the eligible workers at decision i; 0 keeps
    /// the current worker running (no preemption).
    Vector(Vec<u16>),
    /// PCT-style: fixed priorities, lowered at the given decision indices.
    Pct { prio: Vec<u32>, change_at: Vec<usize> },
    /// Sparse preemptions: at decision `pos` take alternative `alt` (>= 1).
    Sparse(Vec<(usize, usize)>),
}

struct St {
    n: usize,
    status: Vec<WStatus>,
    at: Vec<Option<YieldPoint>>,
    running: Option<usize>,
    last_running: Option<usize>,
    chooser: Chooser,
    prio: Vec<u32>,
    decision: usize,
    pushes_done: u64,
    pending_push: Vec<bool>,
    idle_seen: Vec<u64>,
    grants: u64,
    mode: Mode,
    livelock: bool,
    overrun: bool,
    /// per decision: (number of eligible workers, current still eligible, alternative taken)
    decisions: Vec<(u8, bool, u8)>,
    counts: BTreeMap<&'static str, u64>,
    preemptions: u64,
}

struct Ctl {
    m: Mutex<St>,
    cv: Condvar,
}

const STEP_BOUND: u64 = 20_000;

static CURRENT: OnceLock<Mutex<Option<Arc<Ctl>>>> = OnceLock::new();

thread_local! {
    static IS_WORKER: std::cell::Cell<bool> = std::cell::Cell::new(false);
}

fn point_name(p: YieldPoint) -> &'static str {
    match p {
        YieldPoint::Start => "start",
        YieldPoint::Exit => "exit",
        YieldPoint::Push => "push",
        YieldPoint::Pop => "pop",
        YieldPoint::Steal => "steal",
        YieldPoint::Deactivate => "deactivate",
        YieldPoint::Activate => "activate",
        YieldPoint::QuitRead => "quit_read",
        YieldPoint::QuitWrite => "quit_write",
        YieldPoint::Idle => "idle",
    }
}

impl St {
    /// Decide who runs next, if a decision is due.
    fn maybe_schedule(&mut self) {
        if self.running.is_some() || self.mode != Mode::Controlled {
            return;
        }
        if self.status.iter().any(|s| *s == WStatus::NotStarted) {
            return;
        }
        let eligible: Vec<usize> = (0..self.n)
            .filter(|w| {
                self.status[*w] == WStatus::Waiting
                    && (self.at[*w] != Some(YieldPoint::Idle) || self.pushes_done > self.idle_seen[*w])
            })
            .collect();
        if eligible.is_empty() {
            if self.status.iter().any(|s| *s == WStatus::Waiting) {
                // Every live worker sits at the idle point and none of them
                // has an unseen push: no continuation can make progress.
                self.livelock = true;
            }
            return;
        }
        self.grants += 1;
        if self.grants > STEP_BOUND {
            self.overrun = true;
            self.mode = Mode::Abort;
            return;
        }
        let cur = self.last_running.filter(|c| eligible.contains(c));
        // list: current first (alternative 0 = no preemption), then the others by index
        let mut list: Vec<usize> = vec![];
        if let Some(c) = cur {
            list.push(c);
        }
        list.extend(eligible.iter().copied().filter(|w| Some(*w) != cur));
        let alt = match &self.chooser {
            Chooser::Vector(v) => {
                let c = v.get(self.decision).copied().unwrap_or(0) as usize;
                (c * list.len()) >> 16
            }
            Chooser::Sparse(v) => v.iter().find(|(p, _)| *p == self.decision).map(|(_, a)| (*a).min(list.len() - 1)).unwrap_or(0),
            Chooser::Pct { change_at, .. } => {
                if change_at.contains(&self.decision) {
                    // lower the priority of the worker that would run
                    let top = *list.iter().max_by_key(|w| self.prio[**w]).unwrap();
                    let low = self.prio.iter().copied().min().unwrap_or(0);
                    self.prio[top] = low.saturating_sub(1);
                }
                let top = *list.iter().max_by_key(|w| (self.prio[**w], usize::MAX - **w)).unwrap();
                list.iter().position(|w| *w == top).unwrap()
            }
        };
        let pick = list[alt];
        if cur.is_some() && alt != 0 {
            self.preemptions += 1;
        }
        self.decisions.push((list.len() as u8, cur.is_some(), alt as u8));
        self.decision += 1;
        if let Some(p) = self.at[pick] {
            *self.counts.entry(point_name(p)).or_insert(0) += 1;
        }
        self.status[pick] = WStatus::Running;
        self.running = Some(pick);
        self.last_running = Some(pick);
    }
}

fn hook(point: YieldPoint, idx: usize) {
    if point == YieldPoint::Start {
        IS_WORKER.with(|w| w.set(true));
    }
    if !IS_WORKER.with(|w| w.get()) {
        return; // the main thread distributing the initial messages
    }
    let ctl = {
        let g = CURRENT.get_or_init(|| Mutex::new(None)).lock().unwrap_or_else(|e| e.into_inner());
        match &*g {
            Some(c) => c.clone(),
            None => return,
        }
    };
    let mut st = ctl.m.lock().unwrap_or_else(|e| e.into_inner());
    match st.mode {
        Mode::Free => return,
        Mode::Abort => {
            drop(st);
            panic!("verif: schedule aborted");
        }
        Mode::Controlled => {}
    }
    if idx >= st.n {
        return;
    }
    if st.pending_push[idx] {
        st.pushes_done += 1;
        st.pending_push[idx] = false;
    }
    if point == YieldPoint::Push {
        st.pending_push[idx] = true;
    }
    if point == YieldPoint::Idle {
        st.idle_seen[idx] = st.pushes_done;
    }
    if st.running == Some(idx) {
        st.running = None;
    }
    if point == YieldPoint::Exit {
        st.status[idx] = WStatus::Exited;
        st.at[idx] = None;
        st.maybe_schedule();
        ctl.cv.notify_all();
        return;
    }
    st.status[idx] = WStatus::Waiting;
    st.at[idx] = Some(point);
    st.maybe_schedule();
    ctl.cv.notify_all();
    loop {
        match st.mode {
            Mode::Free => return,
            Mode::Abort => {
                drop(st);
                panic!("verif: schedule aborted");
            }
            Mode::Controlled => {}
        }
        if st.running == Some(idx) && st.status[idx] == WStatus::Running {
            return;
        }
        st = ctl.cv.wait(st).unwrap_or_else(|e| e.into_inner());
    }
}

#[derive(Clone, Debug, Serialize, Deserialize)]
pub struct Case {
    /// relative paths; a trailing '/' marks a directory
    pub tree: Vec<String>,
    pub workers: usize,
    pub chooser: Chooser,
    /// the visitor returns Quit at this (global, 0-based) visit index
    pub quit_at: Option<usize>,
    /// the visitor answers `Skip` (documented to have no effect there) to error entries and to
    /// entries that are not directories
    #[serde(default)]
    pub skip_answers: bool,
    /// every top-level entry of the tree is a root of its own (`WalkBuilder::new(a).add(b)...`) and the
    /// walker looks at parent directories (`parents(true)`, no ignore-file kind enabled, so nothing is
    /// filtered): the roots share the per-walk cache of parent matchers
    #[serde(default)]
    pub multi_root: bool,
}

#[derive(Debug)]
pub struct RunResult {
    pub visited: Vec<String>,
    pub completed: bool,
    pub livelock_suspected: bool,
    pub livelock_confirmed: bool,
    pub overrun: bool,
    pub decisions: Vec<(u8, bool, u8)>,
    pub counts: BTreeMap<&'static str, u64>,
    pub preemptions: u64,
    pub panicked: bool,
    /// the run was given up by the wall-clock watchdog (some worker never came back to a hooked point)
    pub watchdog: bool,
}

/// Set once a watchdog expiry has been confirmed by a second run: later runs in this process (the
/// shrinker's) use a short watchdog.
static HANG_CONFIRMED: std::sync::atomic::AtomicBool = std::sync::atomic::AtomicBool::new(false);
/// Set while the run that confirms a first watchdog expiry is under way (10 s watchdog instead of 30 s).
static HANG_SUSPECTED: std::sync::atomic::AtomicBool = std::sync::atomic::AtomicBool::new(false);
/// Verdicts of cases that hung twice, and when the first one was confirmed: every such evaluation costs
/// seconds, so 90 s after the first confirmation only memoised cases are answered (the shrinker then ends
/// on the smallest case that really hung; the runner's re-confirmation finds it here).
static HANG_MEMO: Mutex<Option<(Instant, std::collections::HashMap<String, Fail>)>> = Mutex::new(None);

fn top_level_roots(tree: &[String]) -> Vec<String> {
    let mut v: Vec<String> = vec![];
    for p in tree {
        let first = p.trim_end_matches(['/', '@']).split('/').next().unwrap_or("").to_string();
        if !first.is_empty() && !v.contains(&first) {
            v.push(first);
        }
    }
    v
}

fn scratch_base() -> &'static str {
    if std::path::Path::new("/dev/shm").is_dir() {
        "/dev/shm"
    } else {
        "/tmp"
    }
}

static RUN_LOCK: Mutex<()> = Mutex::new(());

pub fn run_schedule(case: &Case) -> RunResult {
    // the hook is process-global: one schedule at a time
    let _g = RUN_LOCK.lock().unwrap_or_else(|e| e.into_inner());
    let dir = TempDir::new_in(scratch_base(), "c07");
    std::fs::create_dir_all(dir.path.join("r")).unwrap();
    for p in &case.tree {
        let full = dir.path.join("r").join(p.trim_end_matches(['/', '@']));
        if p.ends_with('@') {
            // a dangling symbolic link: with links followed it is reported as an error entry
            if let Some(parent) = full.parent() {
                std::fs::create_dir_all(parent).unwrap();
            }
            std::os::unix::fs::symlink("no-such-target", &full).unwrap();
        } else if p.ends_with('/') {
            std::fs::create_dir_all(&full).unwrap();
        } else {
            if let Some(parent) = full.parent() {
                std::fs::create_dir_all(parent).unwrap();
            }
            std::fs::write(&full, b"x").unwrap();
        }
    }
    let n = case.workers.max(1);
    let prio = match &case.chooser {
        Chooser::Pct { prio, .. } => {
            let mut p = prio.clone();
            p.resize(n, 0);
            p
        }
        _ => vec![0; n],
    };
    let ctl = Arc::new(Ctl {
        m: Mutex::new(St {
            n,
            status: vec![WStatus::NotStarted; n],
            at: vec![None; n],
            running: None,
            last_running: None,
            chooser: case.chooser.clone(),
            prio,
            decision: 0,
            pushes_done: 0,
            pending_push: vec![false; n],
            idle_seen: vec![0; n],
            grants: 0,
            mode: Mode::Controlled,
            livelock: false,
            overrun: false,
            decisions: vec![],
            counts: BTreeMap::new(),
            preemptions: 0,
        }),
        cv: Condvar::new(),
    });
    *CURRENT.get_or_init(|| Mutex::new(None)).lock().unwrap_or_else(|e| e.into_inner()) = Some(ctl.clone());
    set_yield_hook(Some(Arc::new(hook)));

    let visited: Arc<Mutex<Vec<String>>> = Arc::new(Mutex::new(vec![]));
    let counter = Arc::new(AtomicUsize::new(0));
    let root: PathBuf = dir.path.join("r");
    let (tx, rx) = std::sync::mpsc::channel::<bool>();
    let handle = {
        let visited = visited.clone();
        let counter = counter.clone();
        let root = root.clone();
        let quit_at = case.quit_at;
        let follow = case.tree.iter().any(|p| p.ends_with('@'));
        let skip_answers = case.skip_answers;
        let roots: Vec<String> = if case.multi_root { top_level_roots(&case.tree) } else { vec![] };
        std::thread::spawn(move || {
            let res = std::panic::catch_unwind(std::panic::AssertUnwindSafe(|| {
                let mut b = match roots.split_first() {
                    Some((first, rest)) => {
                        let mut b = WalkBuilder::new(root.join(first));
                        for r in rest {
                            b.add(root.join(r));
                        }
                        b
                    }
                    None => WalkBuilder::new(&root),
                };
                b.standard_filters(false).threads(n).follow_links(follow);
                if !roots.is_empty() {
                    b.parents(true);
                }
                b.build_parallel().run(|| {
                    let visited = visited.clone();
                    let counter = counter.clone();
                    let root = root.clone();
                    Box::new(move |ent| {
                        let k = counter.fetch_add(1, Ordering::SeqCst);
                        let name = match &ent {
                            Ok(e) => e.path().strip_prefix(&root).map(|p| p.to_string_lossy().to_string()).unwrap_or_else(|_| e.path().display().to_string()),
                            Err(e) => format!("<error: {e}>"),
                        };
                        visited.lock().unwrap().push(name);
                        let not_a_dir = match &ent {
                            Ok(e) => !e.file_type().map_or(false, |t| t.is_dir()),
                            Err(_) => true,
                        };
                        if Some(k) == quit_at {
                            WalkState::Quit
                        } else if skip_answers && not_a_dir {
                            WalkState::Skip
                        } else {
                            WalkState::Continue
                        }
                    })
                });
            }));
            let _ = tx.send(res.is_err());
        })
    };
    // supervise
    let t0 = Instant::now();
    let mut completed = false;
    let mut panicked = false;
    let mut livelock_suspected = false;
    let mut livelock_confirmed = false;
    let mut watchdog = false;
    loop {
        match rx.recv_timeout(Duration::from_millis(5)) {
            Ok(p) => {
                completed = true;
                panicked = p;
                break;
            }
            Err(std::sync::mpsc::RecvTimeoutError::Disconnected) => break,
            Err(std::sync::mpsc::RecvTimeoutError::Timeout) => {}
        }
        let (ll, over) = {
            let st = ctl.m.lock().unwrap_or_else(|e| e.into_inner());
            (st.livelock, st.overrun)
        };
        if ll && !livelock_suspected {
            livelock_suspected = true;
            // confirm: let the threads run freely for two seconds
            {
                let mut st = ctl.m.lock().unwrap_or_else(|e| e.into_inner());
                st.mode = Mode::Free;
            }
            ctl.cv.notify_all();
            // the first confirmation in a process waits 2 s; later ones
            // (shrinking a confirmed failure) are shorter
            static CONFIRMED_BEFORE: std::sync::atomic::AtomicBool = std::sync::atomic::AtomicBool::new(false);
            let wait = if CONFIRMED_BEFORE.swap(true, Ordering::SeqCst) { Duration::from_millis(400) } else { Duration::from_secs(2) };
            match rx.recv_timeout(wait) {
                Ok(p) => {
                    completed = true;
                    panicked = p;
                    break;
                }
                _ => {
                    livelock_confirmed = true;
                    let mut st = ctl.m.lock().unwrap_or_else(|e| e.into_inner());
                    st.mode = Mode::Abort;
                    drop(st);
                    ctl.cv.notify_all();
                }
            }
        }
        let limit = if HANG_CONFIRMED.load(Ordering::SeqCst) {
            Duration::from_secs(2)
        } else if HANG_SUSPECTED.load(Ordering::SeqCst) {
            Duration::from_secs(10)
        } else {
            Duration::from_secs(30)
        };
        if over || t0.elapsed() > limit {
            if !over {
                watchdog = true;
            }
            let mut st = ctl.m.lock().unwrap_or_else(|e| e.into_inner());
            st.mode = Mode::Abort;
            drop(st);
            ctl.cv.notify_all();
            if t0.elapsed() > limit + limit / 3 {
                break;
            }
        }
    }
    if completed || livelock_confirmed {
        // after an abort the workers unwind at their next hook call
        let _ = rx.recv_timeout(Duration::from_secs(5));
    }
    let joined = handle.is_finished() || {
        std::thread::sleep(Duration::from_millis(200));
        handle.is_finished()
    };
    if joined {
        let _ = handle.join();
    }
    set_yield_hook(None);
    *CURRENT.get_or_init(|| Mutex::new(None)).lock().unwrap_or_else(|e| e.into_inner()) = None;
    let st = ctl.m.lock().unwrap_or_else(|e| e.into_inner());
    let visited = visited.lock().unwrap().clone();
    RunResult {
        visited,
        completed: completed && !panicked,
        livelock_suspected,
        livelock_confirmed,
        overrun: st.overrun,
        decisions: st.decisions.clone(),
        counts: st.counts.clone(),
        preemptions: st.preemptions,
        panicked,
        watchdog: watchdog && !completed,
    }
}

fn expected_paths_of(case: &Case) -> Vec<String> {
    let mut v = expected_paths(&case.tree);
    if case.multi_root && !top_level_roots(&case.tree).is_empty() {
        // the scratch directory itself is not a root then
        v.retain(|p| !p.is_empty());
    }
    v
}

fn expected_paths(tree: &[String]) -> Vec<String> {
    let mut set = std::collections::BTreeSet::new();
    set.insert(String::new()); // the root itself
    for p in tree {
        // a dangling link is reported as an error, not as an entry; its parent directories are entries
        let dangling = p.ends_with('@');
        let p = p.trim_end_matches(['/', '@']);
        let p = if dangling {
            match p.rsplit_once('/') {
                Some((dir, _)) => dir,
                None => continue,
            }
        } else {
            p
        };
        let mut acc = String::new();
        for (i, comp) in p.split('/').enumerate() {
            if i > 0 {
                acc.push('/');
            }
            acc.push_str(comp);
            set.insert(acc.clone());
        }
    }
    set.into_iter().collect()
}

pub fn check(case: &Case) -> Verdict {
    evaluate(case).0
}

pub fn evaluate(case: &Case) -> (Verdict, Vec<(u8, bool, u8)>) {
    if HANG_CONFIRMED.load(Ordering::SeqCst) {
        let key = serde_json::to_string(case).unwrap_or_default();
        let g = HANG_MEMO.lock().unwrap_or_else(|e| e.into_inner());
        if let Some((since, memo)) = g.as_ref() {
            if let Some(f) = memo.get(&key) {
                return (Verdict::Fail(f.clone()), vec![]);
            }
            if since.elapsed() > Duration::from_secs(90) {
                return (Verdict::Reject("budget after a confirmed hang exhausted (not executed)"), vec![]);
            }
        }
    }
    let r = run_schedule(case);
    let d = r.decisions.clone();
    if r.watchdog && !r.overrun && !r.livelock_confirmed && !r.panicked {
        // Some worker never came back to a hooked point (blocked on something the hooks do not cover, a
        // lock for instance). The schedule is a function of the case: believe it if it happens again.
        HANG_SUSPECTED.store(true, Ordering::SeqCst);
        let again = run_schedule(case);
        HANG_SUSPECTED.store(false, Ordering::SeqCst);
        if again.watchdog && !again.overrun && !again.panicked {
            HANG_CONFIRMED.store(true, Ordering::SeqCst);
            let f = Fail::new(format!(
                "the walk does not terminate: under this schedule a worker never returns to a hooked synchronisation point (blocked outside the deque / counter / quit protocol), in two runs in a row\n tree={:?} multi_root={}\n workers={} quit_at={:?}\n chooser={:?}\n grants by point: {:?}\n visited ({}): {:?}",
                case.tree,
                case.multi_root,
                case.workers,
                case.quit_at,
                case.chooser,
                again.counts,
                again.visited.len(),
                again.visited
            ))
            .fact("non-termination")
            .fact("worker-blocked-outside-hooks");
            {
                let mut g = HANG_MEMO.lock().unwrap_or_else(|e| e.into_inner());
                let (_, memo) = g.get_or_insert_with(|| (Instant::now(), std::collections::HashMap::new()));
                memo.insert(serde_json::to_string(case).unwrap_or_default(), f.clone());
            }
            return (Verdict::Fail(f), d);
        }
        return (Verdict::Reject("watchdog expired once, not again (inconclusive)"), d);
    }
    (judge(case, r), d)
}

fn judge(case: &Case, r: RunResult) -> Verdict {
    let describe = |msg: String| {
        Fail::new(format!(
            "{msg}\n tree={:?}\n workers={} quit_at={:?}\n chooser={:?}\n decisions taken: {} (preemptions {})\n grants by point: {:?}\n visited ({}): {:?}",
            case.tree,
            case.workers,
            case.quit_at,
            case.chooser,
            r.decisions.len(),
            r.preemptions,
            r.counts,
            r.visited.len(),
            r.visited
        ))
    };
    if r.overrun {
        return Verdict::Reject("step bound exceeded (inconclusive)");
    }
    if r.livelock_confirmed {
        return Verdict::Fail(
            describe("the walk does not terminate: every live worker sits in the idle loop with nothing left that could wake it, and the threads were still running 2 s after the controller released them".into())
                .fact("non-termination"),
        );
    }
    if !r.completed {
        if r.panicked {
            return Verdict::Fail(describe("a worker panicked".into()).fact("panic"));
        }
        return Verdict::Reject("watchdog (inconclusive)");
    }
    if r.livelock_suspected {
        // the free run completed: the controller's rule fired too early
        return Verdict::Reject("livelock rule fired but the free run completed (harness imprecision)");
    }
    let mut seen = std::collections::BTreeMap::new();
    for v in &r.visited {
        *seen.entry(v.clone()).or_insert(0u32) += 1;
    }
    let n_dangling = case.tree.iter().filter(|p| p.ends_with('@')).count();
    let errors: Vec<String> = seen.keys().filter(|k| k.starts_with("<error")).cloned().collect();
    for e in &errors {
        seen.remove(e);
    }
    if errors.len() > n_dangling || (case.quit_at.map_or(true, |q| q >= r.visited.len()) && errors.len() != n_dangling) {
        return Verdict::Fail(describe(format!("{} error entries were handed to the visitor, the tree has {n_dangling} dangling links", errors.len())).fact("lost-or-extra"));
    }
    if let Some((p, n)) = seen.iter().find(|(_, n)| **n > 1) {
        return Verdict::Fail(describe(format!("entry {p:?} was handed to a visitor {n} times")).fact("duplicate"));
    }
    let want = expected_paths_of(case);
    if case.quit_at.map_or(true, |q| q >= r.visited.len()) {
        // no quit took effect: every entry exactly once
        let got: Vec<String> = seen.keys().cloned().collect();
        if got != want {
            let missing: Vec<&String> = want.iter().filter(|w| !seen.contains_key(*w)).collect();
            let extra: Vec<&String> = got.iter().filter(|g| !want.contains(g)).collect();
            return Verdict::Fail(describe(format!("visited set differs from the tree: missing {missing:?}, unexpected {extra:?}")).fact("lost-or-extra"));
        }
    } else {
        // after a quit: only real entries, none twice (checked above)
        if let Some(x) = seen.keys().find(|g| !want.contains(g)) {
            return Verdict::Fail(describe(format!("visited {x:?}, which is not an entry of the tree")));
        }
    }
    let act = r.counts.get("activate").copied().unwrap_or(0);
    let deact = r.counts.get("deactivate").copied().unwrap_or(0);
    let mut info = Info::new(act >= 1 && deact >= 1);
    info.class_if(act >= 1, "steal_after_idle(activate)");
    info.class_if(deact >= 1, "deactivate");
    info.class_if(r.counts.get("idle").copied().unwrap_or(0) >= 1, "idle_worker_rescheduled_after_push");
    info.class_if(r.preemptions >= 1, "preemptions>=1");
    info.class_if(r.preemptions >= 3, "preemptions>=3");
    info.class_if(case.quit_at.is_some(), "quit_injected");
    info.class_if(n_dangling > 0, "error_entries(dangling_links)");
    info.class_if(case.skip_answers, "visitor_answers_skip_to_non_directories");
    info.class_if(case.multi_root, "every_top_level_entry_is_a_root");
    info.class_if(case.multi_root && top_level_roots(&case.tree).iter().filter(|r| case.tree.iter().any(|p| p.starts_with(&format!("{r}/")))).count() >= 2, "two_or_more_directory_roots");
    info.class_if(case.quit_at.map_or(false, |q| q < r.visited.len()), "quit_took_effect");
    info.class_if(r.counts.get("quit_write").copied().unwrap_or(0) >= 1, "quit_flag_written");
    info.class(match case.workers {
        2 => "workers=2",
        3 => "workers=3",
        _ => "workers>=4",
    });
    Verdict::Pass(info)
}

// ---------- generators ----------

fn shapes() -> Vec<Vec<String>> {
    let s = |v: &[&str]| v.iter().map(|x| x.to_string()).collect::<Vec<_>>();
    vec![
        s(&["a"]),
        s(&["d/", "d/a"]),
        s(&["a", "b", "c"]),
        s(&["d/e/f/g/h/x"]),                                                   // chain
        s(&["d/a", "d/b", "d/c", "d/e", "d/f", "d/g"]),                        // star
        s(&["a/x", "b/x", "c/x", "d/x"]),                                      // comb
        s(&["a/p/x", "a/q/x", "b/p/x", "b/q/x", "c/p/x"]),                     // balanced
        s(&["a/", "b/", "c/", "d/e/"]),                                        // only directories
        s(&["a/b/c/x", "a/b/y", "a/z", "w"]),
        s(&["d1/x", "d1/y", "d2/e/x", "d2/e/y", "d2/f/", "d3/", "f1", "f2"]),
        s(&["a/b/c/d/e/f/g/h/i/j"]),
        s(&["m/a", "m/b", "m/c", "n/a", "n/b", "o/p/q/r", "s"]),
        s(&["d/a", "d/l@", "d/z", "d/e/x"]),                                   // an error entry among siblings
        s(&["l@", "a/x", "a/m@", "a/y", "z"]),
    ]
}

pub fn gen_tree(t: &mut Tape) -> Vec<String> {
    if !t.chance(1, 3) {
        return t.pick(&shapes()).clone();
    }
    let n = 1 + t.below(12);
    let mut dirs: Vec<String> = vec![String::new()];
    let mut out = vec![];
    for i in 0..n {
        let parent = dirs[t.below(dirs.len())].clone();
        let name = format!("{}{}", if t.bool() { "d" } else { "f" }, i);
        let path = if parent.is_empty() { name.clone() } else { format!("{parent}/{name}") };
        if name.starts_with('d') && path.matches('/').count() < 5 {
            dirs.push(path.clone());
            out.push(format!("{path}/"));
        } else {
            out.push(path);
        }
    }
    out
}

pub fn gen_case(t: &mut Tape) -> Case {
    let tree = gen_tree(t);
    let workers = 2 + t.weighted(&[4, 3, 2]);
    let total = expected_paths(&tree).len();
    let quit_at = if t.chance(1, 3) { Some(t.below(total + 1)) } else { None };
    let chooser = if t.chance(1, 4) {
        let prio = (0..workers).map(|_| t.below(1000) as u32 + 10).collect();
        let k = t.below(4);
        let change_at = (0..k).map(|_| t.below(150)).collect();
        Chooser::Pct { prio, change_at }
    } else {
        let len = t.below(220);
        // a fraction of zero entries keeps stretches without preemption
        let v = (0..len).map(|_| if t.chance(1, 2) { 0 } else { (t.raw() >> 16) as u16 }).collect();
        Chooser::Vector(v)
    };
    let skip_answers = t.chance(1, 4);
    Case { tree, workers, chooser, quit_at, skip_answers, multi_root: false }
}

/// The same cases with every top-level entry as a root of its own (a subcheck of its own, so that the
/// single-root schedules stay exactly the ones that were generated before this dimension existed).
pub fn gen_case_multi_root(t: &mut Tape) -> Case {
    let mut c = gen_case(t);
    c.multi_root = true;
    c
}

/// Exhaustive enumeration of schedules with at most `p` preemptions for one
/// (tree, workers, quit) configuration. Returns the number of schedules run.
fn exhaustive(pc: &PropCtx, sub: &str, tree: &[String], workers: usize, quit_at: Option<usize>, p: usize, cap: usize) -> usize {
    let mut stack: Vec<Vec<(usize, usize)>> = vec![vec![]];
    let mut runs = 0;
    while let Some(pre) = stack.pop() {
        if pc.has_failure() || runs >= cap {
            break;
        }
        let case = Case { tree: tree.to_vec(), workers, chooser: Chooser::Sparse(pre.clone()), quit_at, skip_answers: false, multi_root: false };
        let (v, decisions) = evaluate(&case);
        runs += 1;
        if !pc.absorb(sub, &case, v) {
            break;
        }
        if pre.len() < p {
            let from = pre.last().map_or(0, |(pos, _)| pos + 1);
            for pos in (from..decisions.len()).rev() {
                let (alts, cur, _) = decisions[pos];
                // alternative 0 is "keep the current worker"; when the current
                // worker is not eligible every alternative is a forced switch
                // and only alternatives >= 1 differ from the default
                let _ = cur;
                for alt in 1..alts as usize {
                    let mut child = pre.clone();
                    child.push((pos, alt));
                    stack.push(child);
                }
            }
        }
    }
    runs
}

// ------------------------------------------------------- concurrent_walks ---

/// Subcheck `concurrent_walks`: two parallel traversals alive in one process. Walk B never quits and must
/// hand out every entry exactly once, whatever walk A (whose visitor quits at once) does meanwhile. Not
/// scheduled by the controller (the threads run freely, the yield hook is off); the overlap is forced:
/// with `hold`, B's first visitor call waits until A has quit and returned.
#[derive(Clone, Debug, Serialize, Deserialize)]
pub struct TwoWalks {
    pub tree: Vec<String>,
    pub workers: usize,
    pub other_workers: usize,
    pub hold: bool,
}

pub fn gen_two_walks(t: &mut Tape) -> TwoWalks {
    TwoWalks { tree: gen_tree(t), workers: 2 + t.below(3), other_workers: 2 + t.below(3), hold: !t.chance(1, 4) }
}

fn materialise(base: &std::path::Path, tree: &[String]) {
    std::fs::create_dir_all(base).unwrap();
    for p in tree {
        let full = base.join(p.trim_end_matches(['/', '@']));
        if p.ends_with('@') {
            if let Some(parent) = full.parent() {
                std::fs::create_dir_all(parent).unwrap();
            }
            let _ = std::os::unix::fs::symlink("no-such-target", &full);
        } else if p.ends_with('/') {
            std::fs::create_dir_all(&full).unwrap();
        } else {
            if let Some(parent) = full.parent() {
                std::fs::create_dir_all(parent).unwrap();
            }
            std::fs::write(&full, b"x").unwrap();
        }
    }
}

pub fn check_two_walks(c: &TwoWalks) -> Verdict {
    if c.tree.iter().any(|p| p.ends_with('@')) {
        return Verdict::Reject("error entries are the scheduled subcheck's subject");
    }
    let _g = RUN_LOCK.lock().unwrap_or_else(|e| e.into_inner());
    let dir = TempDir::new_in(scratch_base(), "c07w");
    let root_b = dir.path.join("b");
    let root_a = dir.path.join("a");
    materialise(&root_b, &c.tree);
    materialise(&root_a, &["x/".to_string(), "x/1".to_string(), "x/2".to_string(), "y".to_string(), "z/w".to_string()]);
    let visited: Arc<Mutex<Vec<String>>> = Arc::new(Mutex::new(vec![]));
    let (release_tx, release_rx) = std::sync::mpsc::channel::<()>();
    let release_rx = Arc::new(Mutex::new(Some(release_rx)));
    let (started_tx, started_rx) = std::sync::mpsc::channel::<()>();
    let (done_tx, done_rx) = std::sync::mpsc::channel::<()>();
    let hold = c.hold;
    let nb = c.workers.max(1);
    let b = {
        let visited = visited.clone();
        let root_b = root_b.clone();
        std::thread::spawn(move || {
            let mut wb = WalkBuilder::new(&root_b);
            wb.standard_filters(false).threads(nb);
            wb.build_parallel().run(|| {
                let visited = visited.clone();
                let root_b = root_b.clone();
                let release_rx = release_rx.clone();
                let started_tx = started_tx.clone();
                Box::new(move |ent| {
                    if hold {
                        // whoever gets here first waits for walk A to be over
                        if let Some(rx) = release_rx.lock().unwrap().take() {
                            let _ = started_tx.send(());
                            let _ = rx.recv_timeout(Duration::from_secs(20));
                        }
                    }
                    if let Ok(e) = &ent {
                        let name = e.path().strip_prefix(&root_b).map(|p| p.to_string_lossy().to_string()).unwrap_or_default();
                        visited.lock().unwrap().push(name);
                    }
                    WalkState::Continue
                })
            });
            let _ = done_tx.send(());
        })
    };
    if hold {
        let _ = started_rx.recv_timeout(Duration::from_secs(20));
    }
    // walk A: quits at its first entry
    let na = c.other_workers.max(1);
    let a = std::thread::spawn(move || {
        let mut wa = WalkBuilder::new(&root_a);
        wa.standard_filters(false).threads(na);
        wa.build_parallel().run(|| Box::new(|_| WalkState::Quit));
    });
    let a_done = {
        let t0 = Instant::now();
        while !a.is_finished() && t0.elapsed() < Duration::from_secs(20) {
            std::thread::sleep(Duration::from_millis(1));
        }
        a.is_finished()
    };
    let _ = release_tx.send(());
    let b_done = done_rx.recv_timeout(Duration::from_secs(30)).is_ok();
    if a_done {
        let _ = a.join();
    }
    if b_done {
        let _ = b.join();
    }
    let describe = |msg: String| Fail::new(format!("{msg}\n case: {}\n visited by walk B: {:?}", serde_json::to_string(c).unwrap_or_default(), visited.lock().unwrap()));
    if !a_done || !b_done {
        return Verdict::Fail(describe(format!("a traversal did not end (walk A ended: {a_done}, walk B ended: {b_done})")).fact("non-termination"));
    }
    let mut got = visited.lock().unwrap().clone();
    got.sort();
    let want = expected_paths(&c.tree);
    if let Some(w) = got.windows(2).find(|w| w[0] == w[1]) {
        return Verdict::Fail(describe(format!("walk B handed {:?} to a visitor twice", w[0])).fact("duplicate"));
    }
    if got != want {
        let missing: Vec<&String> = want.iter().filter(|w| !got.contains(w)).collect();
        return Verdict::Fail(
            describe(format!("walk B (whose visitors never quit) was handed {} of {} entries while another traversal in the same process quit; missing {missing:?}", got.len(), want.len()))
                .fact("lost-or-extra"),
        );
    }
    let mut info = Info::new(want.len() >= 3);
    info.class_if(c.hold, "other_walk_quit_while_this_one_was_held_at_its_first_entry");
    info.class_if(!c.hold, "both_walks_running_freely");
    Verdict::Pass(info)
}

pub fn run(pc: &PropCtx) {
    pc.rule(
        "real WalkParallel::visit with 2-4 real worker threads over small generated trees; each worker blocks at every hooked synchronisation point (start, exit, deque push, pop, steal, active-counter decrement/increment, quit flag read/write, idle sleep) until a controller grants the turn, so the interleaving is a function of the generated chooser: (i) random choice vectors (0 = no preemption), (ii) PCT-style priorities with up to 3 change points, (iii) exhaustive enumeration of all schedules with at most p preemptions on the smallest trees; visitor Quit injected at generated visit indices. Oracle (history invariants): without an effective quit every entry of the tree is visited exactly once; never a duplicate; termination: if every live worker sits at the idle point with no push it has not yet seen, no continuation can progress - confirmed by releasing the threads for 2 s before it is reported. Subcheck concurrent_walks (not scheduled, threads run freely): a second parallel traversal in the same process whose visitor quits at once, while the first is held at its first entry or runs freely; the first must still hand out every entry exactly once. Non-trivial = the schedule contains a deactivate and a later successful receive (activate); distinct by hash",
    );
    pc.assume("interleavings inside crossbeam-deque operations and weak-memory effects are not explored; each hooked operation is atomic under the controller");
    pc.set_shrink_iters(120);
    // the hook is process-global: schedules run one at a time
    let saved_threads = pc.threads;
    let _ = saved_threads;
    let n = pc.tier.pick(2_500, 40_000);
    pc.run_tape("random_schedules", n, (64, 600), gen_case, check);
    pc.run_tape("multi_root_schedules", n / 3, (64, 600), gen_case_multi_root, check);
    pc.require_class("multi_root_schedules:two_or_more_directory_roots", n as u64 / 12);
    // bounded-exhaustive part
    let p = pc.tier.pick(2, 3);
    let cap = pc.tier.pick(1_500, 40_000);
    let small: Vec<(Vec<String>, usize, Option<usize>)> = vec![
        (vec!["a".into()], 2, None),
        (vec!["d/".into(), "d/a".into()], 2, None),
        (vec!["a".into(), "b".into()], 2, Some(1)),
        (vec!["d/".into(), "d/a".into()], 3, None),
    ];
    let mut total = 0;
    for (tree, w, q) in &small {
        total += exhaustive(pc, "bounded_exhaustive", tree, *w, *q, p, cap);
    }
    pc.bound("exhaustive_preemption_bound", serde_json::json!(p));
    pc.bound("exhaustive_schedules_run", serde_json::json!(total));
    pc.bound("exhaustive_cap_per_configuration", serde_json::json!(cap));
    let two = pc.tier.pick(150, 3_000);
    pc.run_tape("concurrent_walks", two, (16, 120), gen_two_walks, check_two_walks);
    pc.require_class("random_schedules:steal_after_idle(activate)", n as u64 / 10);
    pc.require_class("random_schedules:quit_took_effect", n as u64 / 20);
}

pub fn replay(_pc: &PropCtx, sub: &str, case: &serde_json::Value) -> Result<Verdict, String> {
    if sub == "concurrent_walks" {
        let c: TwoWalks = serde_json::from_value(case.clone()).map_err(|e| e.to_string())?;
        return Ok(check_two_walks(&c));
    }
    let c: Case = serde_json::from_value(case.clone()).map_err(|e| e.to_string())?;
    Ok(check(&c))
}
