//! C04 — ignore files mean what git says they mean.
//!
//! Differential check against git itself (an executable specification that
//! is present in the sandbox). One generated case = one small git
//! repository: a directory tree whose names include dots, dashes, upper
//! case, blanks and names that look like globs, plus 1–4 `.gitignore` files
//! at different depths whose lines come from the documented gitignore
//! grammar. Two oracles are evaluated per repository:
//!
//! (1) `rg --files --hidden …` lists exactly the files that
//!     `git ls-files --others --exclude-standard -z` lists (the `.git`
//!     directory removed from both sides); missing and extra paths are both
//!     violations;
//! (2) `ignore::gitignore::Gitignore::matched_path_or_any_parents` built
//!     from a single root-level ignore file says "ignored" for exactly the
//!     paths (files and every ancestor directory) for which
//!     `git check-ignore --no-index -z -v -n --stdin` reports a
//!     non-negated deciding pattern.
//!
//! Oracle (1) is run with rg pointed at the repository in five ways (cwd,
//! `./`, relative directory, absolute directory, and from inside a
//! subdirectory so that ignore files *above* the search root apply).
//!
//! A failure is passed through root-cause probes (`explain`): the ignore
//! files are rewritten into text that means the same to git (e.g. `[!x]` ->
//! `[!x/]`, a line ending in a tab -> a comment); if rg and git agree on the
//! rewritten case, the construct that was rewritten is named in a fact, so
//! that `known_findings.json` can list a defect by its root cause.
//!
//! git is run hermetically: empty environment, `GIT_CONFIG_NOSYSTEM=1`,
//! `GIT_CONFIG_GLOBAL=/dev/null`, `HOME` and `XDG_CONFIG_HOME` inside the
//! scratch directory, `git init --template=` (no info/exclude, no hooks).

use std::collections::{BTreeMap, BTreeSet};
use std::ffi::OsStr;
use std::os::unix::ffi::OsStrExt;
use std::path::{Path, PathBuf};
use std::sync::atomic::{AtomicU64, Ordering};

use serde::{Deserialize, Serialize};

use crate::bs::{enc, Bs};
use crate::cli::{Out, Rg, TempDir};
use crate::runner::{Fail, Info, PropCtx, Verdict};
use crate::tape::Tape;

/// One ignore file: the directory that contains it (relative to the
/// repository root, "" = root) and its full text.
#[derive(Clone, Debug, Serialize, Deserialize, PartialEq, Eq)]
pub struct IgnFile {
    pub dir: Bs,
    pub text: Bs,
}

#[derive(Clone, Debug, Serialize, Deserialize)]
pub struct Case {
    /// regular files, relative to the repository root, '/'-separated;
    /// directories are implied
    pub files: Vec<Bs>,
    /// `.gitignore` files; at most one per directory
    pub ignores: Vec<IgnFile>,
    /// `--ignore-file-case-insensitive` paired with `git -c core.ignorecase=true`
    pub icase: bool,
    /// how rg is pointed at the repository: 0 = cwd, no path argument;
    /// 1 = cwd, `./`; 2 = from the parent directory with the relative path
    /// `r`; 3 = absolute path; 4 = cwd is the subdirectory `sub`
    pub invoke: u8,
    /// `-j` value for rg (1 = serial walker, 2 = parallel walker)
    pub threads: u8,
    /// invoke == 4: rg and `git ls-files` both run with this subdirectory of
    /// the repository as cwd, rg without --no-ignore-parent, so the ignore
    /// files of the directories above the search root apply as well
    #[serde(default)]
    pub sub: Bs,
}

// ------------------------------------------------------------------ generator

/// Entry names, simplest first. Glob-looking names, names that need the
/// documented `\#` / `\!` / `\ ` escapes and a name ending in `.` are in the
/// tail.
const NAMES: &[&str] = &[
    "a", "b", "c", "A", "B", "x.rs", "y.txt", "z.o", "a.b", "a-b", "ab", ".h", ".hd", "foo.", "*.rs", "[a]", "a?", "a b", "#c", "!c", "a ", "a ?", "c *",
];

fn pick_name(t: &mut Tape) -> &'static str {
    if t.chance(1, 2) {
        NAMES[t.below(NAMES.len())]
    } else {
        NAMES[t.small(NAMES.len() - 1)]
    }
}

fn gen_dir(t: &mut Tape, depth: usize, prefix: &str, files: &mut Vec<String>) {
    let n = if depth == 0 { 2 + t.below(4) } else { 1 + t.below(3) };
    let mut used: Vec<&str> = vec![];
    let start = files.len();
    for _ in 0..n {
        if files.len() >= 40 {
            break;
        }
        let name = pick_name(t);
        if used.contains(&name) {
            continue;
        }
        used.push(name);
        let path = if prefix.is_empty() { name.to_string() } else { format!("{prefix}/{name}") };
        let dir_odds: u32 = match depth {
            0 => 50,
            1 => 40,
            2 => 25,
            _ => 0,
        };
        if dir_odds > 0 && t.chance(dir_odds, 100) {
            gen_dir(t, depth + 1, &path, files);
        } else {
            files.push(path);
        }
    }
    if files.len() == start {
        files.push(if prefix.is_empty() { "a".to_string() } else { format!("{prefix}/a") });
    }
}

/// All directories implied by a list of files ("" = root first).
fn dirs_of(files: &[String]) -> Vec<String> {
    let mut set = BTreeSet::new();
    set.insert(String::new());
    for f in files {
        let mut p = f.as_str();
        while let Some(i) = p.rfind('/') {
            p = &p[..i];
            set.insert(p.to_string());
        }
    }
    set.into_iter().collect()
}

fn is_special(c: char) -> bool {
    matches!(c, '*' | '?' | '[' | '\\')
}

fn esc_char(out: &mut String, c: char) {
    if is_special(c) {
        out.push('\\');
    }
    out.push(c);
}

fn esc(s: &str) -> String {
    let mut out = String::new();
    for c in s.chars() {
        esc_char(&mut out, c);
    }
    out
}

fn other_letter(t: &mut Tape, c: char) -> char {
    let pool = ['x', 'q', 'a', 'b', 'R', 'Z'];
    let mut o = *t.pick(&pool);
    if o.eq_ignore_ascii_case(&c) {
        o = 'w';
    }
    o
}

/// A bracket expression standing for the single character `c` (matching or
/// deliberately not matching it). Only alphanumeric `c`.
fn class_for(t: &mut Tape, c: char, icase: bool) -> String {
    let o = other_letter(t, c);
    let (lo, hi) = if c.is_ascii_lowercase() {
        (((c as u8).max(b'b') - 1) as char, ((c as u8).min(b'y') + 1) as char)
    } else if c.is_ascii_uppercase() {
        (((c as u8).max(b'B') - 1) as char, ((c as u8).min(b'Y') + 1) as char)
    } else {
        ('0', '9')
    };
    // git folds the text but not single class members under
    // core.ignorecase, so `[A]` matches neither `A` nor `a` there (ranges are
    // handled); that quirk is not gitignore syntax, so single members are
    // written in lower case in case-insensitive cases.
    let (c, o) = if icase { (c.to_ascii_lowercase(), o.to_ascii_lowercase()) } else { (c, o) };
    match t.weighted(&[3, 2, 3, 2, 2, 1, 1, 1]) {
        0 => format!("[{c}]"),
        1 => {
            if t.bool() {
                format!("[{c}{o}]")
            } else {
                format!("[{o}{c}]")
            }
        }
        2 => format!("[{lo}-{hi}]"),
        3 => format!("[!{o}]"),
        4 => format!("[^{o}]"),
        5 => format!("[!{c}]"),
        6 => format!("[{o}0-9]"),
        _ => format!("[{lo}-{hi}{o}_]"),
    }
}

/// Turn one path component into one pattern segment.
fn glob_seg(t: &mut Tape, name: &str, icase: bool) -> String {
    let chars: Vec<char> = name.chars().collect();
    let n = chars.len();
    let flip_w = if icase { 14 } else { 4 };
    match t.weighted(&[45, 8, 15, 8, 12, 4, flip_w, 3, 2]) {
        0 => esc(name),
        1 => name.to_string(),
        2 => {
            // replace chars[i..j) by `*` (i == j inserts a star)
            let i = t.below(n + 1);
            let j = i + t.below(n - i + 1);
            let mut s = String::new();
            for c in &chars[..i] {
                esc_char(&mut s, *c);
            }
            s.push('*');
            for c in &chars[j..] {
                esc_char(&mut s, *c);
            }
            s
        }
        3 => {
            let i = t.below(n);
            let mut s = String::new();
            for (k, c) in chars.iter().enumerate() {
                if k == i {
                    s.push('?');
                } else {
                    esc_char(&mut s, *c);
                }
            }
            s
        }
        4 => {
            let i = t.below(n);
            let mut s = String::new();
            for (k, c) in chars.iter().enumerate() {
                if k == i && c.is_ascii_alphanumeric() {
                    s.push_str(&class_for(t, *c, icase));
                } else if k == i {
                    s.push('?');
                } else {
                    esc_char(&mut s, *c);
                }
            }
            s
        }
        5 => "*".to_string(),
        6 => {
            let i = t.below(n);
            let mut s = String::new();
            for (k, c) in chars.iter().enumerate() {
                let c = if k == i {
                    if c.is_ascii_lowercase() {
                        c.to_ascii_uppercase()
                    } else {
                        c.to_ascii_lowercase()
                    }
                } else {
                    *c
                };
                esc_char(&mut s, c);
            }
            s
        }
        7 => {
            // a backslash in front of an ordinary character (fnmatch(3):
            // "\c matches c")
            let i = t.below(n);
            let mut s = String::new();
            for (k, c) in chars.iter().enumerate() {
                // (git compares the character after a backslash without
                // case folding, so `\A` matches nothing under
                // core.ignorecase; that quirk is not gitignore syntax)
                if k == i && !is_special(*c) && *c != ' ' && !(icase && c.is_ascii_uppercase()) {
                    s.push('\\');
                    s.push(*c);
                } else {
                    esc_char(&mut s, *c);
                }
            }
            s
        }
        _ => {
            // "other consecutive asterisks are considered regular
            // asterisks": `**` directly followed by an ordinary character.
            // (`x**/y` and a final `x**` are left out: git strips the
            // literal prefix `x` before matching, which turns the rest into
            // a leading `**/` / a bare `**` that crosses directories,
            // contrary to its documentation.)
            let i = t.below(n);
            let j = i + t.below(n - i);
            if chars[j] == ' ' {
                // a blank after `**` could end up as a trimmed trailing blank
                return esc(name);
            }
            let mut s = String::new();
            for c in &chars[..i] {
                esc_char(&mut s, *c);
            }
            s.push_str("**");
            for c in &chars[j..] {
                esc_char(&mut s, *c);
            }
            s
        }
    }
}

/// Targets below one directory: (relative path, is_dir).
fn targets_below(files: &[String], dir: &str) -> Vec<(String, bool)> {
    let mut set: BTreeMap<String, bool> = BTreeMap::new();
    for f in files {
        let rel = if dir.is_empty() {
            f.as_str()
        } else if f.len() > dir.len() + 1 && f.starts_with(dir) && f.as_bytes()[dir.len()] == b'/' {
            &f[dir.len() + 1..]
        } else {
            continue;
        };
        set.insert(rel.to_string(), false);
        let mut p = rel;
        while let Some(i) = p.rfind('/') {
            p = &p[..i];
            set.insert(p.to_string(), true);
        }
    }
    set.into_iter().collect()
}

const BARE: &[&str] = &["*", "*.*", ".*", "?", "/*", "*/", "**", "*/*", "**/*", "/**"];

fn gen_pattern(t: &mut Tape, targets: &[(String, bool)], icase: bool, first: bool) -> String {
    let (rel, is_dir) = if targets.is_empty() || t.chance(1, 7) {
        let n = 1 + t.small(2);
        let v: Vec<&str> = (0..n).map(|_| pick_name(t)).collect();
        (v.join("/"), t.bool())
    } else {
        targets[t.below(targets.len())].clone()
    };
    let comps: Vec<&str> = rel.split('/').collect();
    let n = comps.len();
    let seg = |t: &mut Tape, c: &str| glob_seg(t, c, icase);
    // `**/*.ext/rest`: an extension-looking component that is a directory
    // (globset has a special strategy for `**/*.ext`, which must not swallow
    // path separators)
    if t.chance(1, 12) {
        if let Some(i) = comps[..n - 1].iter().position(|c| c.contains('.') && !c.ends_with('.') && !c.starts_with('.')) {
            let ext = comps[i].rsplit('.').next().unwrap();
            let rest = comps[i + 1..].join("/");
            let clean = |x: &str| x.chars().all(|c| c.is_ascii_alphanumeric() || c == '/' || c == '_' || c == '-');
            if clean(ext) && clean(&rest) && !ext.is_empty() {
                return decorate(t, format!("**/*.{ext}/{rest}"), is_dir, first, false);
            }
        }
    }
    let mut pat = match t.weighted(&[40, 22, 8, 10, 8, 8, 4]) {
        0 => seg(t, comps[n - 1]),
        1 => comps.iter().map(|c| seg(t, c)).collect::<Vec<_>>().join("/"),
        2 => {
            let k = n.saturating_sub(2);
            comps[k..].iter().map(|c| seg(t, c)).collect::<Vec<_>>().join("/")
        }
        3 => {
            let k = 1 + t.below(n.min(2));
            let tail = comps[n - k..].iter().map(|c| seg(t, c)).collect::<Vec<_>>().join("/");
            format!("**/{tail}")
        }
        4 => {
            let k = 1 + t.below(n);
            let head = comps[..k].iter().map(|c| seg(t, c)).collect::<Vec<_>>().join("/");
            format!("{head}/**")
        }
        5 => {
            if n == 1 {
                format!("**/{}", seg(t, comps[0]))
            } else {
                let i = 1 + t.below(n - 1); // head = comps[..i]
                let j = i + t.below(n - i); // tail = comps[j..], skipping j - i directories
                let head = comps[..i].iter().map(|c| seg(t, c)).collect::<Vec<_>>().join("/");
                let tail = comps[j..].iter().map(|c| seg(t, c)).collect::<Vec<_>>().join("/");
                format!("{head}/**/{tail}")
            }
        }
        _ => {
            let bare = t.pick(BARE).to_string();
            return decorate(t, bare, false, first, true);
        }
    };
    // "wildcards do not cross /": put a wildcard where a separator belongs
    if pat.contains('/') && t.chance(1, 12) {
        let slashes: Vec<usize> = pat.char_indices().filter(|(i, c)| *c == '/' && (*i == 0 || pat.as_bytes()[*i - 1] != b'\\')).map(|(i, _)| i).collect();
        let at = slashes[t.below(slashes.len())];
        // not next to a `**` (that would build other constructs)
        let near_star = pat[..at].ends_with('*') || pat[at + 1..].starts_with('*');
        if !near_star {
            let w = *t.pick(&["?", "*", "[!x]", "[^x]", "[/]", "[.-0]"]);
            pat = format!("{}{}{}", &pat[..at], w, &pat[at + 1..]);
        }
    }
    decorate(t, pat, is_dir, first, false)
}

fn decorate(t: &mut Tape, mut pat: String, is_dir: bool, first: bool, bare: bool) -> String {
    // a trailing blank that belongs to the name must be quoted
    if pat.ends_with(' ') && !pat.ends_with("\\ ") && t.chance(4, 5) {
        pat.pop();
        pat.push_str("\\ ");
    }
    if !bare {
        if !pat.starts_with('/') && t.chance(1, 5) {
            pat.insert(0, '/');
        }
        let odds = if is_dir { 45 } else { 15 };
        if !pat.ends_with('/') && t.chance(odds, 100) {
            pat.push('/');
        }
    }
    // a pattern that begins with a literal `#` or `!` needs the documented
    // backslash; without it the line is a comment / a negation
    if (pat.starts_with('#') || pat.starts_with('!')) && t.chance(6, 7) {
        pat.insert(0, '\\');
    }
    let neg_odds = if first { 10 } else { 28 };
    if t.chance(neg_odds, 100) {
        pat.insert(0, '!');
    }
    match t.weighted(&[88, 10, 2]) {
        0 => {}
        1 => {
            for _ in 0..1 + t.below(3) {
                pat.push(' ');
            }
        }
        _ => pat.push('\t'),
    }
    pat
}

fn gen_line(t: &mut Tape, targets: &[(String, bool)], icase: bool, first: bool) -> String {
    match t.weighted(&[88, 3, 3, 2, 2, 2]) {
        0 => gen_pattern(t, targets, icase, first),
        1 => "# comment".to_string(),
        2 => String::new(),
        3 => "  ".to_string(),
        4 => format!("#{}", pick_name(t)),
        _ => "#".to_string(),
    }
}

/// `earlier`: pattern lines of the ignore files generated so far (shallower
/// ones first); a deeper file sometimes repeats one of them with the
/// negation toggled, which is how a deeper file overrides a shallower one.
fn gen_ignore_text(t: &mut Tape, files: &[String], dir: &str, icase: bool, earlier: &[String]) -> String {
    let targets = targets_below(files, dir);
    let n = 1 + t.below(6);
    let mut text = String::new();
    for i in 0..n {
        let line = if !earlier.is_empty() && t.chance(1, 3) {
            let l = &earlier[t.below(earlier.len())];
            match l.strip_prefix('!') {
                Some(rest) => rest.to_string(),
                None => format!("!{l}"),
            }
        } else {
            gen_line(t, &targets, icase, i == 0)
        };
        text.push_str(&line);
        // the last line may lack its newline
        if i + 1 < n || !t.chance(1, 8) {
            text.push('\n');
        }
    }
    text
}

pub fn gen_case(t: &mut Tape) -> Case {
    let mut files: Vec<String> = vec![];
    gen_dir(t, 0, "", &mut files);
    files.sort();
    files.dedup();
    let dirs = dirs_of(&files);
    let icase = t.chance(1, 4);
    let n_ign = 1 + t.weighted(&[40, 30, 20, 10]);
    let mut ignores: Vec<IgnFile> = vec![];
    let mut earlier: Vec<String> = vec![];
    for i in 0..n_ign {
        let dir = if i == 0 && !t.chance(1, 8) { String::new() } else { dirs[t.below(dirs.len())].clone() };
        if ignores.iter().any(|g| g.dir.0 == dir.as_bytes()) {
            continue;
        }
        let text = gen_ignore_text(t, &files, &dir, icase, &earlier);
        for l in text.lines() {
            // reusable in a deeper file: unanchored pattern lines
            let core = l.trim_start_matches('!').trim_end_matches(['/', ' ', '\t']);
            if !core.is_empty() && !l.starts_with('#') && !core.contains('/') {
                earlier.push(l.to_string());
            }
        }
        ignores.push(IgnFile { dir: Bs::from(dir.as_str()), text: Bs::from(text.as_str()) });
    }
    let mut invoke = t.weighted(&[46, 12, 12, 12, 18]) as u8;
    let mut sub = String::new();
    if invoke == 4 {
        if dirs.len() > 1 {
            sub = dirs[1 + t.below(dirs.len() - 1)].clone();
        } else {
            invoke = 0;
        }
    }
    let threads = if t.chance(1, 3) { 2 } else { 1 };
    // a generated tree never contains an entry called .gitignore, so the
    // ignore files cannot collide with tree files
    Case { files: files.iter().map(|f| Bs::from(f.as_str())).collect(), ignores, icase, invoke, threads, sub: Bs::from(sub.as_str()) }
}

// ------------------------------------------------------- syntactic features

#[derive(Default, Debug, Clone, Copy)]
struct Feat {
    comment: bool,
    blank: bool,
    neg: bool,
    lead_slash: bool,
    inner_slash: bool,
    trail_slash: bool,
    no_slash: bool,
    star: bool,
    qmark: bool,
    class: bool,
    neg_class: bool,
    dstar_lead: bool,
    dstar_trail: bool,
    dstar_inner: bool,
    dstar_other: bool,
    escape: bool,
    esc_hash_bang: bool,
    esc_space: bool,
    trail_blank: bool,
    trail_tab: bool,
}

/// Describe one line of an ignore file using only the documented grammar.
fn features(line: &[u8]) -> Feat {
    let mut f = Feat::default();
    if line.first() == Some(&b'#') {
        f.comment = true;
        return f;
    }
    // unquoted trailing spaces are not part of the pattern
    let mut end = line.len();
    while end > 0 && line[end - 1] == b' ' {
        let mut bs = 0;
        while end >= 2 + bs && line[end - 2 - bs] == b'\\' {
            bs += 1;
        }
        if bs % 2 == 1 {
            f.esc_space = true;
            break;
        }
        end -= 1;
        f.trail_blank = true;
    }
    let mut p = &line[..end];
    if p.last() == Some(&b'\t') {
        f.trail_tab = true;
    }
    if p.is_empty() {
        f.blank = true;
        f.trail_blank = false;
        return f;
    }
    if p[0] == b'!' {
        f.neg = true;
        p = &p[1..];
    } else if p.starts_with(b"\\#") || p.starts_with(b"\\!") {
        f.esc_hash_bang = true;
    }
    if p.first() == Some(&b'/') {
        f.lead_slash = true;
    }
    // tokenise
    #[derive(PartialEq, Clone, Copy)]
    enum Tk {
        Lit,
        Slash,
        Star,
        Q,
        Class,
    }
    let mut toks: Vec<Tk> = vec![];
    let mut i = 0;
    while i < p.len() {
        match p[i] {
            b'\\' => {
                f.escape = true;
                toks.push(Tk::Lit);
                i += 2;
            }
            b'/' => {
                toks.push(Tk::Slash);
                i += 1;
            }
            b'*' => {
                toks.push(Tk::Star);
                i += 1;
            }
            b'?' => {
                f.qmark = true;
                toks.push(Tk::Q);
                i += 1;
            }
            b'[' => {
                // find the closing bracket (a `]` right after `[`, `[!` or `[^` is a member)
                let mut j = i + 1;
                if j < p.len() && (p[j] == b'!' || p[j] == b'^') {
                    j += 1;
                }
                if j < p.len() && p[j] == b']' {
                    j += 1;
                }
                while j < p.len() && p[j] != b']' {
                    j += 1;
                }
                if j < p.len() {
                    f.class = true;
                    if p[i + 1] == b'!' || p[i + 1] == b'^' {
                        f.neg_class = true;
                    }
                    toks.push(Tk::Class);
                    i = j + 1;
                } else {
                    toks.push(Tk::Lit);
                    i += 1;
                }
            }
            _ => {
                toks.push(Tk::Lit);
                i += 1;
            }
        }
    }
    let n = toks.len();
    f.trail_slash = n > 1 && toks[n - 1] == Tk::Slash;
    f.inner_slash = (1..n.saturating_sub(1)).any(|k| toks[k] == Tk::Slash);
    f.no_slash = !toks.contains(&Tk::Slash);
    let mut k = 0;
    while k < n {
        if toks[k] == Tk::Star {
            let mut e = k;
            while e + 1 < n && toks[e + 1] == Tk::Star {
                e += 1;
            }
            let run = e - k + 1;
            if run == 1 {
                f.star = true;
            } else {
                let before_ok = k == 0 || toks[k - 1] == Tk::Slash;
                let after_ok = e + 1 == n || toks[e + 1] == Tk::Slash;
                if run == 2 && before_ok && after_ok && n > 2 {
                    if k == 0 || (k == 1 && toks[0] == Tk::Slash && e + 1 < n) {
                        f.dstar_lead = true;
                    } else if e + 1 == n || (e + 2 == n) {
                        f.dstar_trail = true;
                    } else {
                        f.dstar_inner = true;
                    }
                } else {
                    f.dstar_other = true;
                }
            }
            k = e + 1;
        } else {
            k += 1;
        }
    }
    f
}

fn lines_of(text: &[u8]) -> Vec<&[u8]> {
    let mut v: Vec<&[u8]> = text.split(|b| *b == b'\n').collect();
    if v.last().map_or(false, |l| l.is_empty()) {
        v.pop();
    }
    v
}

// ----------------------------------------------------------------- execution

static INCONCLUSIVE_RUNS: AtomicU64 = AtomicU64::new(0);
/// Paths with a negation blocked by an ignored parent, counted whatever the
/// verdict (while matched_path_or_any_parents mishandles exactly that shape,
/// such cases fail under a known finding and their classes are not recorded).
static BLOCKED_NEGATION_SEEN: AtomicU64 = AtomicU64::new(0);
static RG_TIMEOUTS: std::sync::Mutex<Vec<String>> = std::sync::Mutex::new(Vec::new());

fn os(b: &[u8]) -> &OsStr {
    OsStr::from_bytes(b)
}

fn git(repo: &Path, home: &Path, icase: bool, args: &[&str]) -> Rg {
    let mut g = Rg::new(repo)
        .program("git")
        .env("HOME", &home.to_string_lossy())
        .env("XDG_CONFIG_HOME", &home.join(".xdg-none").to_string_lossy())
        .env("GIT_CONFIG_GLOBAL", "/dev/null")
        .env("GIT_CONFIG_NOSYSTEM", "1")
        .env("GIT_TERMINAL_PROMPT", "0")
        .env("GIT_OPTIONAL_LOCKS", "0");
    g = g.args(["-c", if icase { "core.ignorecase=true" } else { "core.ignorecase=false" }]);
    g.args(args.iter().copied())
}

fn split0(data: &[u8]) -> Vec<Vec<u8>> {
    let mut v: Vec<Vec<u8>> = data.split(|b| *b == 0).map(|s| s.to_vec()).collect();
    if v.last().map_or(false, |l| l.is_empty()) {
        v.pop();
    }
    v
}

fn show_set(s: &BTreeSet<Vec<u8>>) -> String {
    let v: Vec<String> = s.iter().map(|p| format!("\"{}\"", enc(p))).collect();
    format!("[{}]", v.join(", "))
}

fn show_case(case: &Case) -> String {
    let mut s = String::new();
    s.push_str(&format!(" files: {}\n", case.files.iter().map(|f| format!("\"{}\"", enc(f))).collect::<Vec<_>>().join(", ")));
    for g in &case.ignores {
        let p = if g.dir.is_empty() { ".gitignore".to_string() } else { format!("{}/.gitignore", enc(&g.dir)) };
        s.push_str(&format!(" {p}: \"{}\"\n", enc(&g.text)));
    }
    s.push_str(&format!(" case-insensitive: {}\n", case.icase));
    if case.invoke == 4 {
        s.push_str(&format!(" search root (cwd of rg and git): \"{}\"\n", enc(&case.sub)));
    }
    s
}

/// git's verdict for one path from `check-ignore -v -n`.
#[derive(Debug, Clone, PartialEq, Eq)]
struct GitMatch {
    source: Vec<u8>,
    pattern: Vec<u8>,
}

impl GitMatch {
    fn matched(&self) -> bool {
        !self.source.is_empty()
    }
    fn ignored(&self) -> bool {
        self.matched() && self.pattern.first() != Some(&b'!')
    }
}

/// Run `git check-ignore --no-index -z -v -n --stdin` over the paths.
/// Err(None) = inconclusive (timeout); Err(Some(msg)) = git refused.
fn check_ignore(repo: &Path, home: &Path, icase: bool, paths: &[Vec<u8>]) -> Result<Vec<GitMatch>, Option<String>> {
    let mut stdin = vec![];
    for p in paths {
        stdin.extend_from_slice(p);
        stdin.push(0);
    }
    let out = git(repo, home, icase, &["check-ignore", "--no-index", "-z", "-v", "-n", "--stdin"]).stdin(stdin).run();
    if out.timed_out {
        return Err(None);
    }
    if !matches!(out.status, Some(0) | Some(1)) {
        return Err(Some(format!("git check-ignore: status {:?}, stderr {:?}", out.status, String::from_utf8_lossy(&out.stderr))));
    }
    let fields = split0(&out.stdout);
    // with -z the last field of the last record may be an empty path only if
    // the path was empty, which never happens; records are exactly 4 fields
    let mut recs: Vec<&[Vec<u8>]> = fields.chunks(4).collect();
    if recs.last().map_or(false, |r| r.len() != 4) {
        recs.pop();
    }
    if recs.len() != paths.len() {
        return Err(Some(format!("git check-ignore answered {} records for {} paths: {:?}", recs.len(), paths.len(), enc(&out.stdout))));
    }
    let mut v = vec![];
    for (r, p) in recs.iter().zip(paths) {
        if &r[3] != p {
            return Err(Some(format!("git check-ignore record for \"{}\" where \"{}\" was expected", enc(&r[3]), enc(p))));
        }
        v.push(GitMatch { source: r[0].clone(), pattern: r[2].clone() });
    }
    Ok(v)
}

fn write_file(root: &Path, rel: &[u8], data: &[u8]) -> std::io::Result<()> {
    let p = root.join(os(rel));
    if let Some(parent) = p.parent() {
        std::fs::create_dir_all(parent)?;
    }
    std::fs::write(p, data)
}

/// Every file, every proper ancestor directory (is_dir = true), sorted.
fn all_paths(case: &Case) -> Vec<(Vec<u8>, bool)> {
    let mut m: BTreeMap<Vec<u8>, bool> = BTreeMap::new();
    for f in &case.files {
        m.insert(f.0.clone(), false);
        let mut p: &[u8] = &f.0;
        while let Some(i) = p.iter().rposition(|b| *b == b'/') {
            p = &p[..i];
            m.insert(p.to_vec(), true);
        }
    }
    m.into_iter().collect()
}

fn has_dot_component(p: &[u8]) -> bool {
    p.split(|b| *b == b'/').any(|c| c.last() == Some(&b'.'))
}

fn valid_case(case: &Case) -> Result<(), &'static str> {
    if case.files.is_empty() {
        return Err("no files");
    }
    for f in &case.files {
        let ok = !f.is_empty()
            && !f.contains(&0)
            // the root-cause probes rely on names without tab and comma
            && !f.contains(&b'\t')
            && !f.contains(&b',')
            && f.split(|b| *b == b'/').all(|c| !c.is_empty() && c != b"." && c != b".." && c != b".git" && c != b".gitignore");
        if !ok {
            return Err("file path outside the generated domain");
        }
    }
    if case.invoke == 4 {
        let mut pre = case.sub.0.clone();
        pre.push(b'/');
        if case.sub.is_empty() || !case.files.iter().any(|f| f.starts_with(&pre)) {
            return Err("search root is not a directory of the tree");
        }
    }
    for g in &case.ignores {
        if g.text.contains(&0) || g.text.contains(&b'\r') {
            return Err("ignore text outside the generated domain");
        }
    }
    Ok(())
}

pub fn check(case: &Case) -> Verdict {
    match check_inner(case) {
        Verdict::Fail(f) => Verdict::Fail(explain(case, f)),
        v => v,
    }
}

// ---- root-cause classification of a failure by git-equivalent rewrites
//
// Each rewrite replaces one construct of the ignore files by text that means
// exactly the same to git (on trees of the generated domain). If the
// rewritten case passes, the failure is explained by that construct and the
// corresponding fact is attached; the facts are only attached when the
// rewritten case passes *entirely*, so a different violation hiding in the
// same case is still reported.

/// git's `trim_trailing_spaces`: spaces after the last non-space character,
/// unless quoted.
fn git_trim(line: &[u8]) -> &[u8] {
    let mut last_space: Option<usize> = None;
    let mut i = 0;
    while i < line.len() {
        match line[i] {
            b' ' => {
                if last_space.is_none() {
                    last_space = Some(i);
                }
            }
            b'\\' => {
                i += 1;
                last_space = None;
            }
            _ => last_space = None,
        }
        i += 1;
    }
    match last_space {
        Some(i) => &line[..i],
        None => line,
    }
}

/// A pattern line whose last character is a tab: for git the tab belongs to
/// the pattern, and no generated name contains a tab, so the line matches
/// nothing, like a comment.
fn rw_trailing_tab(line: &[u8]) -> Vec<u8> {
    if line.first() != Some(&b'#') && git_trim(line).last() == Some(&b'\t') {
        b"#".to_vec()
    } else {
        line.to_vec()
    }
}

/// `foo\ ` followed by more (insignificant) spaces: drop those spaces.
fn rw_spaces_after_quoted_space(line: &[u8]) -> Vec<u8> {
    let t = git_trim(line);
    if line.first() != Some(&b'#') && t.len() < line.len() && t.ends_with(b"\\ ") {
        t.to_vec()
    } else {
        line.to_vec()
    }
}

/// A pattern segment that ends in a literal `.` (`foo.`, `*.`, `d./x`):
/// written as `[.]` it means the same to git, but keeps globset away from
/// its basename / extension strategies, which is where names ending in `.`
/// get lost (`globset::pathutil::file_name` yields no name for them).
fn rw_segment_ending_in_dot(line: &[u8]) -> Vec<u8> {
    if line.first() == Some(&b'#') {
        return line.to_vec();
    }
    let t = git_trim(line);
    let tail = &line[t.len()..];
    let at_end = |k: usize| k == t.len() || t[k] == b'/';
    let mut out = vec![];
    let mut i = 0;
    while i < t.len() {
        match t[i] {
            b'\\' => {
                if i + 1 < t.len() && t[i + 1] == b'.' && at_end(i + 2) {
                    out.extend_from_slice(b"[.]");
                } else {
                    out.push(t[i]);
                    if i + 1 < t.len() {
                        out.push(t[i + 1]);
                    }
                }
                i += 2;
            }
            b'[' => {
                let mut j = i + 1;
                if j < t.len() && (t[j] == b'!' || t[j] == b'^') {
                    j += 1;
                }
                if j < t.len() && t[j] == b']' {
                    j += 1;
                }
                while j < t.len() && t[j] != b']' {
                    j += 1;
                }
                if j >= t.len() {
                    out.push(t[i]);
                    i += 1;
                } else {
                    out.extend_from_slice(&t[i..=j]);
                    i = j + 1;
                }
            }
            b'.' if at_end(i + 1) => {
                out.extend_from_slice(b"[.]");
                i += 1;
            }
            c => {
                out.push(c);
                i += 1;
            }
        }
    }
    out.extend_from_slice(tail);
    out
}

/// Bracket expressions never match `/` in git (FNM_PATHNAME): `[!x]` means
/// `[!x/]`, `[/]` matches nothing, `[.-0]` means `[.0]`.
fn rw_class_implicit_separator(line: &[u8]) -> Vec<u8> {
    rw_class(line, true)
}

/// `[/]`: a bracket expression that lists the separator matches nothing in
/// git (globset deliberately lets it match `/`: test `matchslash4`).
fn rw_class_explicit_separator(line: &[u8]) -> Vec<u8> {
    rw_class(line, false)
}

fn rw_class(line: &[u8], implicit: bool) -> Vec<u8> {
    if line.first() == Some(&b'#') {
        return line.to_vec();
    }
    let p = line;
    let mut out = vec![];
    let mut i = 0;
    while i < p.len() {
        match p[i] {
            b'\\' => {
                out.push(p[i]);
                if i + 1 < p.len() {
                    out.push(p[i + 1]);
                }
                i += 2;
            }
            b'[' => {
                let mut j = i + 1;
                let negated = j < p.len() && (p[j] == b'!' || p[j] == b'^');
                if negated {
                    j += 1;
                }
                let body_start = j;
                if j < p.len() && p[j] == b']' {
                    j += 1;
                }
                while j < p.len() && p[j] != b']' {
                    j += 1;
                }
                if j >= p.len() {
                    out.push(p[i]);
                    i += 1;
                    continue;
                }
                let body = &p[body_start..j];
                out.extend_from_slice(&p[i..body_start]);
                if negated && implicit {
                    out.extend_from_slice(body);
                    if !body.contains(&b'/') {
                        out.push(b'/');
                    }
                } else if body == b"/" && !implicit {
                    out.push(b',');
                } else if body == b".-0" && implicit {
                    out.extend_from_slice(b".0");
                } else {
                    out.extend_from_slice(body);
                }
                out.push(b']');
                i = j + 1;
            }
            c => {
                out.push(c);
                i += 1;
            }
        }
    }
    out
}

fn rewrite_case(case: &Case, rw: fn(&[u8]) -> Vec<u8>) -> Case {
    let mut c = case.clone();
    for g in &mut c.ignores {
        let unterminated = !g.text.ends_with(b"\n");
        let mut text = vec![];
        for l in lines_of(&g.text) {
            text.extend_from_slice(&rw(l));
            text.push(b'\n');
        }
        if unterminated {
            text.pop();
        }
        g.text = Bs(text);
    }
    c
}

fn explain(case: &Case, fail: Fail) -> Fail {
    let has = |f: &Fail, x: &str| f.facts.iter().any(|y| y == x);
    let line_rewrites: [(&'static str, fn(&[u8]) -> Vec<u8>); 5] = [
        ("pattern-segment-ending-in-literal-dot", rw_segment_ending_in_dot),
        ("pattern-line-ending-in-tab", rw_trailing_tab),
        ("spaces-after-backslash-quoted-space", rw_spaces_after_quoted_space),
        ("negated-or-range-bracket-class-matching-separator", rw_class_implicit_separator),
        ("bracket-class-listing-the-separator", rw_class_explicit_separator),
    ];
    // the same repository searched from its root instead of from a
    // subdirectory: ignore files above the search root are then ordinary
    // ignore files of the traversal (dir.rs joins the entry's path onto the
    // absolute path of the search root after stripping the path of the
    // directory being read, which loses the components in between for every
    // entry two or more levels below the search root)
    const FROM_ROOT: &str = "parent-ignore-file-vs-entry-two-or-more-levels-below-search-root";
    let from_root_applies = case.invoke == 4 && has(&fail, "all-diffs-two-or-more-levels-below-search-root");
    // a transform yields the rewritten case, or None when it changes nothing
    let apply = |c: &Case, name: &str| -> Option<Case> {
        if name == FROM_ROOT {
            if c.invoke != 4 || !from_root_applies {
                return None;
            }
            let mut n = c.clone();
            n.invoke = 0;
            n.sub = Bs::default();
            return Some(n);
        }
        let rw = line_rewrites.iter().find(|(n, _)| *n == name)?.1;
        let n = rewrite_case(c, rw);
        if n.ignores == c.ignores {
            None
        } else {
            Some(n)
        }
    };
    let mut names: Vec<&'static str> = line_rewrites.iter().map(|(n, _)| *n).collect();
    names.push(FROM_ROOT);
    let failed_o1 = has(&fail, "oracle1");
    // explained = the oracle that failed passes on the rewritten case (an
    // oracle-1 failure is reported in preference to an oracle-2 failure
    // anyway, so a remaining oracle-2 failure does not count against it)
    let passes_same_oracle = |v: &Verdict| match v {
        Verdict::Pass(_) => true,
        Verdict::Fail(f2) => failed_o1 && has(f2, "oracle2") && !has(f2, "oracle1"),
        Verdict::Reject(_) => false,
    };
    // one transform at a time
    for name in &names {
        if let Some(c) = apply(case, name) {
            if passes_same_oracle(&check_inner(&c)) {
                let fact = format!("explained-by:{name}");
                let mut f = fail;
                f.detail.push_str(&format!("\n root-cause probe: rg and git agree once the case is rewritten git-equivalently ({fact})"));
                return f.fact(fact);
            }
        }
    }
    // all applicable transforms together
    let mut c = case.clone();
    let mut used: Vec<&'static str> = vec![];
    for name in &names {
        if let Some(n) = apply(&c, name) {
            used.push(name);
            c = n;
        }
    }
    if used.is_empty() {
        return fail;
    }
    let apply_all = |which: &[&'static str]| {
        let mut c = case.clone();
        for name in which {
            if let Some(n) = apply(&c, name) {
                c = n;
            }
        }
        c
    };
    let v = check_inner(&c);
    let combined = if passes_same_oracle(&v) {
        // keep only the transforms that are needed (greedy)
        let mut k = 0;
        while k < used.len() && used.len() > 1 {
            let mut fewer = used.clone();
            fewer.remove(k);
            if passes_same_oracle(&check_inner(&apply_all(&fewer))) {
                used = fewer;
            } else {
                k += 1;
            }
        }
        used.len() >= 2
    } else if let Verdict::Fail(f2) = &v {
        // a residual oracle-2 failure made only of shapes that are
        // classified from the differing paths joins the combination
        let kinds: Vec<&'static str> = f2
            .facts
            .iter()
            .find_map(|x| x.strip_prefix("o2-diff-kinds:"))
            .map(|k| k.split('+').filter_map(|k| ["root-as-parent", "whitelist-below-ignored-dir"].into_iter().find(|n| *n == k)).collect())
            .unwrap_or_default();
        if !failed_o1 && !has(f2, "oracle1") && !kinds.is_empty() && !has(f2, "o2-diff-kinds:other") {
            used.extend(kinds);
            true
        } else {
            false
        }
    } else {
        false
    };
    if combined {
        let fact = format!("explained-by-combination:{}", used.join("+"));
        let mut f = fail;
        f.detail.push_str(&format!("\n root-cause probe: {fact}"));
        return f.fact(fact);
    }
    fail
}

fn check_inner(case: &Case) -> Verdict {
    if let Err(why) = valid_case(case) {
        return Verdict::Reject(why);
    }
    // tmpfs when available: `git init` and the tree are I/O bound on a disk
    let tmp = if Path::new("/dev/shm").is_dir() && std::env::var_os("TMPDIR").is_none() {
        TempDir::new_in("/dev/shm", "c04")
    } else {
        TempDir::new("c04")
    };
    let home = tmp.path.join("home");
    let repo = tmp.path.join("r");
    if std::fs::create_dir_all(&home).is_err() || std::fs::create_dir_all(&repo).is_err() {
        return Verdict::Reject("cannot create scratch directories");
    }
    let init = git(&repo, &home, false, &["init", "-q", "--template=", "-b", "main", "."]).run();
    if init.timed_out {
        INCONCLUSIVE_RUNS.fetch_add(1, Ordering::Relaxed);
        return Verdict::Reject("git init timed out (inconclusive)");
    }
    if init.status != Some(0) {
        INCONCLUSIVE_RUNS.fetch_add(1, Ordering::Relaxed);
        return Verdict::Reject("git init failed (inconclusive)");
    }
    for f in &case.files {
        if write_file(&repo, f, b"x\n").is_err() {
            // a file and a directory of the same name in one directory
            return Verdict::Reject("tree cannot be materialised");
        }
    }
    let mut info = Info::new(false);

    // ---- oracle (2): one root-level ignore file, in-process matcher vs check-ignore
    let root_ign: Option<&IgnFile> = case.ignores.iter().find(|g| g.dir.is_empty()).or(case.ignores.first());
    let mut phase_a: BTreeMap<Vec<u8>, bool> = BTreeMap::new();
    let have_root = case.ignores.iter().any(|g| g.dir.is_empty());
    // an oracle-2 (library) failure does not stop oracle 1 (CLI) from being
    // evaluated; an oracle-1 failure is the one reported when both fail
    let mut o2_fail: Option<Fail> = None;
    if let Some(ign) = root_ign {
        if write_file(&repo, b".gitignore", &ign.text).is_err() {
            return Verdict::Reject("tree cannot be materialised");
        }
        match oracle2(case, ign, &repo, &home, &mut info, &mut phase_a) {
            Ok(()) => {}
            Err(Verdict::Fail(f)) => o2_fail = Some(f),
            Err(v) => return v,
        }
        let _ = std::fs::remove_file(repo.join(".gitignore"));
    }

    // ---- oracle (1): all ignore files, rg --files vs git ls-files --others
    for g in &case.ignores {
        let mut rel = g.dir.0.clone();
        if !rel.is_empty() {
            rel.push(b'/');
        }
        rel.extend_from_slice(b".gitignore");
        if !g.dir.is_empty() && !repo.join(os(&g.dir)).is_dir() {
            return Verdict::Reject("ignore file in a directory that is not part of the tree");
        }
        if write_file(&repo, &rel, &g.text).is_err() {
            return Verdict::Reject("tree cannot be materialised");
        }
    }
    match oracle1(case, &tmp.path, &repo, &home, &mut info, if have_root && o2_fail.is_none() { Some(&phase_a) } else { None }) {
        Ok(()) => {}
        Err(Verdict::Fail(mut f)) => {
            if let Some(f2) = &o2_fail {
                f.detail.push_str(&format!("\n (oracle 2 fails on this case as well: {})", f2.detail.lines().skip(4).take(2).collect::<Vec<_>>().join(" | ")));
            }
            return Verdict::Fail(f);
        }
        Err(v) => return v,
    }
    if let Some(f) = o2_fail {
        return Verdict::Fail(f);
    }

    // ---- syntactic classes
    let basenames: BTreeSet<&[u8]> = case.files.iter().map(|f| f.rsplit(|b| *b == b'/').next().unwrap()).collect();
    for g in &case.ignores {
        info.class_if(!g.dir.is_empty(), "ignore_file_below_root");
        info.class_if(!g.text.ends_with(b"\n"), "last_line_without_newline");
        for line in lines_of(&g.text) {
            let f = features(line);
            info.class_if(f.comment, "line_comment");
            info.class_if(f.blank, "line_blank");
            if f.comment || f.blank {
                continue;
            }
            info.class_if(f.neg, "line_negated");
            info.class_if(f.lead_slash, "anchored_leading_slash");
            info.class_if(f.inner_slash, "anchored_inner_slash");
            info.class_if(f.no_slash || (f.trail_slash && !f.inner_slash && !f.lead_slash), "unanchored");
            info.class_if(f.trail_slash, "directory_only");
            info.class_if(f.trail_slash && f.neg, "negation+dironly");
            info.class_if(f.star, "star");
            info.class_if(f.qmark, "question_mark");
            info.class_if(f.class, "bracket_class");
            info.class_if(f.neg_class, "negated_bracket_class");
            info.class_if(f.dstar_lead, "doublestar_leading");
            info.class_if(f.dstar_trail, "doublestar_trailing");
            info.class_if(f.dstar_inner, "doublestar_inner");
            info.class_if(f.dstar_other, "doublestar_as_regular_asterisks");
            info.class_if(f.escape, "backslash_escape");
            info.class_if(f.esc_hash_bang, "escaped_hash_or_bang");
            info.class_if(f.esc_space, "quoted_trailing_space");
            info.class_if(f.trail_blank, "trailing_blanks");
            info.class_if(f.trail_tab, "trailing_tab");
            if f.trail_slash {
                // the last segment, taken literally, names a regular file of the tree
                let mut body: &[u8] = line;
                while body.last() == Some(&b' ') {
                    body = &body[..body.len() - 1];
                }
                if body.last() != Some(&b'/') {
                    continue;
                }
                let body = &body[..body.len() - 1];
                let last = body.rsplit(|b| *b == b'/').next().unwrap_or(body);
                let last: Vec<u8> = last.iter().copied().filter(|b| *b != b'\\' && *b != b'!').collect();
                info.class_if(basenames.contains(&last[..]), "dironly_pattern_names_a_regular_file");
            }
        }
    }
    info.class_if(case.icase, "case_insensitive");
    info.class_if(case.ignores.len() >= 2, "several_ignore_files");
    info.class_if(case.threads > 1, "parallel_walker");
    info.class_if(case.invoke == 0, "invoke_cwd");
    info.class_if(case.invoke == 1, "invoke_dot_slash");
    info.class_if(case.invoke == 2, "invoke_relative_dir");
    info.class_if(case.invoke == 3, "invoke_absolute_dir");
    info.class_if(case.invoke == 4, "invoke_subdirectory_with_parent_ignore_files");
    info.class_if(case.files.iter().any(|f| has_dot_component(f)), "tree_has_name_ending_in_dot");
    info.class_if(
        case.files.iter().any(|f| f.iter().any(|b| matches!(b, b'*' | b'?' | b'[' | b'#' | b'!'))),
        "tree_has_glob_looking_name",
    );
    Verdict::Pass(info)
}

fn inconclusive(what: &'static str) -> Verdict {
    INCONCLUSIVE_RUNS.fetch_add(1, Ordering::Relaxed);
    Verdict::Reject(what)
}

fn oracle2(
    case: &Case,
    ign: &IgnFile,
    repo: &Path,
    home: &Path,
    info: &mut Info,
    phase_a: &mut BTreeMap<Vec<u8>, bool>,
) -> Result<(), Verdict> {
    use ignore::gitignore::GitignoreBuilder;
    let mut paths = all_paths(case);
    paths.push((b".gitignore".to_vec(), false));
    let names: Vec<Vec<u8>> = paths.iter().map(|p| p.0.clone()).collect();
    let gm = match check_ignore(repo, home, case.icase, &names) {
        Ok(v) => v,
        Err(None) => return Err(inconclusive("git check-ignore timed out (inconclusive)")),
        Err(Some(_)) => return Err(inconclusive("git check-ignore failed (inconclusive)")),
    };
    let mut b = GitignoreBuilder::new(repo);
    let _ = b.case_insensitive(case.icase);
    let err = b.add(repo.join(".gitignore"));
    let gi = match b.build() {
        Ok(gi) => gi,
        Err(e) => {
            return Err(Verdict::Fail(Fail::new(format!(
                "C04 oracle 2: GitignoreBuilder::build failed for a file git accepts: {e}\n{}",
                show_case(case)
            ))))
        }
    };
    let mut diffs: Vec<String> = vec![];
    let mut diff_paths: Vec<(Vec<u8>, bool, bool)> = vec![]; // path, git ignored, rg ignored
    let mut n_ign = 0;
    let mut n_keep = 0;
    for ((p, is_dir), g) in paths.iter().zip(&gm) {
        let abs: PathBuf = repo.join(os(p));
        let m = match std::panic::catch_unwind(std::panic::AssertUnwindSafe(|| gi.matched_path_or_any_parents(&abs, *is_dir))) {
            Ok(m) => m,
            Err(_) => {
                return Err(Verdict::Fail(
                    Fail::new(format!(
                        "C04 oracle 2 (library): Gitignore::matched_path_or_any_parents({:?}, {is_dir}) panicked for a path below the matcher's root {:?}\n root .gitignore: \"{}\"\n{}",
                        abs,
                        repo,
                        enc(&ign.text),
                        show_case(case)
                    ))
                    .fact("oracle2")
                    .fact("library-panic"),
                ))
            }
        };
        let direct = gi.matched(&abs, *is_dir);
        let rg_ignored = m.is_ignore();
        let git_ignored = g.ignored();
        phase_a.insert(p.clone(), git_ignored);
        if git_ignored {
            n_ign += 1;
        } else {
            n_keep += 1;
        }
        info.class_if(g.matched() && !git_ignored, "o2_negation_decides");
        info.class_if(git_ignored && direct.is_whitelist(), "o2_negation_blocked_by_ignored_parent");
        if git_ignored && direct.is_whitelist() {
            BLOCKED_NEGATION_SEEN.fetch_add(1, Ordering::Relaxed);
        }
        info.class_if(git_ignored && direct.is_none(), "o2_ignored_through_parent_only");
        info.class_if(git_ignored && *is_dir, "o2_ignored_directory");
        info.class_if(git_ignored && has_dot_component(p), "o2_ignored_name_ending_in_dot");
        info.class_if(git_ignored && p.iter().any(|b| matches!(b, b'*' | b'?' | b'[' | b'#' | b'!')), "o2_ignored_glob_looking_name");
        if rg_ignored != git_ignored {
            let rg_desc = match &m {
                ignore::Match::None => "no match".to_string(),
                ignore::Match::Ignore(gl) => format!("Ignore by \"{}\" (compiled as \"{}\")", gl.original(), gl.actual()),
                ignore::Match::Whitelist(gl) => format!("Whitelist by \"{}\" (compiled as \"{}\")", gl.original(), gl.actual()),
            };
            let git_desc = if g.matched() { format!("decided by pattern \"{}\"", enc(&g.pattern)) } else { "no pattern matches".to_string() };
            diffs.push(format!(
                "  {} \"{}\": git says {} ({git_desc}); matched_path_or_any_parents says {rg_desc}",
                if *is_dir { "dir " } else { "file" },
                enc(p),
                if git_ignored { "IGNORED" } else { "not ignored" },
            ));
            diff_paths.push((p.clone(), git_ignored, rg_ignored));
        }
    }
    info.class_if(n_ign > 0 && n_keep > 1, "o2_some_ignored_some_kept");
    info.class_if(err.is_some(), "o2_builder_reported_a_glob_error");
    if !diffs.is_empty() {
        let mut f = Fail::new(format!(
            "C04 oracle 2 (library): Gitignore::matched_path_or_any_parents disagrees with `git check-ignore --no-index -v -n` on a single root-level ignore file\n root .gitignore: \"{}\"\n case-insensitive: {}\n tree files: {}\n{}\n builder errors: {}\n cmd: git -c core.ignorecase={} check-ignore --no-index -z -v -n --stdin   (cwd = repository root, all tree paths and ancestor directories on stdin)",
            enc(&ign.text),
            case.icase,
            case.files.iter().map(|f| format!("\"{}\"", enc(f))).collect::<Vec<_>>().join(", "),
            diffs.join("\n"),
            err.map(|e| e.to_string()).unwrap_or_else(|| "none".to_string()),
            case.icase,
        ))
        .fact("oracle2");
        // classify every differing path by root-cause shape; the fact names
        // the set of shapes, and "other" as soon as one path fits none, so
        // a new kind of difference is never covered by a listed finding
        let is_dir_of = |p: &Vec<u8>| paths.iter().find(|q| &q.0 == p).map_or(false, |q| q.1);
        let root_hit = gi.matched(repo, true).is_ignore();
        let mut kinds: BTreeSet<&'static str> = BTreeSet::new();
        for (p, git_ignored, rg_ignored) in &diff_paths {
            let abs = repo.join(os(p));
            let is_dir = is_dir_of(p);
            let mut ancestor_ignored = false;
            let mut q: &[u8] = p;
            while let Some(i) = q.iter().rposition(|b| *b == b'/') {
                q = &q[..i];
                ancestor_ignored |= gi.matched(repo.join(os(q)), true).is_ignore();
            }
            let kind = if *git_ignored && !*rg_ignored && ancestor_ignored && gi.matched_path_or_any_parents(&abs, is_dir).is_whitelist() {
                // rg re-includes through a negated pattern although an
                // ancestor directory is ignored
                "whitelist-below-ignored-dir"
            } else if !*git_ignored && *rg_ignored && root_hit && !ancestor_ignored && !gi.matched(&abs, is_dir).is_ignore() {
                // the only "ignore" rg finds is for the matcher's root
                // directory itself (the empty relative path) tested as a parent
                "root-as-parent"
            } else {
                "other"
            };
            kinds.insert(kind);
        }
        let kinds: Vec<&str> = if kinds.contains("other") { vec!["other"] } else { kinds.into_iter().collect() };
        f = f.fact(format!("o2-diff-kinds:{}", kinds.join("+")));
        return Err(Verdict::Fail(f));
    }
    Ok(())
}

fn oracle1(
    case: &Case,
    tmp: &Path,
    repo: &Path,
    home: &Path,
    info: &mut Info,
    phase_a: Option<&BTreeMap<Vec<u8>, bool>>,
) -> Result<(), Verdict> {
    // everything below is expressed relative to the repository root; with
    // invoke == 4 both tools work inside `sub` and print paths relative to it
    let sub_dir: PathBuf = if case.invoke == 4 { repo.join(os(&case.sub)) } else { repo.to_path_buf() };
    let scope: Vec<u8> = if case.invoke == 4 {
        let mut v = case.sub.0.clone();
        v.push(b'/');
        v
    } else {
        vec![]
    };
    let full = |rel: &[u8]| {
        let mut v = scope.clone();
        v.extend_from_slice(rel);
        v
    };
    if case.invoke == 4 {
        // git lists nothing inside an ignored directory, rg does not apply
        // ignore rules to the directory it was asked to search: the property
        // says nothing about that situation
        match check_ignore(repo, home, case.icase, &[case.sub.0.clone()]) {
            Ok(v) if v.len() == 1 && !v[0].ignored() => {}
            Ok(_) => return Err(Verdict::Reject("search root lies inside an ignored directory")),
            Err(None) => return Err(inconclusive("git check-ignore timed out (inconclusive)")),
            Err(Some(_)) => return Err(inconclusive("git check-ignore failed (inconclusive)")),
        }
    }
    let ls = git(&sub_dir, home, case.icase, &["ls-files", "--others", "--exclude-standard", "-z"]).run();
    if ls.timed_out {
        return Err(inconclusive("git ls-files timed out (inconclusive)"));
    }
    if ls.status != Some(0) {
        return Err(inconclusive("git ls-files failed (inconclusive)"));
    }
    let want: BTreeSet<Vec<u8>> = split0(&ls.stdout).into_iter().map(|p| full(&p)).filter(|p| !p.starts_with(b".git/")).collect();

    let (cwd, path_arg, prefix): (&Path, Option<Vec<u8>>, Vec<u8>) = match case.invoke {
        0 => (repo, None, vec![]),
        1 => (repo, Some(b"./".to_vec()), b"./".to_vec()),
        2 => (tmp, Some(b"r".to_vec()), b"r/".to_vec()),
        4 => (&sub_dir, None, vec![]),
        _ => {
            let mut a = repo.as_os_str().as_bytes().to_vec();
            let arg = a.clone();
            a.push(b'/');
            (repo, Some(arg), a)
        }
    };
    let mut rg = Rg::new(cwd)
        .env("HOME", &home.to_string_lossy())
        .env("XDG_CONFIG_HOME", &home.join(".xdg-none").to_string_lossy())
        .args(["--files", "--hidden", "--no-ignore-dot", "--no-ignore-global", "--no-ignore-exclude", "--no-config", "--null"])
        .arg(format!("-j{}", case.threads.max(1)));
    if case.invoke != 4 {
        rg = rg.arg("--no-ignore-parent");
    }
    if case.icase {
        rg = rg.arg("--ignore-file-case-insensitive");
    }
    if let Some(a) = &path_arg {
        rg = rg.arg(os(a).to_os_string());
    }
    let cmd = rg.cmdline();
    let out: Out = rg.run();
    if out.timed_out {
        RG_TIMEOUTS.lock().unwrap().push(format!("{cmd}  case={}", serde_json::to_string(case).unwrap_or_default()));
        return Err(inconclusive("rg timed out (inconclusive)"));
    }
    if out.status.is_none() && out.stderr.starts_with(b"spawn failed") {
        return Err(inconclusive("rg could not be started (inconclusive)"));
    }
    let mut got: BTreeSet<Vec<u8>> = BTreeSet::new();
    let mut malformed: Vec<Vec<u8>> = vec![];
    for p in split0(&out.stdout) {
        match p.strip_prefix(&prefix[..]) {
            Some(rel) => {
                if rel.starts_with(b".git/") {
                    continue;
                }
                if !got.insert(full(rel)) {
                    malformed.push(p.clone());
                }
            }
            None => malformed.push(p.clone()),
        }
    }
    let missing: BTreeSet<Vec<u8>> = want.difference(&got).cloned().collect();
    let extra: BTreeSet<Vec<u8>> = got.difference(&want).cloned().collect();

    // classes from git's own view of the final repository
    let tree_files: BTreeSet<Vec<u8>> = case.files.iter().map(|f| f.0.clone()).filter(|f| f.starts_with(&scope)).collect();
    let ignored: Vec<&Vec<u8>> = tree_files.iter().filter(|f| !want.contains(*f)).collect();
    let kept = tree_files.iter().filter(|f| want.contains(*f)).count();
    info.nontrivial = !ignored.is_empty() && kept > 0;
    info.class_if(!ignored.is_empty() && kept > 0, "some_ignored_some_kept");
    info.class_if(ignored.is_empty(), "nothing_ignored");
    info.class_if(kept == 0, "everything_ignored");
    info.class_if(ignored.iter().any(|f| has_dot_component(f)), "ignored_name_ending_in_dot");
    info.class_if(ignored.iter().any(|f| f.iter().any(|b| matches!(b, b'*' | b'?' | b'[' | b'#' | b'!'))), "ignored_glob_looking_name");
    info.class_if(ignored.iter().any(|f| f.ends_with(b" ") || f.windows(2).any(|w| w == b" /")), "ignored_name_ending_in_blank");
    info.class_if(
        case.ignores.iter().any(|g| {
            let mut p = g.dir.0.clone();
            if !p.is_empty() {
                p.push(b'/');
            }
            p.extend_from_slice(b".gitignore");
            p.starts_with(&scope) && !want.contains(&p)
        }),
        "gitignore_file_itself_ignored_or_pruned",
    );
    if let Some(pa) = phase_a {
        // the root file alone decided differently from all files together
        let overridden = tree_files.iter().any(|f| pa.get(f).map_or(false, |a| *a != !want.contains(f)));
        info.class_if(overridden, "deeper_file_overrides_shallower");
        let reincluded = tree_files.iter().any(|f| pa.get(f) == Some(&true) && want.contains(f));
        info.class_if(reincluded, "deeper_file_reincludes");
    }

    if !missing.is_empty() || !extra.is_empty() || !malformed.is_empty() {
        let f = Fail::new(format!(
            "C04 oracle 1 (CLI): the files rg lists differ from the files git considers not ignored\n{} cmd (cwd {}): {cmd}\n reference: git -c core.ignorecase={} ls-files --others --exclude-standard -z   (cwd = repository root)\n git lists:  {}\n rg lists:   {}\n rg skips although git does not ignore: {}\n rg lists although git ignores:         {}\n unexpected rg output records: {:?}\n rg status {:?}, stderr: {:?}",
            show_case(case),
            match case.invoke {
                2 => "= parent of the repository r".to_string(),
                4 => format!("= subdirectory \"{}\" of the repository; git runs there too; paths shown relative to the repository root", enc(&case.sub)),
                _ => "= repository root".to_string(),
            },
            case.icase,
            show_set(&want),
            show_set(&got),
            show_set(&missing),
            show_set(&extra),
            malformed.iter().map(|m| enc(m)).collect::<Vec<_>>(),
            out.status,
            String::from_utf8_lossy(&out.stderr),
        ))
        .fact("oracle1");
        let deep = |p: &Vec<u8>| p.strip_prefix(&scope[..]).map_or(false, |rel| rel.contains(&b'/'));
        let f = if case.invoke == 4 && malformed.is_empty() && missing.iter().chain(extra.iter()).all(deep) {
            f.fact("all-diffs-two-or-more-levels-below-search-root")
        } else {
            f
        };
        return Err(Verdict::Fail(f));
    }
    Ok(())
}

// ---- bounded shrinking
//
// One evaluation costs four processes, and the runner lets proptest try up
// to 4000 shrink candidates sequentially on the failing worker. To keep a
// failing quick run inside its budget, only the first SHRINK_EVALS
// candidates are really evaluated; later candidates are answered "passes"
// without being run (so proptest stops simplifying), except the current
// smallest failing case, which the runner re-executes at the end and which
// is answered from its recorded failure (recorded only after a second,
// independent execution confirmed it). A worker only enters this mode after
// it has seen a failure that no listed known finding explains, i.e. exactly when
// the runner starts shrinking on that worker (it never generates fresh
// cases afterwards).
const SHRINK_EVALS: u32 = 150;

struct ShrinkState {
    /// the current smallest failing case (serialized) and its failure; the
    /// failure was confirmed by a second, independent execution of the case
    failing: Option<(String, Fail)>,
    evals: u32,
}

thread_local! {
    static SHRINK: std::cell::RefCell<ShrinkState> = const { std::cell::RefCell::new(ShrinkState { failing: None, evals: 0 }) };
}

/// The facts one root-cause shape produces when it occurs alone.
fn component_facts(oracle: &str, name: &str) -> Vec<String> {
    match name {
        "root-as-parent" | "whitelist-below-ignored-dir" => vec!["oracle2".to_string(), format!("o2-diff-kinds:{name}")],
        other => vec![oracle.to_string(), format!("explained-by:{other}")],
    }
}

/// A failure that combines several root-cause shapes is tolerated only if
/// every single shape is a listed known finding by itself; it is then
/// reported under the first of them. Anything else stays a violation.
fn resolve_combination(pc: &PropCtx, f: Fail) -> Fail {
    if pc.strict || pc.match_known(&f).is_some() {
        return f;
    }
    let oracle = if f.facts.iter().any(|x| x == "oracle1") { "oracle1" } else { "oracle2" };
    let list = f
        .facts
        .iter()
        .find_map(|x| x.strip_prefix("explained-by-combination:"))
        .or_else(|| f.facts.iter().find_map(|x| x.strip_prefix("o2-diff-kinds:")));
    let comps: Vec<String> = match list {
        Some(list) if list.contains('+') => list.split('+').map(String::from).collect(),
        _ => return f,
    };
    let all_known = comps.iter().all(|c| {
        let mut probe = Fail::new("");
        probe.facts = component_facts(oracle, c);
        pc.match_known(&probe).is_some()
    });
    if !all_known {
        return f;
    }
    let mut g = f;
    g.facts = component_facts(oracle, &comps[0]);
    g.facts.push(format!("combination-of-listed-findings:{}", comps.join("+")));
    g
}

fn check_budgeted(pc: &PropCtx, case: &Case) -> Verdict {
    let ser = serde_json::to_string(case).unwrap_or_default();
    let (in_shrink, over, cached) = SHRINK.with(|s| {
        let s = s.borrow();
        let cached = match &s.failing {
            Some((c, f)) if *c == ser => Some(f.clone()),
            _ => None,
        };
        (s.failing.is_some(), s.evals >= SHRINK_EVALS, cached)
    });
    // many shrink candidates decode to the very same case
    if let Some(f) = cached {
        return Verdict::Fail(f);
    }
    if in_shrink && over {
        return Verdict::Pass(Info::new(false));
    }
    let resolve = |v: Verdict| match v {
        Verdict::Fail(f) => Verdict::Fail(resolve_combination(pc, f)),
        v => v,
    };
    let mut v = resolve(check(case));
    if let Verdict::Fail(f) = &v {
        if pc.strict || pc.match_known(f).is_none() {
            // believe a failure only after re-executing the case from scratch
            v = resolve(check(case));
        }
    }
    SHRINK.with(|s| {
        let mut s = s.borrow_mut();
        if in_shrink {
            s.evals += 1;
        }
        if let Verdict::Fail(f) = &v {
            if pc.strict || pc.match_known(f).is_none() {
                s.failing = Some((ser, f.clone()));
            }
        }
    });
    v
}

pub fn run(pc: &PropCtx) {
    pc.rule(
        "each case is a generated git repository (`git init` in a scratch directory): a tree <= 4 levels deep with 1-5 entries per directory, names from {a,b,c,A,B,x.rs,y.txt,z.o,a.b,a-b,ab,.h,.hd,foo.,*.rs,[a],a?,'a b',#c,!c,'a ','a ?','c *'}; 1-4 .gitignore files (normally one at the root, the rest in random directories) of 1-6 lines each. Lines are derived from paths that exist below the ignore file (6/7) or invented paths (1/7): basename only, full relative path, path suffix, **/tail, head/**, head/**/tail, bare wildcards; every segment literal-escaped, raw, with * / ? / bracket class (plain, range, negated with ! or ^) substituted, case-flipped, needlessly escaped, or with ** directly followed by an ordinary character ('regular asterisks'); optionally a wildcard or class where a separator belongs; optional leading /, trailing /, !, \\# \\! and '\\ ' escapes, trailing blanks; comment, blank and blanks-only lines; last line optionally unterminated; a deeper file repeats, with probability 1/3 per line, an unanchored pattern of a shallower file with the negation toggled. Per repository both oracles are evaluated: (1) rg --files vs git ls-files --others --exclude-standard with all ignore files, (2) Gitignore::matched_path_or_any_parents vs git check-ignore --no-index -v -n for every file and ancestor directory with the root-level ignore file alone. 1/4 of the cases pair --ignore-file-case-insensitive with git -c core.ignorecase=true. rg is pointed at the repository as cwd, ./, relative directory or absolute directory (all with --no-ignore-parent), or (18%) both rg and git ls-files run inside a subdirectory of the repository, rg without --no-ignore-parent, so that the ignore files above the search root apply (cases whose search root lies inside an ignored directory are rejected: git lists nothing there, rg never ignores its search root); -j1 or -j2. Non-trivial = with all ignore files in place git ignores at least one tree file and keeps at least one; distinct by hash of the case",
    );
    pc.assume("git 2.39 (`ls-files --others --exclude-standard`, `check-ignore --no-index -v -n`) is the reference semantics of gitignore files; it runs with an empty environment, GIT_CONFIG_NOSYSTEM=1, GIT_CONFIG_GLOBAL=/dev/null, HOME/XDG_CONFIG_HOME inside the scratch directory (no global excludes file exists there), `git init --template=` (no info/exclude)");
    pc.assume("domain exclusions (behaviour `man gitignore` / fnmatch(3) do not define): a trailing unescaped backslash, unclosed brackets, POSIX [[:class:]] / backslash inside brackets, runs of three or more asterisks, empty segments (`//`), `!` or `/` alone, leading blanks, CR line ends, non-UTF-8 pattern bytes; symlinks, empty directories and nested repositories are not generated");
    pc.assume("three git 2.39 behaviours that contradict or go beyond its own documentation are kept out of the generator (rg follows the documentation there): (1) `x**/y` and a final `x**` - git strips the literal prefix `x` before wildmatch, which turns the rest into a leading `**/` / bare `**` that crosses directories although the manual calls these 'regular asterisks'; (2) under core.ignorecase a backslash-escaped upper-case letter (`\\A`) matches nothing; (3) under core.ignorecase an upper-case single member of a bracket class (`[A]`) matches nothing (ranges are fine)");
    pc.assume("oracle 2 compares the decision ignored / not ignored only; whether a non-ignored path is reported as 'whitelisted' or 'no match' is not part of the property");
    pc.bound("max_depth", serde_json::json!(4));
    pc.bound("max_files", serde_json::json!(40));
    pc.bound("ignore_files", serde_json::json!("1..=4"));
    pc.bound("lines_per_ignore_file", serde_json::json!("1..=6"));
    let cases = pc.tier.pick(3000, 30_000);
    pc.run_tape("git_differential", cases, (64, 700), gen_case, |c| check_budgeted(pc, c));
    for (i, c) in RG_TIMEOUTS.lock().unwrap().iter().enumerate().take(5) {
        pc.note(format!("rg watchdog expiry #{i} (inconclusive, not a violation): {c}"));
    }
    let inc = INCONCLUSIVE_RUNS.load(Ordering::Relaxed);
    if inc > cases as u64 / 50 {
        pc.inconclusive(format!("{inc} repositories could not be compared (timeouts / git failures)"));
    }
    let c = cases as u64;
    let floor = |class: &str, min: u64| pc.require_class(&format!("git_differential:{class}"), min);
    floor("some_ignored_some_kept", c / 4);
    floor("o2_some_ignored_some_kept", c / 4);
    floor("o2_negation_decides", c / 25);
    pc.count_class("git_differential:paths_with_negation_blocked_by_ignored_parent_any_verdict", BLOCKED_NEGATION_SEEN.load(Ordering::Relaxed));
    floor("paths_with_negation_blocked_by_ignored_parent_any_verdict", c / 100);
    floor("o2_ignored_directory", c / 10);
    floor("deeper_file_overrides_shallower", c / 25);
    floor("dironly_pattern_names_a_regular_file", c / 50);
    floor("anchored_leading_slash", c / 10);
    floor("anchored_inner_slash", c / 10);
    floor("unanchored", c / 4);
    floor("doublestar_leading", c / 20);
    floor("doublestar_trailing", c / 20);
    floor("doublestar_inner", c / 30);
    floor("bracket_class", c / 10);
    floor("backslash_escape", c / 20);
    floor("trailing_blanks", c / 20);
    floor("case_insensitive", c / 8);
    floor("ignored_glob_looking_name", c / 40);
    floor("tree_has_name_ending_in_dot", c / 20);
    floor("invoke_subdirectory_with_parent_ignore_files", c / 25);
    floor("parallel_walker", c / 8);
}

pub fn replay(_pc: &PropCtx, _sub: &str, case: &serde_json::Value) -> Result<Verdict, String> {
    let c: Case = serde_json::from_value(case.clone()).map_err(|e| e.to_string())?;
    Ok(check(&c))
}
