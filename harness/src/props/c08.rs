//! C08 — multi-threaded search output is a permutation of the single-threaded
//! output (per-file blocks contiguous and byte-identical, each once, file
//! separators exactly between blocks, same exit status); with `--sort` the
//! output equals the single-threaded output exactly and is reproducible.
//!
//! CLI level, metamorphic: `rg -j1 ARGS` is the reference for `rg -jN ARGS` on
//! the same generated tree. Schedules are not controlled: the check perturbs
//! timing (files of very different size, an optional `--pre` script that sleeps
//! a per-file 0..20 ms, 16 harness workers competing for the cores) and counts
//! how many different block orders were actually observed.

use std::collections::{BTreeSet, HashMap};
use std::io::Write;
use std::ops::Range;
use std::sync::atomic::{AtomicU64, Ordering};

use serde::{Deserialize, Serialize};

use crate::bs::Bs;
use crate::cli::{Out, Rg, TempDir};
use crate::runner::{show, Fail, Info, PropCtx, Verdict};
use crate::tape::Tape;

// ---------------------------------------------------------------- the case

#[derive(Clone, Debug, Serialize, Deserialize, PartialEq)]
pub struct FileSpec {
    /// path relative to the tree root, components separated by `/`
    pub path: String,
    pub lines: u32,
    /// approximate line width in bytes
    pub width: u16,
    /// 0 = no line contains the needle; otherwise lines `first, first+every, ..`
    pub hit_every: u32,
    pub hit_first: u32,
    pub salt: u32,
    pub final_newline: bool,
    /// a NUL byte is put at the start of this line (binary detection)
    pub nul_line: Option<u32>,
}

#[derive(Clone, Debug, Serialize, Deserialize, PartialEq)]
pub enum Mode {
    Standard { heading: bool, before: u8, after: u8, passthru: bool, line_number: bool },
    Count { matches: bool, include_zero: bool },
    FilesWithMatches { without: bool },
    Json { before: u8, after: u8 },
    Files,
}

#[derive(Clone, Copy, Debug, Serialize, Deserialize, PartialEq)]
pub enum Root {
    /// cwd = tree root, no path argument
    Implicit,
    /// cwd = tree root, argument `./`
    Dot,
    /// cwd = parent of the tree root, argument `t`
    Named,
    /// cwd = tree root, every top-level entry given as an argument
    Multi,
}

#[derive(Clone, Copy, Debug, Serialize, Deserialize, PartialEq)]
pub enum Sort {
    None,
    Path,
    PathReverse,
}

#[derive(Clone, Debug, Serialize, Deserialize, PartialEq)]
pub struct Pre {
    /// `--pre-glob`, if any (otherwise every file goes through the script)
    pub glob: Option<String>,
    /// per-file delay is `fnv(path) % (max_ms + 1)` milliseconds
    pub max_ms: u8,
}

#[derive(Clone, Debug, Serialize, Deserialize, PartialEq)]
pub struct Case {
    pub files: Vec<FileSpec>,
    pub root: Root,
    pub pattern: String,
    pub mode: Mode,
    pub extra: Vec<String>,
    pub sort: Sort,
    pub pre: Option<Pre>,
    pub threads: Vec<u8>,
    pub repeats: u8,
}

// ---------------------------------------------------------------- generator

const WORDS: &[&str] = &[
    "lorem", "ipsum", "dolor", "sit", "amet", "sed", "do", "ut", "labore", "magna", "aliqua", "enim", "minim", "quis",
    "nisi", "ex", "ea", "duis", "aute", "irure", "in", "velit", "esse", "cillum", "fugiat", "nulla", "sint", "non",
    "culpa", "qui", "mollit", "anim", "est", "Xyz", "a", "b0",
];
const STEMS: &[&str] = &["a", "b", "main", "lib", "x1", "foo", "bar-baz", "data", "m_n", "A", "readme", "k.v", "z-", "q9"];
const EXTS: &[&str] = &["", ".rs", ".txt", ".z", ".c", ".z"];
const DIRS: &[&str] = &["src", "d", "e1", "deep", "x-y", "lib.d"];
const PATTERNS: &[&str] = &["hit[0-9]+", "hit", r"\bhit\d+\b", r"hit[0-9]*[05]\b"];
const THREADS: &[u8] = &[2, 3, 4, 8, 16];

fn prefix_clash(a: &str, b: &str) -> bool {
    a.starts_with(b) || b.starts_with(a)
}

fn gen_tree(t: &mut Tape) -> Vec<FileSpec> {
    let n_files = t.range(5, 60);
    // directories: each a child of the root or of an earlier directory
    // a quarter of the trees are deep chains of directories: there a worker's
    // deque holds a single item most of the time, which is where steals and
    // the termination protocol of the parallel walker meet
    let chain = t.chance(1, 4);
    let n_dirs = if chain { 6 + t.below(12) } else { t.below(9) };
    let mut dirs: Vec<(String, usize)> = vec![(String::new(), 0)];
    for i in 0..n_dirs {
        let parent = if chain { dirs.len() - 1 } else { t.below(dirs.len()) };
        let (pp, depth) = dirs[parent].clone();
        if !chain && depth >= 3 {
            continue;
        }
        let name = format!("{}{}", t.pick(DIRS), i);
        let p = if pp.is_empty() { name } else { format!("{pp}/{name}") };
        dirs.push((p, depth + 1));
    }
    // a quarter of the trees: the needle occurs in very few files (the exit
    // status then hangs on one or two workers)
    let sparse = t.chance(1, 4);
    let mut files: Vec<FileSpec> = vec![];
    let mut budget_lines: i64 = 42_000;
    let mut large = 0;
    for idx in 0..n_files {
        let dir = dirs[t.below(dirs.len())].0.clone();
        let mut path = None;
        for _ in 0..6 {
            let name = format!("{}{}", t.pick(STEMS), t.pick(EXTS));
            let cand = if dir.is_empty() { name } else { format!("{dir}/{name}") };
            if !files.iter().any(|f| prefix_clash(&f.path, &cand)) && !dirs.iter().any(|(d, _)| *d == cand) {
                path = Some(cand);
                break;
            }
        }
        // fixed-width fallback names are prefix-free among themselves and
        // cannot clash with the vocabulary above
        let path = path.unwrap_or_else(|| {
            let name = format!("f{idx:02}q");
            if dir.is_empty() {
                name
            } else {
                format!("{dir}/{name}")
            }
        });
        if files.iter().any(|f| prefix_clash(&f.path, &path)) {
            continue;
        }
        let width = t.range(12, 64) as u16;
        let mut lines = match t.weighted(&[5, 5, 1, 3, 1]) {
            0 => t.range(1, 5),
            1 => t.range(6, 60),
            2 => 0,
            3 => t.range(200, 3000),
            _ => t.range(8000, 25000),
        } as u32;
        if lines >= 8000 {
            large += 1;
        }
        if lines as i64 > budget_lines || (lines >= 8000 && large > 2) {
            lines = t.range(1, 40) as u32;
        }
        budget_lines -= lines as i64;
        let (hit_every, hit_first) = if lines == 0 || (sparse && !t.chance(1, 10)) {
            (0, 0)
        } else {
            match t.weighted(&[4, 3, 3, 1]) {
                0 => (0, 0),
                1 => (lines + 1, t.below(lines as usize) as u32),
                2 => ((lines / 3).max(2), t.below((lines as usize / 3).max(1)) as u32),
                _ => {
                    // many hits; keep the output of huge files bounded
                    let every = if lines >= 8000 { t.range(40, 90) } else { t.range(1, 2) };
                    (every as u32, 0)
                }
            }
        };
        files.push(FileSpec {
            path,
            lines,
            width,
            hit_every,
            hit_first,
            salt: t.raw(),
            final_newline: !t.chance(1, 6),
            nul_line: None,
        });
    }
    // one binary-looking file in a quarter of the trees
    if t.chance(1, 4) {
        // prefer files that contain the needle (their block then carries a
        // binary-file notice), top-level ones first (with Root::Multi they are
        // named on the command line and searched in "convert" mode)
        // (half of the time; otherwise files below a directory, which are
        // found by traversal and searched in "quit" mode — the two modes are
        // per-file state of each worker's searcher)
        let prefer_top = t.bool();
        let mut cands: Vec<usize> = (0..files.len())
            .filter(|&i| files[i].lines >= 2 && files[i].hit_every > 0 && files[i].path.contains('/') != prefer_top)
            .collect();
        if cands.is_empty() {
            cands = (0..files.len()).filter(|&i| files[i].lines >= 2 && files[i].hit_every > 0).collect();
        }
        if cands.is_empty() {
            cands = (0..files.len()).filter(|&i| files[i].lines >= 2).collect();
        }
        if !cands.is_empty() {
            let k = 1 + t.small(3);
            for _ in 0..k {
                let i = cands[t.below(cands.len())];
                files[i].nul_line = Some(t.below(files[i].lines as usize) as u32);
            }
        }
    }
    files
}

fn gen_mode(t: &mut Tape) -> Mode {
    let ctx = |t: &mut Tape| -> (u8, u8) {
        match t.below(3) {
            0 => (1, 1),
            1 => (0, t.range(1, 3) as u8),
            _ => (t.range(1, 3) as u8, 0),
        }
    };
    match t.weighted(&[3, 3, 4, 2, 2, 3, 2]) {
        0 => Mode::Standard { heading: false, before: 0, after: 0, passthru: false, line_number: t.bool() },
        1 => Mode::Standard { heading: true, before: 0, after: 0, passthru: false, line_number: t.bool() },
        2 => {
            let heading = t.bool();
            if t.chance(1, 6) {
                Mode::Standard { heading, before: 0, after: 0, passthru: true, line_number: t.bool() }
            } else {
                let (before, after) = ctx(t);
                Mode::Standard { heading, before, after, passthru: false, line_number: t.bool() }
            }
        }
        3 => Mode::Count { matches: t.chance(1, 3), include_zero: t.chance(1, 3) },
        4 => Mode::FilesWithMatches { without: t.chance(1, 3) },
        5 => {
            if t.bool() {
                Mode::Json { before: 0, after: 0 }
            } else {
                let (before, after) = ctx(t);
                Mode::Json { before, after }
            }
        }
        _ => Mode::Files,
    }
}

fn goes_through_pre(pre: Option<&Pre>, path: &str) -> bool {
    match pre {
        None => false,
        Some(Pre { glob: None, .. }) => true,
        // the only glob generated is `*.z`
        Some(Pre { glob: Some(_), .. }) => path.ends_with(".z"),
    }
}

/// A file with a NUL byte that reaches the searcher through the preprocessor's
/// pipe. Where such a search is cut off depends on how many bytes each read of
/// the pipe returned (binary detection looks at whole buffers): repeated -j1
/// runs of the same command already print different numbers of matching lines
/// and different `bytes_searched`. That is not a property of multi-threading
/// (DESIGN 2.9.3 lists "which lines of a binary file are printed before the
/// cut-off" among the acceptable variations), so the shape is excluded.
fn piped_binary(case: &Case) -> bool {
    case.files.iter().any(|f| f.nul_line.is_some() && goes_through_pre(case.pre.as_ref(), &f.path))
}

/// `n_threads` thread counts and `repeats` runs per count (fixed per tier).
pub fn gen_case(t: &mut Tape, n_threads: usize, repeats: u8, sorted: bool) -> Case {
    // the configuration is drawn before the tree so that a tape that runs out
    // inside a big tree does not push every choice to its first alternative
    let mode = gen_mode(t);
    let mut pool = THREADS.to_vec();
    let mut threads = vec![];
    for _ in 0..n_threads.min(THREADS.len()) {
        threads.push(pool.remove(t.below(pool.len())));
    }
    let mut root = *t.pick(&[Root::Implicit, Root::Dot, Root::Named, Root::Multi]);
    let pattern = match t.weighted(&[4, 3, 3, 3, 1]) {
        4 => "hit0000".to_string(), // matches nothing: exit status 1
        i => PATTERNS[i].to_string(),
    };
    let mut extra = vec![];
    let plain_standard = matches!(mode, Mode::Standard { before: 0, after: 0, passthru: false, .. });
    for _ in 0..t.below(3) {
        let cands: &[&str] = match mode {
            Mode::Files => &["--hidden", "--no-ignore"],
            _ => &["-i", "--no-mmap", "--mmap", "-b", "--column", "-m2", "-o", "--no-ignore"],
        };
        let f = *t.pick(cands);
        if f == "-o" && !(plain_standard || matches!(mode, Mode::Count { .. } | Mode::Json { before: 0, after: 0 })) {
            continue;
        }
        if (f == "-b" || f == "--column") && !matches!(mode, Mode::Standard { .. }) {
            continue;
        }
        if !extra.iter().any(|e| e == f) {
            extra.push(f.to_string());
        }
    }
    let sort = if sorted {
        if t.chance(1, 3) {
            Sort::PathReverse
        } else {
            Sort::Path
        }
    } else {
        Sort::None
    };
    // the slow preprocessor: a quarter of the searching cases
    let pre = if mode != Mode::Files && t.chance(1, 4) {
        // (--sort runs are single-threaded anyway: keep their sleeps short)
        Some(Pre { glob: if t.bool() { None } else { Some("*.z".to_string()) }, max_ms: if sorted { 3 } else { 20 } })
    } else {
        None
    };
    let mut files = gen_tree(t);
    // domain exclusion (see `piped_binary`): no binary file behind the --pre pipe
    for f in files.iter_mut() {
        if f.nul_line.is_some() && goes_through_pre(pre.as_ref(), &f.path) {
            f.nul_line = None;
        }
    }
    if root == Root::Multi {
        // the roots are named in the order of first appearance: half of the
        // time the plain files come first, so that a worker searches an
        // explicitly named file before it walks into the directories
        if t.bool() {
            files.sort_by_key(|f| f.path.contains('/'));
        }
        // and more often than elsewhere some file below a directory is binary
        if t.bool() {
            let nested: Vec<usize> = (0..files.len()).filter(|&i| files[i].path.contains('/') && files[i].lines >= 2 && files[i].hit_every > 0 && !goes_through_pre(pre.as_ref(), &files[i].path)).collect();
            if !nested.is_empty() {
                let k = 1 + t.small(3);
                for _ in 0..k {
                    let i = nested[t.below(nested.len())];
                    files[i].nul_line = Some(t.below(files[i].lines as usize) as u32);
                }
            }
        }
    }
    let top_level: BTreeSet<&str> = files.iter().map(|f| f.path.split('/').next().unwrap()).collect();
    if root == Root::Multi && top_level.len() < 2 {
        root = Root::Implicit;
    }
    Case { files, root, pattern, mode, extra, sort, pre, threads, repeats }
}

// ---------------------------------------------------------------- the tree on disk

pub fn content(f: &FileSpec) -> Vec<u8> {
    let mut out = Vec::with_capacity(f.lines as usize * (f.width as usize + 12));
    let mut s: u64 = (f.salt as u64).wrapping_mul(0x9E3779B97F4A7C15) | 1;
    let mut next = move || {
        s ^= s << 13;
        s ^= s >> 7;
        s ^= s << 17;
        (s >> 33) as usize
    };
    for i in 0..f.lines {
        if f.nul_line == Some(i) {
            out.push(0);
        }
        let start = out.len();
        let hit = f.hit_every > 0 && i >= f.hit_first && (i - f.hit_first) % f.hit_every == 0;
        out.extend_from_slice(WORDS[next() % WORDS.len()].as_bytes());
        out.push(b' ');
        if hit {
            out.extend_from_slice(format!("hit{i} ").as_bytes());
        }
        loop {
            out.extend_from_slice(WORDS[next() % WORDS.len()].as_bytes());
            if out.len() - start >= f.width as usize {
                break;
            }
            out.push(b' ');
        }
        if i + 1 < f.lines || f.final_newline {
            out.push(b'\n');
        }
    }
    out
}

fn fnv(s: &str) -> u64 {
    let mut h: u64 = 0xcbf29ce484222325;
    for b in s.bytes() {
        h = (h ^ b as u64).wrapping_mul(0x100000001b3);
    }
    h
}

/// The path as rg prints it for this root.
fn printed_path(root: Root, rel: &str) -> String {
    match root {
        Root::Implicit | Root::Multi => rel.to_string(),
        Root::Dot => format!("./{rel}"),
        Root::Named => format!("t/{rel}"),
    }
}

/// Write an executable script without ever holding a write descriptor to it
/// in this (multi-threaded, forking) process: a descriptor inherited by a
/// concurrently forked child would make `execve` of the script fail with
/// ETXTBSY.
fn write_script(path: &std::path::Path, body: &str) -> Result<(), String> {
    let mut child = std::process::Command::new("/bin/sh")
        .arg("-c")
        .arg("cat > \"$0\" && chmod 755 \"$0\"")
        .arg(path)
        .stdin(std::process::Stdio::piped())
        .stdout(std::process::Stdio::null())
        .stderr(std::process::Stdio::null())
        .spawn()
        .map_err(|e| e.to_string())?;
    child.stdin.take().unwrap().write_all(body.as_bytes()).map_err(|e| e.to_string())?;
    let st = child.wait().map_err(|e| e.to_string())?;
    if st.success() {
        Ok(())
    } else {
        Err(format!("sh exited with {st}"))
    }
}

fn pre_script(case: &Case, pre: &Pre) -> String {
    let mut s = String::from("#!/bin/sh\ncase \"$1\" in\n");
    for f in &case.files {
        let ms = fnv(&f.path) % (pre.max_ms as u64 + 1);
        if ms > 0 {
            s.push_str(&format!("  '{}') sleep 0.{:03};;\n", printed_path(case.root, &f.path), ms));
        }
    }
    s.push_str("esac\nexec cat -- \"$1\"\n");
    s
}

// ---------------------------------------------------------------- command lines

#[derive(Clone, Copy, PartialEq, Eq, Debug)]
enum Shape {
    /// `path` line, content lines, blocks separated by one empty line
    Heading,
    /// every line starts with `path:` / `path-`; `sep`: one `--` line between files
    Prefixed { sep: bool },
    /// one line per file: the path
    PathOnly,
    /// JSON lines: begin .. end per path, one summary at the end
    Json,
}

fn shape_of(mode: &Mode) -> Shape {
    match mode {
        Mode::Standard { heading: true, .. } => Shape::Heading,
        Mode::Standard { heading: false, before, after, passthru, .. } => {
            Shape::Prefixed { sep: !*passthru && (*before > 0 || *after > 0) }
        }
        Mode::Count { .. } => Shape::Prefixed { sep: false },
        Mode::FilesWithMatches { .. } | Mode::Files => Shape::PathOnly,
        Mode::Json { .. } => Shape::Json,
    }
}

fn base_args(case: &Case, threads: u8, sort: Sort) -> Vec<String> {
    let mut a: Vec<String> = vec!["--no-config".into(), "--color".into(), "never".into(), format!("-j{threads}")];
    match &case.mode {
        Mode::Standard { heading, before, after, passthru, line_number } => {
            a.push(if *heading { "--heading" } else { "--no-heading" }.into());
            a.push(if *line_number { "-n" } else { "-N" }.into());
            if *passthru {
                a.push("--passthru".into());
            } else {
                if *before > 0 {
                    a.push(format!("-B{before}"));
                }
                if *after > 0 {
                    a.push(format!("-A{after}"));
                }
            }
        }
        Mode::Count { matches, include_zero } => {
            a.push(if *matches { "--count-matches" } else { "--count" }.into());
            if *include_zero {
                a.push("--include-zero".into());
            }
        }
        Mode::FilesWithMatches { without } => {
            a.push(if *without { "--files-without-match" } else { "-l" }.into());
        }
        Mode::Json { before, after } => {
            a.push("--json".into());
            if *before > 0 {
                a.push(format!("-B{before}"));
            }
            if *after > 0 {
                a.push(format!("-A{after}"));
            }
        }
        Mode::Files => a.push("--files".into()),
    }
    a.extend(case.extra.iter().cloned());
    match sort {
        Sort::None => {}
        Sort::Path => a.extend(["--sort".to_string(), "path".to_string()]),
        Sort::PathReverse => a.extend(["--sortr".to_string(), "path".to_string()]),
    }
    if let Some(pre) = &case.pre {
        a.extend(["--pre".to_string(), "../pre.sh".to_string()]);
        if let Some(g) = &pre.glob {
            a.extend(["--pre-glob".to_string(), g.clone()]);
        }
    }
    if case.mode != Mode::Files {
        a.extend(["-e".to_string(), case.pattern.clone()]);
    }
    match case.root {
        Root::Implicit => {}
        Root::Dot => a.push("./".into()),
        Root::Named => a.push("t".into()),
        Root::Multi => {
            let mut seen = BTreeSet::new();
            for f in &case.files {
                let top = f.path.split('/').next().unwrap();
                if seen.insert(top) {
                    a.push(top.to_string());
                }
            }
        }
    }
    a
}

struct Tree {
    dir: TempDir,
}

impl Tree {
    fn build(case: &Case) -> Result<Tree, String> {
        let dir = TempDir::new("c08");
        std::fs::create_dir_all(dir.path.join("t")).map_err(|e| e.to_string())?;
        for f in &case.files {
            dir.write(&format!("t/{}", f.path), &content(f));
        }
        if let Some(pre) = &case.pre {
            write_script(&dir.path.join("pre.sh"), &pre_script(case, pre))?;
            // for Root::Named the cwd is the parent: `../pre.sh` must resolve there too
        }
        Ok(Tree { dir })
    }

    fn rg(&self, case: &Case, threads: u8, sort: Sort) -> (Rg, String) {
        let cwd = match case.root {
            Root::Named => self.dir.path.clone(),
            _ => self.dir.path.join("t"),
        };
        let mut args = base_args(case, threads, sort);
        if case.root == Root::Named {
            for a in args.iter_mut() {
                if a == "../pre.sh" {
                    *a = "./pre.sh".to_string();
                }
            }
        }
        let rg = Rg::new(&cwd).args(args);
        let cmd = format!("(cwd = <tree>{}) {}", if case.root == Root::Named { "" } else { "/t" }, rg.cmdline());
        (rg, cmd)
    }
}

// ---------------------------------------------------------------- cutting output into blocks

struct Parsed {
    /// (index into `case.files`, byte range of the block in the output)
    blocks: Vec<(usize, Range<usize>)>,
    /// JSON only: the summary line
    summary: Option<Range<usize>>,
    /// reference only: blocks consisting of a `path: binary file matches ..`
    /// line that were not preceded by the file separator (see `parse`)
    unseparated_binary_blocks: usize,
}

struct PathIndex {
    exact: HashMap<Vec<u8>, usize>,
    max_len: usize,
}

impl PathIndex {
    fn new(case: &Case) -> PathIndex {
        let mut exact = HashMap::new();
        let mut max_len = 0;
        for (i, f) in case.files.iter().enumerate() {
            let p = printed_path(case.root, &f.path).into_bytes();
            max_len = max_len.max(p.len());
            exact.insert(p, i);
        }
        PathIndex { exact, max_len }
    }
    fn get(&self, line: &[u8]) -> Option<usize> {
        self.exact.get(line).copied()
    }
    /// `path: binary file matches (found ..` — the whole block of a file that
    /// is searched in binary "convert" mode (a file named on the command
    /// line). It carries its own path, also in heading mode.
    fn binary_notice(&self, line: &[u8]) -> Option<usize> {
        const M: &[u8] = b": binary file matches (found ";
        let at = line.windows(M.len()).position(|w| w == M)?;
        self.exact.get(&line[..at]).copied()
    }
    /// The file whose printed path is followed by `:` or `-` at the start of
    /// `line`. Paths are prefix-free, so at most one path can be a prefix.
    fn prefix_of(&self, line: &[u8]) -> Option<usize> {
        for j in 1..line.len().min(self.max_len + 1) {
            if line[j] == b':' || line[j] == b'-' {
                if let Some(i) = self.exact.get(&line[..j]) {
                    return Some(*i);
                }
            }
        }
        None
    }
}

/// (offset, line without terminator) for every `\n`-terminated line.
fn lines_of(out: &[u8]) -> Result<Vec<(usize, &[u8])>, String> {
    if !out.is_empty() && *out.last().unwrap() != b'\n' {
        return Err("output does not end with a line terminator".to_string());
    }
    let mut v = vec![];
    let mut start = 0;
    for (i, b) in out.iter().enumerate() {
        if *b == b'\n' {
            v.push((start, &out[start..i]));
            start = i + 1;
        }
    }
    Ok(v)
}

fn clip(b: &[u8]) -> String {
    if b.len() > 160 {
        format!("{}…", show(&b[..160]))
    } else {
        show(b)
    }
}

/// Cut an output into per-file blocks, checking the file separators between
/// them. `reference`: the -j1 run. The -j1 printer does not write the file
/// separator in front of a block that consists only of the `binary file
/// matches` notice (printer/src/standard.rs `write_binary_message` bypasses
/// `write_search_prelude`), whereas under -jN the buffer writer puts it there.
/// The property is about the multi-threaded output, so the reference is cut
/// leniently at that one place (counted), the -jN output strictly.
fn parse(out: &[u8], shape: Shape, px: &PathIndex, names: &dyn Fn(usize) -> String, reference: bool) -> Result<Parsed, String> {
    let lines = lines_of(out)?;
    let mut blocks: Vec<(usize, Range<usize>)> = vec![];
    let mut summary = None;
    let mut unseparated_binary_blocks = 0;
    match shape {
        Shape::PathOnly => {
            for (off, l) in &lines {
                let Some(p) = px.get(l) else {
                    return Err(format!("line at byte {off} is not the path of a file of the tree: `{}`", clip(l)));
                };
                blocks.push((p, *off..off + l.len() + 1));
            }
        }
        Shape::Heading => {
            let n = lines.len();
            let mut i = 0;
            while i < n {
                let (off, l) = lines[i];
                if let Some(p) = px.binary_notice(l) {
                    // a one-line block without heading
                    i += 1;
                    blocks.push((p, off..off + l.len() + 1));
                    if i < n {
                        if !lines[i].1.is_empty() {
                            return Err(format!("no empty line between the block of `{}` and what follows at byte {}", names(p), lines[i].0));
                        }
                        i += 1;
                        if i == n {
                            return Err("file separator (empty line) at the end of the output, after the last block".to_string());
                        }
                    }
                    continue;
                }
                let Some(p) = px.get(l) else {
                    return Err(format!("expected a file heading at byte {off}, found `{}`", clip(l)));
                };
                i += 1;
                let first_content = i;
                let mut lenient_cut = false;
                while i < n && !lines[i].1.is_empty() {
                    if reference && px.binary_notice(lines[i].1).map_or(false, |q| q != p) {
                        lenient_cut = true;
                        unseparated_binary_blocks += 1;
                        break;
                    }
                    if px.get(lines[i].1).is_some() {
                        return Err(format!(
                            "heading `{}` at byte {} follows the block of `{}` without the separating empty line",
                            clip(lines[i].1),
                            lines[i].0,
                            names(p)
                        ));
                    }
                    i += 1;
                }
                if i == first_content {
                    return Err(format!("heading `{}` at byte {off} has no lines under it", names(p)));
                }
                let end = if i < n { lines[i].0 } else { out.len() };
                blocks.push((p, off..end));
                if lenient_cut {
                    continue;
                }
                if i < n {
                    // the separator line
                    i += 1;
                    if i == n {
                        return Err("file separator (empty line) at the end of the output, after the last block".to_string());
                    }
                }
            }
        }
        Shape::Prefixed { sep } => {
            let mut cur: Option<(usize, usize)> = None;
            let mut pending: Option<usize> = None;
            for (off, l) in &lines {
                if sep && *l == b"--" {
                    if cur.is_none() {
                        return Err("separator `--` before the first block".to_string());
                    }
                    if pending.is_some() {
                        return Err(format!("two consecutive `--` separators at byte {off}"));
                    }
                    pending = Some(*off);
                    continue;
                }
                let Some(p) = px.prefix_of(l) else {
                    return Err(format!("line at byte {off} does not start with the path of a file of the tree: `{}`", clip(l)));
                };
                match cur {
                    None => cur = Some((p, *off)),
                    Some((q, _)) if q == p => pending = None,
                    Some((q, st)) => {
                        if sep && pending.is_none() && reference && px.binary_notice(l) == Some(p) {
                            unseparated_binary_blocks += 1;
                        } else if sep && pending.is_none() {
                            return Err(format!(
                                "no `--` separator between the blocks of `{}` and `{}` at byte {off}",
                                names(q),
                                names(p)
                            ));
                        }
                        blocks.push((q, st..pending.unwrap_or(*off)));
                        cur = Some((p, *off));
                        pending = None;
                    }
                }
            }
            if pending.is_some() {
                return Err("separator `--` after the last block".to_string());
            }
            if let Some((q, st)) = cur {
                blocks.push((q, st..out.len()));
            }
        }
        Shape::Json => {
            let mut open: Option<(usize, usize)> = None;
            for (off, l) in &lines {
                if summary.is_some() {
                    return Err(format!("message after the summary at byte {off}: `{}`", clip(l)));
                }
                let v: serde_json::Value =
                    serde_json::from_slice(l).map_err(|e| format!("line at byte {off} is not JSON ({e}): `{}`", clip(l)))?;
                let ty = v["type"].as_str().unwrap_or("");
                if ty == "summary" {
                    if let Some((q, _)) = open {
                        return Err(format!("summary inside the begin..end group of `{}`", names(q)));
                    }
                    summary = Some(*off..off + l.len() + 1);
                    continue;
                }
                let Some(p) = v["data"]["path"]["text"].as_str().and_then(|s| px.get(s.as_bytes())) else {
                    return Err(format!("message at byte {off} names no file of the tree: `{}`", clip(l)));
                };
                match (ty, open) {
                    ("begin", None) => open = Some((p, *off)),
                    ("begin", Some((q, _))) => {
                        return Err(format!("begin of `{}` at byte {off} inside the open group of `{}`", names(p), names(q)))
                    }
                    ("match" | "context", Some((q, _))) if q == p => {}
                    ("end", Some((q, st))) if q == p => {
                        blocks.push((p, st..off + l.len() + 1));
                        open = None;
                    }
                    (_, Some((q, _))) => {
                        return Err(format!(
                            "`{ty}` message of `{}` at byte {off} inside the open group of `{}`",
                            names(p),
                            names(q)
                        ))
                    }
                    (_, None) => return Err(format!("`{ty}` message of `{}` at byte {off} outside any begin..end group", names(p))),
                }
            }
            if let Some((q, _)) = open {
                return Err(format!("group of `{}` is never closed by an end message", names(q)));
            }
            if summary.is_none() {
                return Err("no summary message".to_string());
            }
        }
    }
    let mut seen = BTreeSet::new();
    for (p, r) in &blocks {
        if !seen.insert(*p) {
            return Err(format!(
                "`{}` has more than one block (second one at byte {}): its results are duplicated or not contiguous",
                names(*p),
                r.start
            ));
        }
    }
    Ok(Parsed { blocks, summary, unseparated_binary_blocks })
}

fn elapsed_re() -> &'static regex::bytes::Regex {
    static RE: std::sync::OnceLock<regex::bytes::Regex> = std::sync::OnceLock::new();
    RE.get_or_init(|| regex::bytes::Regex::new(r#""elapsed(_total)?":\{[^{}]*\}"#).unwrap())
}

/// Remove the wall-clock fields of JSON messages (`elapsed`, `elapsed_total`).
fn normalize(shape: Shape, bytes: &[u8]) -> Vec<u8> {
    if shape == Shape::Json {
        elapsed_re().replace_all(bytes, &b"\"elapsed$1\":0"[..]).into_owned()
    } else {
        bytes.to_vec()
    }
}

fn first_diff(a: &[u8], b: &[u8]) -> usize {
    a.iter().zip(b.iter()).position(|(x, y)| x != y).unwrap_or(a.len().min(b.len()))
}

fn excerpt(b: &[u8], at: usize) -> String {
    let lo = at.saturating_sub(200);
    let hi = (at + 400).min(b.len());
    format!("[bytes {lo}..{hi} of {}] {}", b.len(), show(&b[lo..hi]))
}

/// Compare a `-jN` run with the `-j1` reference. Returns the block order of
/// the `-jN` run.
fn compare(
    shape: Shape,
    names: &dyn Fn(usize) -> String,
    ref_out: &[u8],
    ref_parsed: &Parsed,
    got_out: &[u8],
    got: &Parsed,
) -> Result<Vec<u16>, (String, &'static str)> {
    let want: HashMap<usize, Range<usize>> = ref_parsed.blocks.iter().cloned().collect();
    let mut order = vec![];
    for (p, r) in &got.blocks {
        let Some(w) = want.get(p) else {
            return Err((
                format!("`{}` has a block in the -jN output but none in the -j1 output\n -jN block: {}", names(*p), excerpt(got_out, r.start)),
                "extra_block",
            ));
        };
        let a = normalize(shape, &ref_out[w.clone()]);
        let b = normalize(shape, &got_out[r.clone()]);
        if a != b {
            let d = first_diff(&a, &b);
            return Err((
                format!(
                    "the block of `{}` differs from the -j1 block (first difference at byte {d} of the block; lengths {} vs {})\n -j1 block: {}\n -jN block: {}",
                    names(*p),
                    a.len(),
                    b.len(),
                    excerpt(&a, d),
                    excerpt(&b, d)
                ),
                "block_differs",
            ));
        }
        order.push(*p as u16);
    }
    for (p, _) in &ref_parsed.blocks {
        if !got.blocks.iter().any(|(q, _)| q == p) {
            return Err((format!("`{}` has a block in the -j1 output but none in the -jN output", names(*p)), "missing_block"));
        }
    }
    if shape == Shape::Json {
        let a = normalize(shape, &ref_out[ref_parsed.summary.clone().unwrap()]);
        let b = normalize(shape, &got_out[got.summary.clone().unwrap()]);
        if a != b {
            return Err((format!("summary totals differ\n -j1: {}\n -jN: {}", show(&a), show(&b)), "summary_differs"));
        }
    }
    Ok(order)
}

/// Component-wise path order (what `std::path::Path::cmp` does).
fn path_cmp(a: &str, b: &str) -> std::cmp::Ordering {
    a.split('/').filter(|c| !c.is_empty() && *c != ".").cmp(b.split('/').filter(|c| !c.is_empty() && *c != "."))
}

// ---------------------------------------------------------------- the check

/// Reference runs whose output could not be cut into blocks, or that wrote to
/// stderr: by construction this never happens, so any occurrence makes the
/// run inconclusive (broken check), never a pass and never a violation.
static REF_UNUSABLE: AtomicU64 = AtomicU64::new(0);

#[derive(Default, Debug, Clone)]
pub struct Stats {
    pub jn_runs: u64,
    pub distinct_orders: u64,
    pub runs_order_differs: u64,
}

fn resource_trouble(stderr: &[u8]) -> bool {
    let s = String::from_utf8_lossy(stderr);
    ["Resource temporarily unavailable", "Too many open files", "Cannot allocate memory", "Text file busy", "failed to spawn thread"]
        .iter()
        .any(|m| s.contains(m))
}

fn describe(case: &Case, what: String, cmd1: &str, cmdn: &str, r: &Out, g: &Out) -> String {
    format!(
        "{what}\n reference: {cmd1}  -> exit {:?}, {} bytes stdout, stderr `{}`\n this run:  {cmdn}  -> exit {:?}, {} bytes stdout, stderr `{}`\n case={}\n (file contents are regenerated from the specs by `vcheck replay`; the needle lines contain `hit<lineno>`)",
        r.status,
        r.stdout.len(),
        clip(&r.stderr),
        g.status,
        g.stdout.len(),
        clip(&g.stderr),
        serde_json::to_string(case).unwrap_or_default()
    )
}

pub fn check(case: &Case) -> Verdict {
    check_stats(case).0
}

pub fn check_stats(case: &Case) -> (Verdict, Stats) {
    let mut stats = Stats::default();
    // domain: printed paths must be prefix-free
    for (i, a) in case.files.iter().enumerate() {
        for b in &case.files[i + 1..] {
            if prefix_clash(&a.path, &b.path) {
                return (Verdict::Reject("paths not prefix-free"), stats);
            }
        }
    }
    if piped_binary(case) {
        return (Verdict::Reject("binary file behind the --pre pipe: cut-off point depends on read sizes even with -j1"), stats);
    }
    if case.threads.is_empty() || case.repeats == 0 {
        return (Verdict::Reject("no multi-threaded run requested"), stats);
    }
    let tree = match Tree::build(case) {
        Ok(t) => t,
        Err(_) => return (Verdict::Reject("could not build the tree"), stats),
    };
    let shape = shape_of(&case.mode);
    let px = PathIndex::new(case);
    let names = |i: usize| printed_path(case.root, &case.files[i].path);

    let (rg1, cmd1) = tree.rg(case, 1, case.sort);
    let r = rg1.run();
    if r.timed_out || r.status.is_none() {
        return (Verdict::Reject("reference run timed out or was killed"), stats);
    }
    if !r.stderr.is_empty() {
        if !resource_trouble(&r.stderr) {
            if REF_UNUSABLE.fetch_add(1, Ordering::Relaxed) < 3 {
                eprintln!("C08: reference run wrote to stderr: {cmd1}\n{}", String::from_utf8_lossy(&r.stderr));
            }
        }
        return (Verdict::Reject("reference run wrote to stderr"), stats);
    }
    let rp = match parse(&r.stdout, shape, &px, &names, true) {
        Ok(p) => p,
        Err(e) => {
            if REF_UNUSABLE.fetch_add(1, Ordering::Relaxed) < 3 {
                eprintln!("C08: -j1 output not cut into blocks ({e}): {cmd1}\n case={}", serde_json::to_string(case).unwrap_or_default());
            }
            return (Verdict::Reject("-j1 output could not be cut into per-file blocks"), stats);
        }
    };
    let ref_order: Vec<u16> = rp.blocks.iter().map(|(p, _)| *p as u16).collect();
    let ref_norm = normalize(shape, &r.stdout);

    let mut orders: BTreeSet<Vec<u16>> = BTreeSet::new();
    let mut unsorted_differs = false;

    if case.sort != Sort::None {
        // the documented order: ascending (descending) by path, per root
        if case.root != Root::Multi {
            for w in rp.blocks.windows(2) {
                let (a, b) = (&case.files[w[0].0].path, &case.files[w[1].0].path);
                let ord = path_cmp(a, b);
                let ok = if case.sort == Sort::Path { ord.is_lt() } else { ord.is_gt() };
                if !ok {
                    return (
                        Verdict::Fail(
                            Fail::new(describe(
                                case,
                                format!("sorted output is not in {} path order: `{a}` is printed before `{b}`", if case.sort == Sort::Path { "ascending" } else { "descending" }),
                                &cmd1,
                                &cmd1,
                                &r,
                                &r,
                            ))
                            .fact("sorted:not_in_path_order"),
                        ),
                        stats,
                    );
                }
            }
        }
    }

    for &n in &case.threads {
        for rep in 0..case.repeats {
            let (rgn, cmdn) = tree.rg(case, n, case.sort);
            // every other repeat runs the binary built with the walker's yield
            // hooks and a seeded timing jitter at its synchronisation points
            let (rgn, cmdn) = if rep % 2 == 1 {
                let j = (rep as u64) * 1000 + n as u64 * 7 + case.files.len() as u64;
                (rgn.program(&crate::cli::rg_jitter_path()).env("VERIF_YIELD_JITTER", &j.to_string()), format!("VERIF_YIELD_JITTER={j} <rg built with --features ignore/verif-hooks> {cmdn}"))
            } else {
                (rgn, cmdn)
            };
            let g = rgn.run();
            if g.timed_out || g.status.is_none() {
                return (Verdict::Reject("multi-threaded run timed out or was killed"), stats);
            }
            if !g.stderr.is_empty() && resource_trouble(&g.stderr) {
                return (Verdict::Reject("multi-threaded run hit a resource limit"), stats);
            }
            stats.jn_runs += 1;
            let fail = |what: String, fact: &str| {
                Verdict::Fail(
                    Fail::new(describe(case, format!("-j{n}, repeat {rep}: {what}"), &cmd1, &cmdn, &r, &g))
                        .fact(fact.to_string())
                        .fact(format!("shape:{shape:?}")),
                )
            };
            if !g.stderr.is_empty() {
                return (fail("the run wrote to stderr although the -j1 run did not".to_string(), "stderr_differs"), stats);
            }
            if g.status != r.status {
                return (fail(format!("exit status {:?}, -j1 exit status {:?}", g.status, r.status), "exit_status_differs"), stats);
            }
            if case.sort != Sort::None {
                let got_norm = normalize(shape, &g.stdout);
                if got_norm != ref_norm {
                    let d = first_diff(&ref_norm, &got_norm);
                    return (
                        fail(
                            format!(
                                "sorted output is not byte-identical to the -j1 sorted output (first difference at byte {d})\n -j1: {}\n -jN: {}",
                                excerpt(&ref_norm, d),
                                excerpt(&got_norm, d)
                            ),
                            "sorted:output_differs",
                        ),
                        stats,
                    );
                }
                orders.insert(ref_order.clone());
                continue;
            }
            let gp = match parse(&g.stdout, shape, &px, &names, false) {
                Ok(p) => p,
                Err(e) => {
                    return (
                        fail(
                            format!(
                                "the output is not a sequence of per-file blocks{}: {e}\n -j1 output: {}\n -jN output: {}",
                                match shape {
                                    Shape::Heading => " separated by one empty line",
                                    Shape::Prefixed { sep: true } => " separated by one `--` line",
                                    _ => "",
                                },
                                excerpt(&r.stdout, 0),
                                excerpt(&g.stdout, 0)
                            ),
                            "not_blocks",
                        ),
                        stats,
                    )
                }
            };
            match compare(shape, &names, &r.stdout, &rp, &g.stdout, &gp) {
                Ok(order) => {
                    if order != ref_order {
                        stats.runs_order_differs += 1;
                    }
                    orders.insert(order);
                }
                Err((what, fact)) => return (fail(what, fact), stats),
            }
        }
    }

    if case.sort != Sort::None {
        // evidence only: would the order have varied without --sort?
        let n = *case.threads.iter().max().unwrap();
        let (rgn, _) = tree.rg(case, n, Sort::None);
        let g = rgn.run();
        if !g.timed_out && g.stderr.is_empty() {
            if let Ok(gp) = parse(&g.stdout, shape, &px, &names, false) {
                let o: Vec<u16> = gp.blocks.iter().map(|(p, _)| *p as u16).collect();
                unsorted_differs = o != ref_order;
            }
        }
    }

    stats.distinct_orders = orders.len() as u64;
    let nblocks = rp.blocks.len();
    let differs = stats.runs_order_differs > 0;
    let nontrivial = if case.sort == Sort::None { nblocks >= 3 && differs } else { nblocks >= 3 && unsorted_differs };
    let mut info = Info::new(nontrivial);
    info.class(match &case.mode {
        Mode::Standard { passthru: true, heading: true, .. } => "mode_passthru_heading",
        Mode::Standard { passthru: true, heading: false, .. } => "mode_passthru_noheading",
        Mode::Standard { heading: true, before: 0, after: 0, .. } => "mode_heading",
        Mode::Standard { heading: false, before: 0, after: 0, .. } => "mode_noheading",
        Mode::Standard { heading: true, .. } => "mode_context_heading",
        Mode::Standard { heading: false, .. } => "mode_context_noheading",
        Mode::Count { .. } => "mode_count",
        Mode::FilesWithMatches { .. } => "mode_files_with_matches",
        Mode::Json { before: 0, after: 0 } => "mode_json",
        Mode::Json { .. } => "mode_json_context",
        Mode::Files => "mode_files",
    });
    info.class(match case.root {
        Root::Implicit => "root_implicit",
        Root::Dot => "root_dot",
        Root::Named => "root_named",
        Root::Multi => "root_multi",
    });
    for &n in &case.threads {
        info.class(match n {
            2 => "threads_2",
            3 => "threads_3",
            4 => "threads_4",
            8 => "threads_8",
            16 => "threads_16",
            _ => "threads_other",
        });
    }
    info.class_if(case.pre.is_some(), "pre_script");
    info.class_if(case.pre.as_ref().map_or(false, |p| p.glob.is_some()), "pre_script_on_some_files_only");
    info.class_if(case.sort == Sort::Path, "sort_path");
    info.class_if(case.sort == Sort::PathReverse, "sortr_path");
    info.class_if(unsorted_differs, "unsorted_order_differs_from_sorted");
    info.class_if(nblocks == 0, "blocks_0");
    info.class_if(nblocks >= 3, "blocks>=3");
    info.class_if(nblocks >= 10, "blocks>=10");
    info.class_if(nblocks >= 30, "blocks>=30");
    if case.sort == Sort::None {
        info.class_if(differs, "order_differs_from_j1");
        info.class_if(!differs && nblocks >= 2, "order_always_same_as_j1");
        info.class_if(orders.len() >= 2, "distinct_orders>=2");
        info.class_if(orders.len() >= 3, "distinct_orders>=3");
        info.class_if(orders.len() >= 5, "distinct_orders>=5");
        info.class_if(orders.len() as u64 == stats.jn_runs && stats.jn_runs >= 2, "every_run_a_new_order");
    }
    let has_sep = matches!(shape, Shape::Heading | Shape::Prefixed { sep: true });
    info.class_if(has_sep && nblocks >= 2, "separator_between_blocks");
    info.class_if(rp.blocks.iter().any(|(_, r)| r.len() >= 65536), "block>=64KiB");
    info.class_if(r.stdout.len() >= 65536, "output>=64KiB");
    info.class_if(r.stdout.len() >= 1 << 20, "output>=1MiB");
    let sizes: Vec<u64> = case.files.iter().map(|f| f.lines as u64 * (f.width as u64 + 4)).collect();
    let min_nz = sizes.iter().copied().filter(|s| *s > 0).min().unwrap_or(0);
    let max = sizes.iter().copied().max().unwrap_or(0);
    info.class_if(min_nz > 0 && max / min_nz >= 1000, "size_spread>=1000x");
    info.class_if(sizes.iter().any(|s| *s == 0), "has_empty_file");
    info.class_if(max >= 512 * 1024, "has_file>=512KiB");
    info.class_if(case.files.iter().any(|f| f.nul_line.is_some()), "has_binary_file");
    info.class_if(case.files.len() >= 30, "files>=30");
    info.class_if(rp.unseparated_binary_blocks > 0, "j1_omits_separator_before_binary_notice_block");
    info.class_if(
        rp.blocks.iter().any(|(_, b)| px.binary_notice(r.stdout[b.clone()].split(|c| *c == b'\n').next().unwrap_or(b"")).is_some()),
        "binary_notice_block",
    );
    info.class_if(r.status == Some(0), "exit_0");
    info.class_if(r.status == Some(1), "exit_1");
    (Verdict::Pass(info), stats)
}

// ---------------------------------------------------------------- driver

const SHRINK_BUDGET: u32 = 24;
thread_local! {
    static FAILED: std::cell::Cell<bool> = const { std::cell::Cell::new(false) };
    static SHRINK_EVALS: std::cell::Cell<u32> = const { std::cell::Cell::new(0) };
    static MEMO: std::cell::RefCell<HashMap<String, Option<Fail>>> = std::cell::RefCell::new(HashMap::new());
}

// ------------------------------------------------------------ exit_status ---

/// Many tiny files of which none, one or two match, searched over and over with many
/// threads: the exit status (and the output) must be that of the single-threaded run
/// every time. Aimed at races in the aggregation of per-file results, which need
/// "one matching file among many" and many repetitions rather than big trees.
#[derive(Clone, Debug, Serialize, Deserialize)]
pub struct ExitCase {
    pub n_files: usize,
    /// indices of the files that contain the needle
    pub matching: Vec<usize>,
    pub threads: u8,
    pub runs: u16,
    /// 0 standard, 1 --count, 2 -l, 3 -q
    pub mode: u8,
}

pub fn gen_exit_case(t: &mut Tape, runs: u16) -> ExitCase {
    let n_files = 30 + t.below(60);
    let k = t.weighted(&[6, 1, 2]);
    let matching = match k {
        0 => vec![t.below(n_files)],
        1 => vec![],
        _ => vec![t.below(n_files), t.below(n_files)],
    };
    ExitCase { n_files, matching, threads: *t.pick(&[16u8, 8, 4, 12]), runs, mode: t.below(4) as u8 }
}

/// Failures of `check_exit` that were seen twice, by case: the runner re-executes a failing
/// case to confirm it, and a race does not show up on demand.
static EXIT_MEMO: std::sync::Mutex<Option<HashMap<String, Fail>>> = std::sync::Mutex::new(None);

pub fn check_exit(c: &ExitCase) -> Verdict {
    let key = serde_json::to_string(c).unwrap_or_default();
    if let Some(f) = EXIT_MEMO.lock().unwrap().as_ref().and_then(|m| m.get(&key).cloned()) {
        return Verdict::Fail(f);
    }
    let dir = TempDir::new("c08e");
    let _ = std::fs::create_dir_all(dir.path.join("g"));
    for i in 0..c.n_files {
        let body: &[u8] = if c.matching.contains(&i) { b"needle\n" } else { b"hay\n" };
        dir.write(&format!("g/f{i:03}"), body);
    }
    let flags: &[&str] = match c.mode {
        0 => &["-n"],
        1 => &["--count"],
        2 => &["-l"],
        _ => &["-q"],
    };
    let mk = |threads: u8, jitter: Option<u32>| {
        let mut rg = Rg::new(&dir.path).args(["--no-config", "--color", "never"]).arg(format!("-j{threads}")).args(flags.iter().copied()).args(["needle", "g"]);
        if let Some(j) = jitter {
            rg = rg.program(&crate::cli::rg_jitter_path()).env("VERIF_YIELD_JITTER", &j.to_string());
        }
        rg
    };
    let sorted = |out: &[u8]| {
        let mut v: Vec<Vec<u8>> = out.split(|b| *b == b'\n').filter(|l| !l.is_empty()).map(|l| l.to_vec()).collect();
        v.sort();
        v
    };
    let reference = mk(1, None).run();
    if reference.timed_out {
        return Verdict::Reject("timeout (inconclusive)");
    }
    let want = (reference.status, sorted(&reference.stdout));
    let run_once = |i: u32| -> Option<(Option<i32>, Vec<Vec<u8>>, Vec<u8>)> {
        // every third run with the hook build, which sleeps at the walker's yield points
        let o = mk(c.threads, if i % 3 == 2 { Some(i) } else { None }).run();
        if o.timed_out {
            return None;
        }
        Some((o.status, sorted(&o.stdout), o.stderr))
    };
    let mut first_bad: Option<(u32, Option<i32>, Vec<Vec<u8>>, Vec<u8>)> = None;
    for i in 0..c.runs as u32 {
        let Some((st, out, err)) = run_once(i) else { return Verdict::Reject("timeout (inconclusive)") };
        if (st, &out) != (want.0, &want.1) || !err.is_empty() {
            first_bad = Some((i, st, out, err));
            break;
        }
    }
    let mut info = Info::new(c.matching.len() == 1);
    info.class(match c.matching.len() {
        0 => "no_file_matches",
        1 => "one_matching_file_among_many",
        _ => "two_matching_files",
    });
    info.class(match c.mode {
        0 => "mode_standard",
        1 => "mode_count",
        2 => "mode_files_with_matches",
        _ => "mode_quiet",
    });
    let Some((i, st, out, err)) = first_bad else { return Verdict::Pass(info) };
    // seen once: look for a second occurrence before reporting it
    let mut again = 0;
    for k in 0..1500u32 {
        if let Some((st2, out2, err2)) = run_once(1000 + k) {
            if (st2, &out2) != (want.0, &want.1) || !err2.is_empty() {
                again += 1;
                break;
            }
        }
    }
    let show = |v: &Vec<Vec<u8>>| v.iter().take(6).map(|l| format!("{:?}", Bs(l.clone()))).collect::<Vec<_>>().join(" ");
    let f = Fail::new(format!(
        "run #{i} of `{}` differs from the -j1 run: exit status {:?} (with -j1: {:?}), output lines [{}] (with -j1: [{}]), stderr {:?}\n case: {}\n seen again within 1500 further runs: {}",
        mk(c.threads, None).cmdline(),
        st,
        want.0,
        show(&out),
        show(&want.1),
        Bs(err),
        serde_json::to_string(c).unwrap_or_default(),
        again > 0
    ));
    if again > 0 {
        let f = f.fact("reproduced");
        EXIT_MEMO.lock().unwrap().get_or_insert_with(HashMap::new).insert(key, f.clone());
        Verdict::Fail(f)
    } else {
        eprintln!("C08 exit_status: a deviation was seen once and not again: {}", f.detail);
        Verdict::Reject("a deviation from the -j1 run was seen once and not again in 1500 further runs (inconclusive)")
    }
}

// ------------------------------------------------------------ big_listing ---

/// Subcheck `failed_search`: 10-60 files plus 1-6 files whose --pre command writes the file and then exits 3 (their search fails after it has produced results), --heading output, two thread counts x 2 runs: apart from the failing files' own blocks (left open: the serial driver has streamed them, the parallel one drops them) every block must be the -j1 block, once, with exactly one blank line between blocks and the same exit status. Subcheck `big_listing`: a tree of a few thousand files with long names, listed (`--files`) or searched
/// (`-l`, `-c`) with several threads while the consumer of stdout falls behind for a moment, so that
/// whatever sits between the walker threads and the printer (channel, buffers) fills up. The set of
/// reported paths must equal the -j1 set: nothing omitted, nothing twice, same status, empty stderr.
#[derive(Clone, Debug, Serialize, Deserialize)]
pub struct BigCase {
    pub n_files: u32,
    pub n_dirs: u16,
    /// bytes of padding in every file name (long names fill the stdout pipe after ~1000 paths)
    pub name_pad: u8,
    /// 0 --files, 1 -l needle, 2 -c needle
    pub mode: u8,
    /// file i contains the needle iff i % match_every == 0 (modes 1, 2)
    pub match_every: u8,
    pub threads: Vec<u8>,
    /// the consumer waits this long before its first read
    pub read_delay_ms: u16,
}

pub fn gen_big_case(t: &mut Tape) -> BigCase {
    let n_files = 1500 + t.below(4500) as u32;
    let n_dirs = 1 + t.below(40) as u16;
    let name_pad = 30 + t.below(60) as u8;
    let mode = t.weighted(&[4, 1, 1]) as u8;
    let match_every = 1 + t.below(3) as u8;
    let mut threads = vec![*t.pick(&[16u8, 8, 4, 2])];
    let second = *t.pick(&[2u8, 4, 8, 16, 3]);
    if !threads.contains(&second) {
        threads.push(second);
    }
    let read_delay_ms = *t.pick(&[300u16, 0, 100, 600]);
    BigCase { n_files, n_dirs, name_pad, mode, match_every, threads, read_delay_ms }
}

fn big_set(out: &[u8], mode: u8) -> Result<(BTreeSet<Vec<u8>>, usize), String> {
    let mut set = BTreeSet::new();
    let mut dups = 0usize;
    for l in out.split(|b| *b == b'\n') {
        if l.is_empty() {
            continue;
        }
        let key = if mode == 2 {
            // path:count
            match l.iter().rposition(|b| *b == b':') {
                Some(_) => l.to_vec(),
                None => return Err(format!("count line without ':': {}", clip(l))),
            }
        } else {
            l.to_vec()
        };
        if !set.insert(key) {
            dups += 1;
        }
    }
    Ok((set, dups))
}

pub fn check_big(c: &BigCase) -> Verdict {
    if c.n_files == 0 || c.n_files > 20_000 || c.n_dirs == 0 || c.threads.is_empty() || c.match_every == 0 || c.mode > 2 {
        return Verdict::Reject("outside the generated domain");
    }
    let tmp = TempDir::fast("c08big");
    let pad: String = std::iter::repeat('p').take(c.name_pad as usize).collect();
    for d in 0..c.n_dirs {
        if std::fs::create_dir_all(tmp.path.join(format!("d{d}"))).is_err() {
            return Verdict::Reject("could not build the tree");
        }
    }
    for i in 0..c.n_files {
        let d = i % c.n_dirs as u32;
        let body: &[u8] = if c.mode != 0 && i % c.match_every as u32 == 0 { b"needle\n" } else { b"other\n" };
        if std::fs::write(tmp.path.join(format!("d{d}/f{i}_{pad}")), body).is_err() {
            return Verdict::Reject("could not build the tree");
        }
    }
    let mk = |threads: u8| {
        let rg = Rg::new(&tmp.path).args(["--no-config", "--color", "never", "--no-ignore", &format!("-j{threads}")]);
        let rg = match c.mode {
            0 => rg.arg("--files"),
            1 => rg.args(["-l", "needle"]),
            _ => rg.args(["-c", "needle"]),
        };
        rg.timeout(std::time::Duration::from_secs(60))
    };
    let r = mk(1).run();
    if r.timed_out || r.status.is_none() || !r.stderr.is_empty() {
        return Verdict::Reject("reference run timed out, was killed or wrote to stderr");
    }
    let (want, dups) = match big_set(&r.stdout, c.mode) {
        Ok(x) => x,
        Err(_) => return Verdict::Reject("reference output does not parse"),
    };
    let expected_n = if c.mode == 0 { c.n_files as usize } else { (0..c.n_files).filter(|i| i % c.match_every as u32 == 0).count() };
    if dups > 0 || want.len() != expected_n {
        return Verdict::Fail(Fail::new(format!(
            "-j1 reports {} distinct paths ({dups} repeated) for a tree in which {expected_n} files qualify\n case: {}\n cmd: {}",
            want.len(),
            serde_json::to_string(c).unwrap_or_default(),
            mk(1).cmdline()
        )));
    }
    let mut seen_once: Option<String> = None;
    for &n in &c.threads {
        let mut deviations = 0;
        let mut last = String::new();
        for attempt in 0..3 {
            let g = mk(n).read_delay(std::time::Duration::from_millis(c.read_delay_ms as u64)).run();
            if g.timed_out {
                last = format!("-j{n} run did not end within 60 s (consumer paused {} ms before reading)", c.read_delay_ms);
            } else {
                let got = big_set(&g.stdout, c.mode);
                match got {
                    Err(e) => last = e,
                    Ok((set, dups)) => {
                        let missing = want.difference(&set).count();
                        let extra = set.difference(&want).count();
                        if missing == 0 && extra == 0 && dups == 0 && g.status == r.status && g.stderr.is_empty() {
                            if attempt == 0 {
                                break;
                            }
                            continue;
                        }
                        let example = want.difference(&set).next().map(|p| clip(p)).unwrap_or_default();
                        last = format!(
                            "-j{n} (consumer paused {} ms before reading): {missing} of {} paths missing (e.g. {example}), {extra} not in the -j1 output, {dups} repeated; status {:?} vs {:?}; stderr={}",
                            c.read_delay_ms,
                            want.len(),
                            g.status,
                            r.status,
                            clip(&g.stderr)
                        );
                    }
                }
            }
            deviations += 1;
            if deviations >= 2 {
                return Verdict::Fail(Fail::new(format!(
                    "the multi-threaded run does not report the same set of paths as -j1 (seen in {deviations} of {} runs)\n {last}\n case: {}\n cmd: {}",
                    attempt + 1,
                    serde_json::to_string(c).unwrap_or_default(),
                    mk(n).cmdline()
                )));
            }
        }
        if deviations == 1 {
            seen_once = Some(last);
        }
    }
    if seen_once.is_some() {
        return Verdict::Reject("deviation seen once in three runs (not counted)");
    }
    let mut info = Info::new(true);
    info.class(match c.mode {
        0 => "mode_files",
        1 => "mode_files_with_matches",
        _ => "mode_count",
    });
    info.class_if(c.read_delay_ms > 0, "consumer_paused");
    info.class_if(r.stdout.len() > 200_000, "output_over_200KB");
    info.class_if(c.n_files > 3000, "files>3000");
    Verdict::Pass(info)
}

// ---------------------------------------------------------- failed_search ---

/// Subcheck `failed_search`: some files are searched through a `--pre` command that writes the file and
/// then exits with status 3, so their search fails after it has produced results. What the failed files
/// themselves contribute is left open (the serial driver has streamed their partial results by then, the
/// parallel one drops them - the property's quantifier has no failing searches); every other file's block
/// must be the -j1 block, once, with the blank line of `--heading` exactly between blocks, and the exit
/// status must be that of the -j1 run.
#[derive(Clone, Debug, Serialize, Deserialize)]
pub struct FailedCase {
    pub n_ok: u16,
    pub n_broken: u8,
    pub n_dirs: u8,
    /// lines per file (every second one holds the needle)
    pub lines: u8,
    pub line_numbers: bool,
    pub threads: Vec<u8>,
    pub repeats: u8,
}

pub fn gen_failed_case(t: &mut Tape) -> FailedCase {
    let mut threads = vec![*t.pick(&[2u8, 4, 3, 8])];
    let second = *t.pick(&[8u8, 2, 3, 4, 16]);
    if !threads.contains(&second) {
        threads.push(second);
    }
    FailedCase {
        n_ok: 10 + t.below(50) as u16,
        n_broken: 1 + t.below(6) as u8,
        n_dirs: 1 + t.below(3) as u8,
        lines: 1 + t.below(6) as u8,
        line_numbers: t.bool(),
        threads,
        repeats: 2,
    }
}

/// `--heading` output cut at blank lines: path line -> the block's remaining lines.
fn heading_blocks(out: &[u8]) -> Result<Vec<(Vec<u8>, Vec<u8>)>, String> {
    let mut blocks: Vec<&[u8]> = vec![];
    if out.is_empty() {
        return Ok(vec![]);
    }
    if !out.ends_with(b"\n") || out.starts_with(b"\n") || out.ends_with(b"\n\n") {
        return Err("output starts or ends with a blank line, or lacks its final newline".into());
    }
    let body = &out[..out.len() - 1];
    let mut start = 0;
    let mut i = 0;
    while i + 1 < body.len() {
        if body[i] == b'\n' && body[i + 1] == b'\n' {
            blocks.push(&body[start..i]);
            start = i + 2;
            if body.get(start) == Some(&b'\n') {
                return Err("two blank lines in a row".into());
            }
            i = start;
        } else {
            i += 1;
        }
    }
    blocks.push(&body[start..]);
    let mut out = vec![];
    for b in blocks {
        let cut = b.iter().position(|c| *c == b'\n').unwrap_or(b.len());
        out.push((b[..cut].to_vec(), b[(cut + 1).min(b.len())..].to_vec()));
    }
    Ok(out)
}

pub fn check_failed(c: &FailedCase) -> Verdict {
    if c.n_ok == 0 || c.n_broken == 0 || c.n_dirs == 0 || c.lines == 0 || c.threads.is_empty() || c.repeats == 0 || c.n_ok > 400 {
        return Verdict::Reject("outside the generated domain");
    }
    let tmp = TempDir::fast("c08fail");
    let root = tmp.path.join("t");
    let mut content = Vec::new();
    for l in 0..c.lines {
        content.extend_from_slice(if l % 2 == 0 { b"needle here\n" } else { b"nothing\n" });
    }
    let total = c.n_ok as usize + c.n_broken as usize;
    let mut names: Vec<String> = vec![];
    for i in 0..total {
        let d = i % c.n_dirs as usize;
        // spread the broken files over the listing
        let broken = i % (total / c.n_broken as usize).max(1) == 0 && names.iter().filter(|n| n.contains("broken")).count() < c.n_broken as usize;
        let name = format!("d{d}/{}{i}.txt", if broken { "broken" } else { "ok" });
        let p = root.join(&name);
        if std::fs::create_dir_all(p.parent().unwrap()).is_err() || std::fs::write(&p, &content).is_err() {
            return Verdict::Reject("could not build the tree");
        }
        names.push(name);
    }
    let script = tmp.path.join("pre.sh");
    if write_script(&script, "#!/bin/sh\ncat -- \"$1\"\ncase \"$1\" in *broken*) exit 3;; esac\n").is_err() {
        return Verdict::Reject("could not write the --pre script");
    }
    let mk = |threads: u8| {
        let rg = Rg::new(&root).args(["--no-config", "--color", "never", "--no-ignore", "--heading", &format!("-j{threads}")]);
        let rg = if c.line_numbers { rg.arg("-n") } else { rg.arg("-N") };
        rg.arg("--pre").arg(script.to_str().unwrap_or("pre.sh")).arg("needle").timeout(std::time::Duration::from_secs(60))
    };
    let r = mk(1).run();
    if r.timed_out || r.status.is_none() {
        return Verdict::Reject("reference run timed out or was killed");
    }
    let describe = |what: String, g: &Out, n: u8| {
        Fail::new(format!(
            "{what}\n case: {}\n cmd: {} (reference: the same with -j1)\n -j1: status {:?}, stdout {}\n -j{n}: status {:?}, stdout {}\n -j{n} stderr: {}",
            serde_json::to_string(c).unwrap_or_default(),
            mk(n).cmdline(),
            r.status,
            clip(&r.stdout),
            g.status,
            clip(&g.stdout),
            clip(&g.stderr)
        ))
    };
    let want = match heading_blocks(&r.stdout) {
        Ok(b) => b,
        Err(e) => return Verdict::Fail(describe(format!("the -j1 output does not cut into --heading blocks: {e}"), &r, 1)),
    };
    let want_map: HashMap<Vec<u8>, Vec<u8>> = want.iter().cloned().collect();
    let n_ok_blocks = want.iter().filter(|(p, _)| !p.windows(6).any(|w| w == b"broken")).count();
    if n_ok_blocks != c.n_ok as usize || r.status != Some(2) {
        return Verdict::Fail(describe(
            format!("-j1: {} of the {} files whose search succeeds have a block, status {:?} (expected all of them and status 2: some searches failed)", n_ok_blocks, c.n_ok, r.status),
            &r,
            1,
        ));
    }
    let mut runs = 0u64;
    for &n in &c.threads {
        for _ in 0..c.repeats {
            let g = mk(n).run();
            runs += 1;
            if g.timed_out {
                return Verdict::Reject("multi-threaded run timed out (inconclusive)");
            }
            if resource_trouble(&g.stderr) {
                return Verdict::Reject("resource trouble in the multi-threaded run");
            }
            if g.status != r.status {
                return Verdict::Fail(describe("exit status differs from the -j1 run".into(), &g, n));
            }
            let got = match heading_blocks(&g.stdout) {
                Ok(b) => b,
                Err(e) => return Verdict::Fail(describe(format!("the -j{n} output does not cut into blocks separated by exactly one blank line: {e}"), &g, n)),
            };
            let mut seen: BTreeSet<Vec<u8>> = BTreeSet::new();
            for (p, body) in &got {
                let Some(w) = want_map.get(p) else {
                    return Verdict::Fail(describe(format!("a block of the -j{n} output starts with {}, which heads no block of the -j1 output", clip(p)), &g, n));
                };
                if !seen.insert(p.clone()) {
                    return Verdict::Fail(describe(format!("{} has two blocks in the -j{n} output", clip(p)), &g, n));
                }
                if w != body {
                    return Verdict::Fail(describe(format!("the block of {} differs from its -j1 block: {} vs {}", clip(p), clip(body), clip(w)), &g, n));
                }
            }
            for (p, _) in &want {
                if !p.windows(6).any(|w| w == b"broken") && !seen.contains(p) {
                    return Verdict::Fail(describe(format!("{} (its search succeeds) has a block in the -j1 output but none in the -j{n} output", clip(p)), &g, n));
                }
            }
        }
    }
    let mut info = Info::new(true);
    info.class_if(c.n_broken >= 3, "three_or_more_failing_searches");
    info.class_if(c.line_numbers, "line_numbers");
    let _ = runs;
    Verdict::Pass(info)
}

pub fn run(pc: &PropCtx) {
    pc.rule(
        "each case = a generated tree (5-60 files in <= 9 directories up to 3 deep, file sizes 0 B .. ~1 MB with a total of <= ~2 MB, prefix-free paths, needle `hit<n>` on none / one / a few / most lines, optionally one file with a NUL byte, never one that is read through the --pre pipe: there the cut-off point of binary detection depends on read sizes even with -j1), one output mode (standard --heading / --no-heading / with -A/-B context / --passthru, --count / --count-matches (--include-zero), -l / --files-without-match, --json (with context), --files), 0-2 extra flags, a root spelling (implicit cwd, ./, named directory, every top-level entry as an argument), a set of thread counts from {2,3,4,8,16} and R repeats per count; a quarter of the searching cases run every file (or only *.z files) through a generated --pre script that sleeps 0-20 ms per file (from a hash of the file name) before cat. Oracle: the -j1 output is cut into per-file blocks (heading line / path prefix / JSON begin..end) and must itself have exactly the file separator of the mode between blocks (one tolerated, counted deviation of the -j1 printer: no separator in front of a block that is only a `binary file matches` notice); every -jN output must cut the same way into the same set of byte-identical blocks (JSON: after removing elapsed fields; summary equal), each once, separators exactly between blocks, same exit status, empty stderr. Subcheck `sorted`: with --sort path / --sortr path every -jN output is byte-identical to the -j1 output in all repeats and the blocks are in path order. Subcheck `exit_status`: 30-90 one-line files of which none / one / two contain the needle, searched 60 (thorough: 200) times with 4-16 threads (every third run with the jittered hook build) in standard / --count / -l / -q mode: exit status and the set of output lines must equal the -j1 run every time; a deviation is reported once it has been seen a second time within 1500 further runs. Subcheck `big_listing`: 1500-6000 files with 30-90 byte name padding in 1-40 directories, listed (--files) or searched (-l, -c) with two thread counts while the consumer waits 0-600 ms before its first read (so that the pipe and whatever queues sit in front of the printer fill up); the set of reported paths, the status and stderr must equal the -j1 run (a deviation counts when two of three runs show it). Non-trivial = at least 3 files with output and the block order differed from the -j1 order in at least one run (sorted: the same command without --sort produced a different order); distinct by hash of the case. Schedules are picked by the OS: the claim is `no violation in N perturbed runs`; classes `distinct_orders>=k` and the totals in `notes` measure how much scheduling variety was observed",
    );
    pc.assume("the -j1 run of the same command line is the reference (its own correctness is the subject of C01/C03/C09/C10)");
    pc.assume("/bin/sh, sleep with fractional seconds and cat behave as documented (the --pre script)");
    let n_threads = pc.tier.pick(3usize, 5);
    let repeats = pc.tier.pick(3u8, 5);
    pc.bound("thread_counts_per_case", serde_json::json!(n_threads));
    pc.bound("repeats_per_thread_count", serde_json::json!(repeats));
    pc.bound("files_per_tree", serde_json::json!([5, 60]));
    pc.bound("file_size_bytes", serde_json::json!([0, 1_700_000]));
    pc.bound("pre_sleep_ms", serde_json::json!([0, 20]));

    let unconfirmed: std::sync::Mutex<Vec<String>> = std::sync::Mutex::new(vec![]);
    let jn_runs = AtomicU64::new(0);
    let orders = AtomicU64::new(0);
    let differs = AtomicU64::new(0);
    let counted = |c: &Case| {
        // Shrinking re-runs whole cases (a tree and several processes each),
        // and most tape simplifications decode to a case already seen. After a
        // worker's first failure: verdicts are memoised by case, and only
        // SHRINK_BUDGET further distinct cases are executed; candidates beyond
        // that are turned away unexamined.
        let failed = FAILED.with(|f| f.get());
        let key = if failed { serde_json::to_string(c).unwrap_or_default() } else { String::new() };
        if failed {
            if let Some(m) = MEMO.with(|m| m.borrow().get(&key).cloned()) {
                return match m {
                    Some(f) => Verdict::Fail(f),
                    None => Verdict::Pass(Info::default()),
                };
            }
            let spent = SHRINK_EVALS.with(|s| s.get());
            if spent >= SHRINK_BUDGET {
                return Verdict::Reject("shrink budget exhausted");
            }
            SHRINK_EVALS.with(|s| s.set(spent + 1));
        }
        let (v, st) = check_stats(c);
        match v {
            Verdict::Fail(f) => {
                // Believe a failure only if an immediate re-execution of the
                // same case fails as well (the runner's own re-confirmation
                // would only see the memoised verdict).
                match check_stats(c).0 {
                    Verdict::Fail(f2) => {
                        FAILED.with(|x| x.set(true));
                        let key = serde_json::to_string(c).unwrap_or_default();
                        MEMO.with(|m| m.borrow_mut().insert(key, Some(f2)));
                        Verdict::Fail(f)
                    }
                    _ => {
                        unconfirmed.lock().unwrap().push(f.detail);
                        Verdict::Reject("failure observed once, not reproduced on immediate re-execution")
                    }
                }
            }
            Verdict::Pass(info) => {
                if failed {
                    MEMO.with(|m| m.borrow_mut().insert(key, None));
                }
                jn_runs.fetch_add(st.jn_runs, Ordering::Relaxed);
                orders.fetch_add(st.distinct_orders, Ordering::Relaxed);
                differs.fetch_add(st.runs_order_differs, Ordering::Relaxed);
                Verdict::Pass(info)
            }
            other => other,
        }
    };
    let cases = pc.tier.pick(240, 3000);
    pc.run_tape("permutation", cases, (200, 1200), |t| gen_case(t, n_threads, repeats, false), &counted);
    let perm_runs = jn_runs.swap(0, Ordering::Relaxed);
    let perm_orders = orders.swap(0, Ordering::Relaxed);
    let perm_differs = differs.swap(0, Ordering::Relaxed);
    pc.note(format!(
        "permutation: {perm_runs} multi-threaded runs compared with their -j1 reference; {perm_differs} of them had a block order different from -j1; sum over cases of distinct block orders observed = {perm_orders}"
    ));
    pc.count_class("permutation:jN_runs_total", perm_runs);
    pc.count_class("permutation:jN_runs_with_order_different_from_j1", perm_differs);
    pc.count_class("permutation:distinct_orders_summed_over_cases", perm_orders);

    let sorted_cases = pc.tier.pick(60, 600);
    pc.run_tape("sorted", sorted_cases, (200, 1200), |t| gen_case(t, n_threads, repeats, true), &counted);
    let sorted_runs = jn_runs.swap(0, Ordering::Relaxed);
    pc.note(format!("sorted: {sorted_runs} multi-threaded --sort/--sortr runs compared byte for byte with their -j1 reference"));
    pc.count_class("sorted:jN_runs_total", sorted_runs);

    let exit_runs = pc.tier.pick(60u16, 200);
    let exit_cases = pc.tier.pick(96, 640);
    pc.run_tape("exit_status", exit_cases, (8, 40), |t| gen_exit_case(t, exit_runs), check_exit);
    pc.count_class("exit_status:jN_runs_total", exit_cases as u64 * exit_runs as u64);
    pc.require_class("exit_status:one_matching_file_among_many", exit_cases as u64 / 3);

    let big_cases = pc.tier.pick(10, 120);
    pc.run_tape("big_listing", big_cases, (8, 40), gen_big_case, check_big);
    pc.require_class("big_listing:consumer_paused", big_cases as u64 / 3);

    let failed_cases = pc.tier.pick(16, 200);
    pc.run_tape("failed_search", failed_cases, (8, 40), gen_failed_case, check_failed);

    let unconfirmed = unconfirmed.into_inner().unwrap();
    if let Some(first) = unconfirmed.first() {
        let cut: String = first.chars().take(6000).collect();
        pc.inconclusive(format!(
            "{} failure(s) were observed once but did not reproduce when the same case was executed again (schedule-dependent?). First one:\n{cut}",
            unconfirmed.len()
        ));
    }
    let bad = REF_UNUSABLE.load(Ordering::Relaxed);
    if bad > 0 {
        pc.inconclusive(format!("{bad} reference (-j1) runs wrote to stderr or could not be cut into per-file blocks: the check's model of the output format is wrong for them"));
    }
    let quirk = pc.class_count("permutation:j1_omits_separator_before_binary_notice_block")
        + pc.class_count("sorted:j1_omits_separator_before_binary_notice_block");
    if quirk > 0 {
        pc.note(format!(
            "{quirk} reference (-j1) outputs lacked the file separator in front of a block consisting only of `path: binary file matches (..)` (printer/src/standard.rs write_binary_message bypasses write_search_prelude); the -jN outputs had it. The reference was cut leniently there; the -jN outputs were held to `separator exactly between blocks`"
        ));
    }
    let c = cases as u64;
    pc.require_class("permutation:order_differs_from_j1", c / 3);
    pc.require_class("permutation:distinct_orders>=3", c / 6);
    pc.require_class("permutation:blocks>=10", c / 6);
    pc.require_class("permutation:separator_between_blocks", c / 8);
    pc.require_class("permutation:pre_script", c / 10);
    pc.require_class("permutation:size_spread>=1000x", c / 6);
    for m in ["mode_heading", "mode_noheading", "mode_context_heading", "mode_context_noheading", "mode_count", "mode_files_with_matches", "mode_json", "mode_files"] {
        pc.require_class(&format!("permutation:{m}"), c / 40);
    }
    pc.require_class("sorted:blocks>=3", sorted_cases as u64 / 3);
    pc.require_class("sorted:unsorted_order_differs_from_sorted", sorted_cases as u64 / 4);
}

pub fn replay(_pc: &PropCtx, sub: &str, case: &serde_json::Value) -> Result<Verdict, String> {
    if sub == "exit_status" {
        let c: ExitCase = serde_json::from_value(case.clone()).map_err(|e| e.to_string())?;
        return Ok(check_exit(&c));
    }
    if sub == "failed_search" {
        let c: FailedCase = serde_json::from_value(case.clone()).map_err(|e| e.to_string())?;
        return Ok(check_failed(&c));
    }
    if sub == "big_listing" {
        let c: BigCase = serde_json::from_value(case.clone()).map_err(|e| e.to_string())?;
        return Ok(check_big(&c));
    }
    let c: Case = serde_json::from_value(case.clone()).map_err(|e| e.to_string())?;
    Ok(check(&c))
}
