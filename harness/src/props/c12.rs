//! C12 — a glob set answers like its member globs; globs mean what is
//! documented.
//!
//! In-process use of the `globset` crate.
//!
//! Oracle (1), consistency (needs no model): for every path,
//! `GlobSet::matches(p)` == `{ i : globs[i].compile_matcher().is_match(p) }`
//! and `GlobSet::is_match(p)` <=> that set is non-empty.
//!
//! Oracle (2), meaning: `Model`, an independent backtracking matcher over the
//! *generated token sequence* (never over globset's tokens or regex) that
//! implements the documented syntax (crate docs of globset, `GlobBuilder`
//! option docs). Shapes on which the documentation is silent or contradicts
//! itself are excluded from oracle (2) only (counted; oracle (1) still sees
//! them): paths beginning with `/` or containing `//`, non-ASCII paths under
//! `?` / negated classes, a path that ends right after the `/` of a `/**`
//! suffix, and a class that would match `/` while separators are literal.

use std::ffi::OsStr;
use std::os::unix::ffi::OsStrExt;
use std::path::Path;

use globset::{Candidate, Glob, GlobBuilder, GlobMatcher, GlobSet, GlobSetBuilder};
use serde::{Deserialize, Serialize};
use serde_json::json;

use crate::bs::Bs;
use crate::runner::{mix_seed, show, Fail, Failure, Info, PropCtx, Verdict};
use crate::tape::Tape;

// ---------------------------------------------------------------------------
// Case description
// ---------------------------------------------------------------------------

/// One syntactic glob token. The rendering to glob text and the documented
/// meaning are both defined here, independently of globset's parser.
#[derive(Clone, Debug, PartialEq, Serialize, Deserialize)]
pub enum Tok {
    /// The character itself. Rendered raw, or in the documented class
    /// notation `[c]` when `c` is a metacharacter.
    Lit(char),
    /// `\c`: the character itself (only with `backslash_escape`).
    Esc(char),
    /// `?`
    Any,
    /// `*`
    Star,
    /// `**/` at the very start of the glob.
    RecPrefix,
    /// `/**` at the very end of the glob.
    RecSuffix,
    /// `/**/` inside the glob.
    RecInfix,
    /// `[...]` / `[!...]` with single characters (lo == hi) and ranges.
    Class { neg: bool, items: Vec<(char, char)> },
    /// `{a,b}`; one level.
    Alt(Vec<Vec<Tok>>),
    /// The whole glob `**` ("match everything"); only legal alone.
    All,
    /// Raw glob text outside the documented-legal grammar (illegal `**`
    /// positions, `[^..]`, ...). Seen by oracle (1) only.
    Raw(String),
}

#[derive(Clone, Copy, Debug, PartialEq, Serialize, Deserialize)]
pub struct Opts {
    pub case_insensitive: bool,
    pub literal_separator: bool,
    pub backslash_escape: bool,
    pub empty_alternates: bool,
    /// rendering only: the separator in front of a recursive wildcard is written `\/` ("a
    /// backslash in front of a non-special character is ignored", so `\/**` is `/**`); needs
    /// backslash_escape
    #[serde(default)]
    pub esc_rec_slash: bool,
}

#[derive(Clone, Debug, PartialEq, Serialize, Deserialize)]
pub struct GlobSpec {
    pub toks: Vec<Tok>,
    pub opts: Opts,
}

#[derive(Clone, Debug, Serialize, Deserialize)]
pub struct Case {
    pub globs: Vec<GlobSpec>,
    pub paths: Vec<Bs>,
}

// ---------------------------------------------------------------------------
// Rendering
// ---------------------------------------------------------------------------

fn needs_bracket(c: char, in_alt: bool) -> bool {
    matches!(c, '*' | '?' | '[' | '{' | '}') || (in_alt && c == ',')
}

fn render_toks(toks: &[Tok], o: &Opts, in_alt: bool, out: &mut String) {
    for t in toks {
        match t {
            Tok::Lit(c) => {
                if *c == '\\' {
                    out.push_str(if o.backslash_escape { "\\\\" } else { "\\" });
                } else if needs_bracket(*c, in_alt) {
                    out.push('[');
                    out.push(*c);
                    out.push(']');
                } else {
                    out.push(*c);
                }
            }
            Tok::Esc(c) => {
                out.push('\\');
                out.push(*c);
            }
            Tok::Any => out.push('?'),
            Tok::Star => out.push('*'),
            Tok::RecPrefix => out.push_str("**/"),
            Tok::RecSuffix => out.push_str(if o.esc_rec_slash && o.backslash_escape { "\\/**" } else { "/**" }),
            Tok::RecInfix => out.push_str(if o.esc_rec_slash && o.backslash_escape { "\\/**/" } else { "/**/" }),
            Tok::Class { neg, items } => {
                out.push('[');
                if *neg {
                    out.push('!');
                }
                for (lo, hi) in items {
                    out.push(*lo);
                    if lo != hi {
                        out.push('-');
                        out.push(*hi);
                    }
                }
                out.push(']');
            }
            Tok::Alt(bs) => {
                out.push('{');
                for (i, b) in bs.iter().enumerate() {
                    if i > 0 {
                        out.push(',');
                    }
                    render_toks(b, o, true, out);
                }
                out.push('}');
            }
            Tok::All => out.push_str("**"),
            Tok::Raw(s) => out.push_str(s),
        }
    }
}

pub fn render(g: &GlobSpec) -> String {
    let mut s = String::new();
    render_toks(&g.toks, &g.opts, false, &mut s);
    s
}

fn opts_label(o: &Opts) -> String {
    format!(
        "case_insensitive={} literal_separator={} backslash_escape={} empty_alternates={}",
        o.case_insensitive, o.literal_separator, o.backslash_escape, o.empty_alternates
    )
}

// ---------------------------------------------------------------------------
// Legality (the documented grammar) — decides whether oracle (2) applies
// ---------------------------------------------------------------------------

fn is_rec(t: &Tok) -> bool {
    matches!(t, Tok::RecPrefix | Tok::RecSuffix | Tok::RecInfix | Tok::All)
}

fn class_ok(items: &[(char, char)]) -> bool {
    if items.is_empty() {
        return false;
    }
    for (i, (lo, hi)) in items.iter().enumerate() {
        if !lo.is_ascii() || !hi.is_ascii() || lo > hi {
            return false;
        }
        for c in [*lo, *hi] {
            if matches!(c, ']' | '!' | '^' | '\\') || c.is_ascii_control() {
                return false;
            }
        }
        // a hyphen is only generated as a single first member
        if (*lo == '-' || *hi == '-') && !(i == 0 && lo == hi) {
            return false;
        }
    }
    true
}

fn simple_seq_ok(toks: &[Tok], o: &Opts, in_alt: bool) -> bool {
    for (i, t) in toks.iter().enumerate() {
        match t {
            Tok::Lit(_) | Tok::Any => {}
            Tok::Esc(_) => {
                if !o.backslash_escape {
                    return false;
                }
            }
            Tok::Star => {
                if i > 0 && toks[i - 1] == Tok::Star {
                    return false;
                }
            }
            Tok::Class { items, .. } => {
                if !class_ok(items) {
                    return false;
                }
            }
            Tok::Alt(bs) => {
                if in_alt || bs.is_empty() {
                    return false;
                }
                if !o.empty_alternates && bs.iter().all(|b| b.is_empty()) {
                    // `{}` / `{,}` with empty alternates "not accepted":
                    // the documentation does not say what is left.
                    return false;
                }
                for b in bs {
                    if b.iter().any(|t| is_rec(t) || matches!(t, Tok::Raw(_) | Tok::Alt(_))) {
                        return false;
                    }
                    if !simple_seq_ok(b, o, true) {
                        return false;
                    }
                }
            }
            Tok::RecPrefix | Tok::RecSuffix | Tok::RecInfix | Tok::All => {
                if in_alt {
                    return false;
                }
            }
            Tok::Raw(_) => return false,
        }
    }
    true
}

/// Is the glob inside the grammar whose meaning the documentation defines?
pub fn legal(g: &GlobSpec) -> bool {
    let t = &g.toks;
    if !simple_seq_ok(t, &g.opts, false) {
        return false;
    }
    for (i, tok) in t.iter().enumerate() {
        let prev_rec = i > 0 && is_rec(&t[i - 1]);
        match tok {
            Tok::All => {
                if t.len() != 1 {
                    return false;
                }
            }
            Tok::RecPrefix => {
                // `**/` with nothing behind it is the glob `**/`, on which
                // the documentation is silent
                if i != 0 || t.len() < 2 {
                    return false;
                }
            }
            Tok::RecSuffix => {
                if i + 1 != t.len() || prev_rec {
                    return false;
                }
            }
            Tok::RecInfix => {
                if prev_rec {
                    return false;
                }
            }
            _ => {}
        }
    }
    true
}

// ---------------------------------------------------------------------------
// Strategy kind, re-derived from the token shape (not read from the crate)
// ---------------------------------------------------------------------------

#[derive(Clone, Copy, Debug, PartialEq, Eq, PartialOrd, Ord)]
pub enum Kind {
    Literal = 0,
    BasenameLiteral = 1,
    Extension = 2,
    Prefix = 3,
    Suffix = 4,
    RequiredExt = 5,
    Regex = 6,
}

const KIND_NAMES: [&str; 7] =
    ["literal", "basename_literal", "extension", "prefix", "suffix", "required_ext", "regex"];

#[derive(Clone, Copy, PartialEq, Debug)]
enum E {
    L(char),
    Any,
    Star,
    RP,
    RS,
    RI,
    Other,
}

fn eff(g: &GlobSpec) -> Vec<E> {
    g.toks
        .iter()
        .map(|t| match t {
            Tok::Lit(c) => {
                if needs_bracket(*c, false) {
                    E::Other
                } else {
                    E::L(*c)
                }
            }
            Tok::Esc(c) => E::L(*c),
            Tok::Any => E::Any,
            Tok::Star => E::Star,
            Tok::RecPrefix | Tok::All => E::RP,
            Tok::RecSuffix => E::RS,
            Tok::RecInfix => E::RI,
            Tok::Class { .. } | Tok::Alt(_) | Tok::Raw(_) => E::Other,
        })
        .collect()
}

fn all_lit(e: &[E]) -> bool {
    e.iter().all(|x| matches!(x, E::L(_)))
}

/// The way a glob set may answer for this glob, from its shape: whole-path
/// literal, `**/lit`, `*.ext`, `lit*`, `*lit`, "ends in .ext", or regex.
pub fn kind_of(g: &GlobSpec) -> Option<Kind> {
    if !legal(g) {
        return None;
    }
    if g.opts.case_insensitive {
        return Some(Kind::Regex);
    }
    let litsep = g.opts.literal_separator;
    let e = eff(g);
    if e.len() >= 2 && e[0] == E::RP && e[1..].iter().all(|x| matches!(x, E::L(c) if *c != '/')) {
        return Some(Kind::BasenameLiteral);
    }
    if !e.is_empty() && all_lit(&e) {
        return Some(Kind::Literal);
    }
    // `*.ext` / `**/*.ext`
    {
        let start = if e.first() == Some(&E::RP) { 1 } else { 0 };
        if e.get(start) == Some(&E::Star)
            && !(start == 0 && litsep)
            && e.get(start + 1) == Some(&E::L('.'))
            && e[start + 2..].iter().all(|x| matches!(x, E::L(c) if *c != '.' && *c != '/'))
        {
            return Some(Kind::Extension);
        }
    }
    // `lit*` / `lit/**`
    match e.last() {
        Some(E::Star) if !litsep => {
            let body = &e[..e.len() - 1];
            if !body.is_empty() && all_lit(body) {
                return Some(Kind::Prefix);
            }
        }
        Some(E::RS) => {
            if all_lit(&e[..e.len() - 1]) {
                return Some(Kind::Prefix);
            }
        }
        _ => {}
    }
    // `*lit` / `**/lit/with/slash` / `**/*lit`
    'suffix: {
        let Some(first) = e.first() else { break 'suffix };
        let (start, comp) = if *first == E::RP {
            (1, matches!(e.get(1), Some(E::L(_))))
        } else {
            (0, false)
        };
        let Some(at) = e.get(start) else { break 'suffix };
        let start2 = if *at == E::Star {
            if litsep {
                break 'suffix;
            }
            start + 1
        } else {
            start
        };
        let rest = &e[start2..];
        if !all_lit(rest) {
            break 'suffix;
        }
        let mut lit = String::new();
        if comp {
            lit.push('/');
        }
        for x in rest {
            if let E::L(c) = x {
                lit.push(*c);
            }
        }
        if lit.is_empty() || lit == "/" {
            break 'suffix;
        }
        return Some(Kind::Suffix);
    }
    // anything ending in the literal `.ext`
    if ends_in_literal_ext(g) {
        return Some(Kind::RequiredExt);
    }
    Some(Kind::Regex)
}

fn ends_in_literal_ext(g: &GlobSpec) -> bool {
    for x in eff(g).iter().rev() {
        match x {
            E::L('/') => return false,
            E::L('.') => return true,
            E::L(_) => {}
            _ => return false,
        }
    }
    false
}

// ---------------------------------------------------------------------------
// GlobModel: the documented meaning, as a backtracking matcher
// ---------------------------------------------------------------------------

#[derive(Clone, Debug)]
enum FT {
    L(Vec<u8>),
    Any,
    Star,
    RP,
    RS,
    RI,
    Cls { neg: bool, items: Vec<(u8, u8)> },
    All,
}

/// The two points on which the documentation admits two readings. The model
/// is evaluated under every reading that is relevant for the glob; only a
/// unanimous answer is compared with the implementation.
#[derive(Clone, Copy, Debug)]
struct Reading {
    /// does `dir/**` match the path `dir/` (nothing beneath)?
    suffix_matches_empty: bool,
    /// with literal separators, may a class member match `/`?
    /// (crate docs: `[!ab]` matches any character except a and b;
    /// `literal_separator` docs: a literal `/` is required to match one)
    class_matches_sep: bool,
}

#[derive(Clone, Debug)]
pub struct Model {
    /// brace expansion: the glob matches iff one of these sequences does
    alts: Vec<Vec<FT>>,
    ci: bool,
    litsep: bool,
    has_any_or_neg_class: bool,
    has_suffix: bool,
    has_class: bool,
}

pub enum ModelAnswer {
    Decided(bool),
    /// The documentation does not decide this (glob, path). For the two
    /// points with two readings the answer under the strict reading is kept,
    /// so that the evidence can say which reading the implementation follows.
    Silent(&'static str, Option<bool>),
}

fn ft_of(t: &Tok) -> FT {
    match t {
        Tok::Lit(c) | Tok::Esc(c) => {
            let mut b = [0u8; 4];
            FT::L(c.encode_utf8(&mut b).as_bytes().to_vec())
        }
        Tok::Any => FT::Any,
        Tok::Star => FT::Star,
        Tok::RecPrefix => FT::RP,
        Tok::RecSuffix => FT::RS,
        Tok::RecInfix => FT::RI,
        Tok::Class { neg, items } => {
            FT::Cls { neg: *neg, items: items.iter().map(|(a, b)| (*a as u8, *b as u8)).collect() }
        }
        Tok::All => FT::All,
        Tok::Alt(_) | Tok::Raw(_) => unreachable!("not a flat token"),
    }
}

impl Model {
    pub fn new(g: &GlobSpec) -> Option<Model> {
        if !legal(g) {
            return None;
        }
        let mut alts: Vec<Vec<FT>> = vec![vec![]];
        for t in &g.toks {
            match t {
                Tok::Alt(bs) => {
                    // an empty alternate is only "accepted" with the option
                    let branches: Vec<&Vec<Tok>> = bs
                        .iter()
                        .filter(|b| !b.is_empty() || g.opts.empty_alternates)
                        .collect();
                    let mut next = vec![];
                    for a in &alts {
                        for b in &branches {
                            let mut s = a.clone();
                            s.extend(b.iter().map(ft_of));
                            next.push(s);
                        }
                    }
                    alts = next;
                }
                t => {
                    for a in alts.iter_mut() {
                        a.push(ft_of(t));
                    }
                }
            }
        }
        let flat = |f: &dyn Fn(&FT) -> bool| alts.iter().any(|a| a.iter().any(|t| f(t)));
        Some(Model {
            ci: g.opts.case_insensitive,
            litsep: g.opts.literal_separator,
            has_any_or_neg_class: flat(&|t| matches!(t, FT::Any | FT::Cls { neg: true, .. })),
            has_suffix: flat(&|t| matches!(t, FT::RS)),
            has_class: flat(&|t| matches!(t, FT::Cls { .. })),
            alts,
        })
    }

    fn byte_eq(&self, a: u8, b: u8) -> bool {
        a == b || (self.ci && a.is_ascii_alphabetic() && (a ^ 0x20) == b)
    }

    fn class_has(&self, items: &[(u8, u8)], c: u8) -> bool {
        let inr = |c: u8| items.iter().any(|(lo, hi)| *lo <= c && c <= *hi);
        inr(c) || (self.ci && c.is_ascii_alphabetic() && inr(c ^ 0x20))
    }

    /// Does the alternate-free token sequence `t` match exactly `p`? (A `**/`
    /// prefix is only legal as the first token, so it always sees the whole
    /// path.)
    fn m(&self, t: &[FT], p: &[u8], r: Reading) -> bool {
        let Some(first) = t.first() else { return p.is_empty() };
        let rest = &t[1..];
        match first {
            FT::All => true,
            FT::L(bytes) => {
                if p.len() < bytes.len() {
                    return false;
                }
                for (i, b) in bytes.iter().enumerate() {
                    if !self.byte_eq(*b, p[i]) {
                        return false;
                    }
                }
                self.m(rest, &p[bytes.len()..], r)
            }
            FT::Any => {
                // any single character, never a separator when separators
                // are literal
                !p.is_empty() && !(self.litsep && p[0] == b'/') && self.m(rest, &p[1..], r)
            }
            FT::Star => {
                // zero or more characters, never a separator when
                // separators are literal
                let mut k = 0;
                loop {
                    if self.m(rest, &p[k..], r) {
                        return true;
                    }
                    if k == p.len() || (self.litsep && p[k] == b'/') {
                        return false;
                    }
                    k += 1;
                }
            }
            FT::Cls { neg, items } => {
                if p.is_empty() {
                    return false;
                }
                let mut hit = self.class_has(items, p[0]) != *neg;
                if hit && p[0] == b'/' && self.litsep && !r.class_matches_sep {
                    hit = false;
                }
                hit && self.m(rest, &p[1..], r)
            }
            FT::RP => {
                // any leading directories, including none: continue at the
                // start of any path component
                for k in 0..=p.len() {
                    if (k == 0 || p[k - 1] == b'/') && self.m(rest, &p[k..], r) {
                        return true;
                    }
                }
                false
            }
            FT::RS => {
                // everything beneath the directory, not the directory itself
                !p.is_empty() && p[0] == b'/' && (p.len() > 1 || r.suffix_matches_empty)
            }
            FT::RI => {
                // a separator, then zero or more whole directories
                if p.is_empty() || p[0] != b'/' {
                    return false;
                }
                for k in 1..=p.len() {
                    if (k == 1 || p[k - 1] == b'/') && self.m(rest, &p[k..], r) {
                        return true;
                    }
                }
                false
            }
        }
    }

    fn eval(&self, p: &[u8], r: Reading) -> bool {
        self.alts.iter().any(|a| self.m(a, p, r))
    }

    pub fn answer(&self, p: &[u8], sh: &Shape) -> ModelAnswer {
        if sh.empty_component {
            return ModelAnswer::Silent("path_starts_with_slash_or_has_empty_component", None);
        }
        // (a byte that occurs in no valid UTF-8 sequence - 0xC0, 0xC1, 0xF5..=0xFF - is one unit
        // under the byte reading and under the character reading of `?` alike, so only the
        // other bytes >= 0x80 make the documentation ambiguous)
        if sh.ambiguous_non_ascii && self.has_any_or_neg_class {
            return ModelAnswer::Silent("non_ascii_path_under_?_or_negated_class", None);
        }
        let base = Reading { suffix_matches_empty: false, class_matches_sep: false };
        let a = self.eval(p, base);
        if self.has_suffix && sh.ends_with_slash {
            let b = self.eval(p, Reading { suffix_matches_empty: true, ..base });
            if a != b {
                return ModelAnswer::Silent("path_ends_at_the_slash_of_a_recursive_suffix", Some(a));
            }
        }
        if self.has_class && self.litsep && sh.has_slash {
            let b = self.eval(p, Reading { class_matches_sep: true, ..base });
            if a != b {
                return ModelAnswer::Silent("class_would_match_literal_separator", Some(a));
            }
            if self.has_suffix && sh.ends_with_slash {
                let c = self.eval(p, Reading { suffix_matches_empty: true, class_matches_sep: true });
                if a != c {
                    return ModelAnswer::Silent("class_would_match_literal_separator", None);
                }
            }
        }
        ModelAnswer::Decided(a)
    }
}

// ---------------------------------------------------------------------------
// Path shapes
// ---------------------------------------------------------------------------

#[derive(Clone, Copy, Debug, Default)]
pub struct Shape {
    pub ends_with_dot: bool,
    /// last byte is `/` (or the path is empty): no final component
    pub ends_with_slash: bool,
    /// non-empty final component without a `.`
    pub no_ext: bool,
    pub non_utf8: bool,
    pub non_ascii: bool,
    /// some byte >= 0x80 that may be part of a valid UTF-8 sequence
    pub ambiguous_non_ascii: bool,
    pub has_slash: bool,
    pub newline: bool,
    /// starts with `/` or contains `//`
    pub empty_component: bool,
}

pub fn shape_of(p: &[u8]) -> Shape {
    let base_start = p.iter().rposition(|b| *b == b'/').map(|i| i + 1).unwrap_or(0);
    let base = &p[base_start..];
    Shape {
        ends_with_dot: p.last() == Some(&b'.'),
        ends_with_slash: p.is_empty() || p.last() == Some(&b'/'),
        no_ext: !base.is_empty() && !base.contains(&b'.'),
        non_utf8: std::str::from_utf8(p).is_err(),
        non_ascii: p.iter().any(|b| *b >= 0x80),
        ambiguous_non_ascii: p.iter().any(|b| *b >= 0x80 && !matches!(*b, 0xC0 | 0xC1 | 0xF5..=0xFF)),
        has_slash: p.contains(&b'/'),
        newline: p.contains(&b'\n'),
        empty_component: p.first() == Some(&b'/') || p.windows(2).any(|w| w == b"//"),
    }
}

// shape columns of the hit table
const SH_DOT: usize = 0;
const SH_NOBASE: usize = 1;
const SH_NOEXT: usize = 2;
const SH_NONUTF8: usize = 3;
const SH_ANY: usize = 4;

static HIT: [[&str; 5]; 7] = [
    ["hit:literal:path_ends_with_dot", "hit:literal:empty_basename", "hit:literal:basename_without_ext", "hit:literal:non_utf8", "hit:literal"],
    ["hit:basename_literal:path_ends_with_dot", "hit:basename_literal:empty_basename", "hit:basename_literal:basename_without_ext", "hit:basename_literal:non_utf8", "hit:basename_literal"],
    ["hit:extension:path_ends_with_dot", "hit:extension:empty_basename", "hit:extension:basename_without_ext", "hit:extension:non_utf8", "hit:extension"],
    ["hit:prefix:path_ends_with_dot", "hit:prefix:empty_basename", "hit:prefix:basename_without_ext", "hit:prefix:non_utf8", "hit:prefix"],
    ["hit:suffix:path_ends_with_dot", "hit:suffix:empty_basename", "hit:suffix:basename_without_ext", "hit:suffix:non_utf8", "hit:suffix"],
    ["hit:required_ext:path_ends_with_dot", "hit:required_ext:empty_basename", "hit:required_ext:basename_without_ext", "hit:required_ext:non_utf8", "hit:required_ext"],
    ["hit:regex:path_ends_with_dot", "hit:regex:empty_basename", "hit:regex:basename_without_ext", "hit:regex:non_utf8", "hit:regex"],
];

static SILENT: [&str; 4] = [
    "path_starts_with_slash_or_has_empty_component",
    "non_ascii_path_under_?_or_negated_class",
    "path_ends_at_the_slash_of_a_recursive_suffix",
    "class_would_match_literal_separator",
];
static IMPL_READING: [[&str; 2]; 4] = [
    ["", ""],
    ["", ""],
    ["observed:dir/**_does_not_match_dir/", "observed:dir/**_matches_dir/"],
    ["observed:class_does_not_match_/_with_literal_separator", "observed:class_matches_/_with_literal_separator"],
];
static SILENT_CLASS: [&str; 4] = [
    "model_silent:path_starts_with_slash_or_has_empty_component",
    "model_silent:non_ascii_path_under_?_or_negated_class",
    "model_silent:path_ends_at_the_slash_of_a_recursive_suffix",
    "model_silent:class_would_match_literal_separator",
];

// ---------------------------------------------------------------------------
// Building the real objects
// ---------------------------------------------------------------------------

pub struct Built {
    /// index into `case.globs` of every glob that built
    pub orig: Vec<usize>,
    pub specs: Vec<GlobSpec>,
    pub texts: Vec<String>,
    pub globs: Vec<Glob>,
    pub matchers: Vec<GlobMatcher>,
    pub set: GlobSet,
    pub kinds: Vec<Option<Kind>>,
    pub models: Vec<Option<Model>>,
    pub distinct_kinds: usize,
    pub rejected_exotic: usize,
}

pub fn build_glob(g: &GlobSpec) -> Result<Glob, globset::Error> {
    let text = render(g);
    GlobBuilder::new(&text)
        .case_insensitive(g.opts.case_insensitive)
        .literal_separator(g.opts.literal_separator)
        .backslash_escape(g.opts.backslash_escape)
        .empty_alternates(g.opts.empty_alternates)
        .build()
}

pub fn build(specs: &[GlobSpec]) -> Result<Built, Fail> {
    let mut b = Built {
        orig: vec![],
        specs: vec![],
        texts: vec![],
        globs: vec![],
        matchers: vec![],
        set: GlobSet::empty(),
        kinds: vec![],
        models: vec![],
        distinct_kinds: 0,
        rejected_exotic: 0,
    };
    for (i, g) in specs.iter().enumerate() {
        match build_glob(g) {
            Ok(glob) => {
                b.orig.push(i);
                b.specs.push(g.clone());
                b.texts.push(render(g));
                b.matchers.push(glob.compile_matcher());
                b.globs.push(glob);
                b.kinds.push(kind_of(g));
                b.models.push(Model::new(g));
            }
            Err(e) => {
                if legal(g) {
                    return Err(Fail::new(format!(
                        "build: a glob inside the documented grammar is rejected\n glob #{i}: {:?} ({})\n tokens: {:?}\n error: {e}",
                        render(g),
                        opts_label(&g.opts),
                        g.toks
                    ))
                    .fact("oracle:build"));
                }
                b.rejected_exotic += 1;
            }
        }
    }
    let mut sb = GlobSetBuilder::new();
    for g in &b.globs {
        sb.add(g.clone());
    }
    b.set = sb.build().map_err(|e| {
        Fail::new(format!(
            "build: GlobSetBuilder::build failed for globs that build individually\n globs: {:?}\n error: {e}",
            b.texts
        ))
        .fact("oracle:build")
    })?;
    let mut ks: Vec<Kind> = b.kinds.iter().flatten().copied().collect();
    ks.sort();
    ks.dedup();
    b.distinct_kinds = ks.len();
    Ok(b)
}

fn describe_set(b: &Built) -> String {
    let mut s = String::new();
    for i in 0..b.globs.len() {
        s.push_str(&format!(
            "  [{i}] glob {:?}  {}  kind={}  regex={:?}\n",
            b.texts[i],
            opts_label(&b.specs[i].opts),
            b.kinds[i].map_or("outside-documented-grammar", |k| KIND_NAMES[k as usize]),
            b.globs[i].regex()
        ));
    }
    s
}

// ---------------------------------------------------------------------------
// The check for one path
// ---------------------------------------------------------------------------

#[derive(Default, Clone)]
pub struct Stats {
    pub evals: u64,
    pub nontrivial: u64,
    pub hits: [[u64; 5]; 7],
    pub model_checked: u64,
    /// ... of which on a path with never-valid UTF-8 bytes under `?` / a negated class
    pub model_checked_invalid_bytes: u64,
    pub model_match: u64,
    pub model_silent: [u64; 4],
    pub matched_some_not_all: u64,
    pub matched_none: u64,
    pub matched_all: u64,
    pub shape: [u64; 4],
    pub newline: u64,
    pub multi_hit: u64,
    pub unsorted: u64,
    /// on the two-reading points: which reading the implementation follows
    pub impl_strict: [u64; 4],
    pub impl_permissive: [u64; 4],
}

fn as_path(p: &[u8]) -> &Path {
    Path::new(OsStr::from_bytes(p))
}

/// Oracle (1) and (2) for one path. `all_apis` additionally exercises the
/// candidate / `_into` entry points of the set.
pub fn check_path(b: &Built, p: &[u8], sh: &Shape, st: &mut Stats, all_apis: bool) -> Result<(), Fail> {
    let path = as_path(p);
    let n = b.globs.len();
    let got = b.set.matches(path);
    let any = b.set.is_match(path);
    let mut exp: Vec<usize> = Vec::with_capacity(n);
    for i in 0..n {
        if b.matchers[i].is_match(path) {
            exp.push(i);
        }
    }
    // the property speaks of the indices, not of their order: the answer must
    // be the expected set without duplicates; its order is only recorded
    if !same_indices(&got, &exp) || any != !exp.is_empty() {
        return Err(consistency_fail(b, p, sh, &got, any, &exp, "GlobSet::matches / is_match"));
    }
    if got != exp {
        st.unsorted += 1;
    }
    if all_apis {
        let cand = Candidate::new(path);
        let mut into = vec![usize::MAX, 7];
        b.set.matches_into(path, &mut into);
        let mut into2 = vec![3];
        b.set.matches_candidate_into(&cand, &mut into2);
        let got2 = b.set.matches_candidate(&cand);
        let any2 = b.set.is_match_candidate(&cand);
        if !same_indices(&into, &exp)
            || !same_indices(&into2, &exp)
            || !same_indices(&got2, &exp)
            || any2 != !exp.is_empty()
        {
            return Err(consistency_fail(b, p, sh, &into, any2, &exp, "matches_into / *_candidate* entry points"));
        }
        for i in 0..n {
            if b.matchers[i].is_match_candidate(&cand) != exp.contains(&i) {
                return Err(Fail::new(format!(
                    "consistency: GlobMatcher::is_match_candidate differs from is_match\n path {:?}\n{}",
                    show(p),
                    describe_set(b)
                ))
                .fact("oracle:consistency"));
            }
        }
    }
    // oracle (2)
    for i in 0..n {
        let Some(model) = &b.models[i] else { continue };
        match model.answer(p, sh) {
            ModelAnswer::Silent(why, strict) => {
                let k = SILENT.iter().position(|s| *s == why).unwrap_or(0);
                st.model_silent[k] += 1;
                if let Some(strict) = strict {
                    if exp.contains(&i) == strict {
                        st.impl_strict[k] += 1;
                    } else {
                        st.impl_permissive[k] += 1;
                    }
                }
            }
            ModelAnswer::Decided(want) => {
                st.model_checked += 1;
                st.model_checked_invalid_bytes += u64::from(sh.non_ascii && model.has_any_or_neg_class);
                st.model_match += u64::from(want);
                let is = exp.contains(&i);
                if is != want {
                    return Err(Fail::new(format!(
                        "meaning: Glob::compile_matcher().is_match(path) = {is}, the documented syntax says {want}\n glob {:?}  ({})\n tokens {:?}\n regex {:?}\n path {:?}\n reproduce: GlobBuilder::new({:?}).case_insensitive({}).literal_separator({}).backslash_escape({}).empty_alternates({}).build()?.compile_matcher().is_match(<path bytes>)",
                        b.texts[i],
                        opts_label(&b.specs[i].opts),
                        b.specs[i].toks,
                        b.globs[i].regex(),
                        show(p),
                        b.texts[i],
                        b.specs[i].opts.case_insensitive,
                        b.specs[i].opts.literal_separator,
                        b.specs[i].opts.backslash_escape,
                        b.specs[i].opts.empty_alternates,
                    ))
                    .fact("oracle:meaning")
                    .fact(if want { "documented-match-missed" } else { "undocumented-match" }));
                }
            }
        }
    }
    // accounting
    st.evals += 1;
    if exp.is_empty() {
        st.matched_none += 1;
    } else if exp.len() == n {
        st.matched_all += 1;
    } else {
        st.matched_some_not_all += 1;
        if b.distinct_kinds >= 3 {
            st.nontrivial += 1;
        }
    }
    if exp.len() >= 2 {
        st.multi_hit += 1;
    }
    let flags = [sh.ends_with_dot, sh.ends_with_slash, sh.no_ext, sh.non_utf8];
    for (j, f) in flags.iter().enumerate() {
        if *f {
            st.shape[j] += 1;
        }
    }
    st.newline += u64::from(sh.newline);
    for &i in &exp {
        if let Some(k) = b.kinds[i] {
            let row = &mut st.hits[k as usize];
            row[SH_ANY] += 1;
            for (j, f) in flags.iter().enumerate() {
                if *f {
                    row[j] += 1;
                }
            }
        }
    }
    Ok(())
}

/// `got` holds exactly the indices of `exp` (ascending, distinct), each once.
fn same_indices(got: &[usize], exp: &[usize]) -> bool {
    if got.len() != exp.len() {
        return false;
    }
    let mut g = got.to_vec();
    g.sort();
    g == exp
}

fn consistency_fail(b: &Built, p: &[u8], sh: &Shape, got: &[usize], any: bool, exp: &[usize], api: &str) -> Fail {
    let missing: Vec<usize> = exp.iter().copied().filter(|i| !got.contains(i)).collect();
    let extra: Vec<usize> = got.iter().copied().filter(|i| !exp.contains(i)).collect();
    let mut f = Fail::new(format!(
        "consistency: {api} disagrees with the member globs\n path {:?}\n set answered: matches={got:?} is_match={any}\n members that match individually (compile_matcher().is_match): {exp:?}\n missing from the set answer: {missing:?}   extra in the set answer: {extra:?}\n{}",
        show(p),
        describe_set(b)
    ))
    .fact("oracle:consistency");
    if !missing.is_empty() {
        f = f.fact("set-misses-a-matching-member");
    }
    if !extra.is_empty() {
        f = f.fact("set-reports-a-non-matching-member");
    }
    if missing.is_empty() && extra.is_empty() {
        f = f.fact("duplicate-indices-or-is_match-only");
    }
    // root-cause shape of the file_name defect: nothing extra, the path ends
    // in '.', and every missed glob is answered through the basename or the
    // extension of the candidate
    let by_name = |i: &usize| match b.kinds[*i] {
        Some(k) => matches!(k, Kind::BasenameLiteral | Kind::Extension | Kind::RequiredExt),
        // outside the documented grammar the kind is not derived, but a
        // case-sensitive glob ending in a literal `.ext` is a required-extension glob
        None => !b.specs[*i].opts.case_insensitive && ends_in_literal_ext(&b.specs[*i]),
    };
    if extra.is_empty() && !missing.is_empty() && sh.ends_with_dot && missing.iter().all(by_name) {
        f = f.fact("path-ends-with-dot").fact("missed-globs-use-basename-or-extension-strategy");
    }
    f
}

// ---------------------------------------------------------------------------
// check / replay
// ---------------------------------------------------------------------------

fn fold_info(b: &Built, st: &Stats, single_glob_rule: bool) -> Info {
    let mut info = Info::new(st.nontrivial > 0);
    if single_glob_rule {
        // pairs: one glob; non-trivial = the model decided, the glob is not
        // a pure literal, and at least one path matches
        let non_literal = b.kinds.iter().any(|k| !matches!(k, Some(Kind::Literal) | None));
        info.nontrivial = non_literal && st.model_checked > 0 && st.model_match > 0;
    }
    for k in 0..7 {
        for j in 0..5 {
            info.class_if(st.hits[k][j] > 0, HIT[k][j]);
        }
    }
    for k in 0..4 {
        info.class_if(st.model_silent[k] > 0, SILENT_CLASS[k]);
    }
    for k in 2..4 {
        info.class_if(st.impl_strict[k] > 0, IMPL_READING[k][0]);
        info.class_if(st.impl_permissive[k] > 0, IMPL_READING[k][1]);
    }
    info.class_if(b.specs.is_empty(), "empty_set");
    info.class_if(st.model_checked > 0, "model_decided");
    info.class_if(st.model_checked_invalid_bytes > 0, "model_decided_on_never_valid_utf8_bytes_under_?_or_negated_class");
    info.class_if(st.model_match > 0, "model_says_match");
    info.class_if(st.model_checked > st.model_match, "model_says_no_match");
    info.class_if(st.matched_some_not_all > 0, "matches_some_not_all");
    info.class_if(st.multi_hit > 0, "path_matches>=2_globs");
    info.class_if(st.unsorted > 0, "answer_not_in_ascending_order");
    info.class_if(st.shape[SH_DOT] > 0, "path_ends_with_dot");
    info.class_if(st.shape[SH_NOBASE] > 0, "path_empty_basename");
    info.class_if(st.shape[SH_NOEXT] > 0, "path_basename_without_ext");
    info.class_if(st.shape[SH_NONUTF8] > 0, "path_non_utf8");
    info.class_if(st.newline > 0, "path_has_newline");
    info.class_if(b.distinct_kinds >= 3, "set_has>=3_strategy_kinds");
    info.class_if(b.rejected_exotic > 0, "undocumented_glob_rejected_by_parser");
    info.class_if(b.kinds.iter().any(|k| k.is_none()), "glob_outside_documented_grammar");
    let o = |f: &dyn Fn(&Opts) -> bool| b.specs.iter().any(|g| f(&g.opts));
    info.class_if(o(&|o| o.case_insensitive), "opt_case_insensitive");
    info.class_if(o(&|o| o.literal_separator), "opt_literal_separator");
    info.class_if(o(&|o| !o.backslash_escape), "opt_no_backslash_escape");
    info.class_if(o(&|o| o.empty_alternates), "opt_empty_alternates");
    let has = |f: &dyn Fn(&Tok) -> bool| b.specs.iter().any(|g| g.toks.iter().any(|t| f(t)));
    info.class_if(has(&|t| matches!(t, Tok::Alt(_))), "tok_alternates");
    info.class_if(has(&|t| matches!(t, Tok::Class { neg: false, .. })), "tok_class");
    info.class_if(has(&|t| matches!(t, Tok::Class { neg: true, .. })), "tok_negated_class");
    info.class_if(has(&|t| matches!(t, Tok::Esc(_))), "tok_escape");
    info.class_if(has(&|t| matches!(t, Tok::RecPrefix)), "tok_recursive_prefix");
    info.class_if(has(&|t| matches!(t, Tok::RecSuffix)), "tok_recursive_suffix");
    info.class_if(has(&|t| matches!(t, Tok::RecInfix)), "tok_recursive_infix");
    info
}

fn check_with(case: &Case, single_glob_rule: bool) -> Verdict {
    if case.globs.is_empty() && single_glob_rule {
        return Verdict::Reject("no globs");
    }
    let b = match build(&case.globs) {
        Ok(b) => b,
        Err(f) => return Verdict::Fail(f),
    };
    let mut st = Stats::default();
    for p in &case.paths {
        let sh = shape_of(p);
        if let Err(f) = check_path(&b, p, &sh, &mut st, true) {
            return Verdict::Fail(f);
        }
    }
    Verdict::Pass(fold_info(&b, &st, single_glob_rule))
}

pub fn check(case: &Case) -> Verdict {
    check_with(case, false)
}

pub fn check_pairs(case: &Case) -> Verdict {
    check_with(case, true)
}

// ---------------------------------------------------------------------------
// Oracle (3): a brace group is the union of its branches
// ---------------------------------------------------------------------------

/// `{b1,...,bn}` (the whole glob) against the globs `b1` ... `bn` compiled on
/// their own with the same options. The documentation says alternates match
/// any of the sub-patterns; this holds whatever a branch contains (also `**/`,
/// `/**`, `/**/`, on which the model of oracle (2) is silent inside braces),
/// so it is checked without a model, over ALL paths up to a length bound.
#[derive(Clone, Debug, Serialize, Deserialize)]
pub struct AltCase {
    pub branches: Vec<Vec<Tok>>,
    pub opts: Opts,
    pub max_len: usize,
}

pub fn gen_alt_case(t: &mut Tape) -> AltCase {
    let opts = gen_opts(t);
    let n = 2 + t.below(2);
    let mut branches = vec![];
    for _ in 0..n {
        // a small alternate-free glob; recursive wildcards in their legal positions are welcome
        let mut toks: Vec<Tok> = gen_free(t, &opts, false).into_iter().filter(|x| !matches!(x, Tok::Alt(_) | Tok::Raw(_) | Tok::All)).collect();
        if t.chance(1, 3) && !toks.is_empty() && !is_rec(toks.last().unwrap()) {
            toks.push(Tok::RecSuffix);
        }
        if t.chance(1, 4) && !toks.is_empty() && !is_rec(&toks[0]) {
            toks.insert(0, Tok::RecPrefix);
        }
        branches.push(toks);
    }
    AltCase { branches, opts, max_len: 5 }
}

pub fn check_alt(c: &AltCase) -> Verdict {
    let mk = |text: &str| {
        GlobBuilder::new(text)
            .case_insensitive(c.opts.case_insensitive)
            .literal_separator(c.opts.literal_separator)
            .backslash_escape(c.opts.backslash_escape)
            .empty_alternates(c.opts.empty_alternates)
            .build()
            .map(|g| g.compile_matcher())
    };
    let mut texts = vec![];
    let mut singles = vec![];
    for b in &c.branches {
        if !legal(&GlobSpec { toks: b.clone(), opts: c.opts }) {
            return Verdict::Reject("a branch is outside the documented grammar");
        }
        let mut in_group = String::new();
        render_toks(b, &c.opts, true, &mut in_group);
        let mut alone = String::new();
        render_toks(b, &c.opts, false, &mut alone);
        match mk(&alone) {
            Ok(m) => singles.push(m),
            Err(_) => return Verdict::Reject("a branch does not build on its own"),
        }
        texts.push((in_group, alone));
    }
    let group_text = format!("{{{}}}", texts.iter().map(|(g, _)| g.as_str()).collect::<Vec<_>>().join(","));
    let Ok(group) = mk(&group_text) else { return Verdict::Reject("the brace group does not build") };
    let set = match GlobSetBuilder::new()
        .add(
            GlobBuilder::new(&group_text)
                .case_insensitive(c.opts.case_insensitive)
                .literal_separator(c.opts.literal_separator)
                .backslash_escape(c.opts.backslash_escape)
                .empty_alternates(c.opts.empty_alternates)
                .build()
                .unwrap(),
        )
        .build()
    {
        Ok(s) => s,
        Err(_) => return Verdict::Reject("the one-glob set does not build"),
    };
    let mut matched = 0u64;
    let mut total = 0u64;
    for p in all_paths(c.max_len) {
        let path = as_path(&p);
        let want = singles.iter().any(|m| m.is_match(path));
        let got = group.is_match(path);
        total += 1;
        matched += u64::from(want);
        if got != want || set.is_match(path) != want {
            return Verdict::Fail(
                Fail::new(format!(
                    "alternates: {:?} {} the path {:?}, but {} of its branches {:?} (compiled alone, same options) matches it\n options: {}\n reproduce: GlobBuilder::new({:?}) ... .is_match({:?}); set.is_match = {}",
                    group_text,
                    if got { "matches" } else { "does not match" },
                    show(&p),
                    if want { "one" } else { "none" },
                    texts.iter().map(|(_, a)| a.as_str()).collect::<Vec<_>>(),
                    opts_label(&c.opts),
                    group_text,
                    show(&p),
                    set.is_match(path)
                ))
                .fact("oracle:alternates-are-the-union-of-their-branches"),
            );
        }
    }
    let has_rec = |f: &dyn Fn(&Tok) -> bool| c.branches.iter().any(|b| b.iter().any(|t| f(t)));
    let mut info = Info::new(matched > 0 && matched < total);
    info.class_if(has_rec(&|t| matches!(t, Tok::RecSuffix)), "branch_with_recursive_suffix");
    info.class_if(c.branches.iter().skip(1).any(|b| matches!(b.last(), Some(Tok::RecSuffix))), "recursive_suffix_in_a_later_branch");
    info.class_if(has_rec(&|t| matches!(t, Tok::RecPrefix)), "branch_with_recursive_prefix");
    info.class_if(has_rec(&|t| matches!(t, Tok::RecInfix)), "branch_with_recursive_infix");
    info.class_if(c.opts.literal_separator, "literal_separator");
    info.class_if(c.branches.iter().any(|b| b.is_empty()), "empty_branch");
    Verdict::Pass(info)
}

pub fn replay(pc: &PropCtx, sub: &str, case: &serde_json::Value) -> Result<Verdict, String> {
    let _ = pc;
    if sub == "alternates" {
        let c: AltCase = serde_json::from_value(case.clone()).map_err(|e| e.to_string())?;
        return Ok(check_alt(&c));
    }
    let c: Case = serde_json::from_value(case.clone()).map_err(|e| e.to_string())?;
    Ok(if sub == "pairs" { check_pairs(&c) } else { check(&c) })
}

// ---------------------------------------------------------------------------
// Generators (simplest alternative first everywhere)
// ---------------------------------------------------------------------------

fn gen_lit_char(t: &mut Tape, rich: bool) -> char {
    if rich && t.chance(1, 8) {
        return *t.pick(&['B', 'z', ' ', ',', '!', ']', '*', '?', '[', '{', '}', '\\', '\n', 'é']);
    }
    match t.weighted(&[5, 3, 3, 2, 1, 2]) {
        0 => 'a',
        1 => 'b',
        2 => '.',
        3 => '/',
        4 => '-',
        _ => 'A',
    }
}

fn gen_name_char(t: &mut Tape, rich: bool) -> char {
    // a literal that is not a separator
    let c = gen_lit_char(t, rich);
    if c == '/' {
        'a'
    } else {
        c
    }
}

fn gen_class(t: &mut Tape) -> Tok {
    let neg = t.chance(1, 3);
    let n = 1 + t.below(2);
    let mut items: Vec<(char, char)> = vec![];
    for _ in 0..n {
        let it = match t.weighted(&[4, 2, 2, 1, 1, 1, 1, 1, 1, 1]) {
            0 => ('a', 'a'),
            1 => ('b', 'b'),
            2 => ('a', 'b'),
            3 => ('A', 'A'),
            4 => ('.', '.'),
            5 => ('/', '/'),
            6 => ('-', '-'),
            7 => ('A', 'b'),
            8 => ('.', 'A'),
            _ => *t.pick(&[('*', '*'), ('?', '?'), ('a', 'z'), ('A', 'Z'), ('+', '.')]),
        };
        items.push(it);
    }
    // a hyphen member goes first (the standard way to write it)
    items.sort_by_key(|it| if *it == ('-', '-') { 0 } else { 1 });
    items.dedup();
    Tok::Class { neg, items }
}

fn gen_simple_tok(t: &mut Tape, o: &Opts, rich: bool, prev_star: bool) -> Tok {
    match t.weighted(&[8, 3, 2, 2, 1]) {
        0 => Tok::Lit(gen_lit_char(t, rich)),
        1 => {
            if prev_star {
                Tok::Any
            } else {
                Tok::Star
            }
        }
        2 => Tok::Any,
        3 => gen_class(t),
        _ => {
            if o.backslash_escape {
                Tok::Esc(*t.pick(&['a', '*', '?', '.', '[', '\\', '{', 'b', '/', ',']))
            } else {
                Tok::Lit('\\')
            }
        }
    }
}

fn gen_alt(t: &mut Tape, o: &Opts, rich: bool) -> Tok {
    let n = 1 + t.below(3);
    let mut bs = vec![];
    for _ in 0..n {
        let len = t.below(3);
        let mut b: Vec<Tok> = vec![];
        for _ in 0..len {
            let prev_star = b.last() == Some(&Tok::Star);
            b.push(gen_simple_tok(t, o, rich, prev_star));
        }
        bs.push(b);
    }
    if !o.empty_alternates && bs.iter().all(|b| b.is_empty()) {
        bs[0].push(Tok::Lit('a'));
    }
    Tok::Alt(bs)
}

fn gen_opts(t: &mut Tape) -> Opts {
    Opts {
        case_insensitive: t.chance(1, 6),
        literal_separator: t.chance(2, 5),
        backslash_escape: !t.chance(1, 5),
        empty_alternates: t.chance(1, 3),
        esc_rec_slash: t.chance(1, 5),
    }
}

const EXOTIC: [&str; 16] = [
    "**", "a**", "**a", "**/", "/**/", "{**/a,b}", "{a/**,b}", "[^a]", "{,}", "{}", "[]a]", "[a-]",
    "**/**", "/**/**/", "[!]a]", "{a,b}**",
];

const MAX_TOKS: usize = 5;

fn gen_free(t: &mut Tape, o: &Opts, rich: bool) -> Vec<Tok> {
    let n = t.below(MAX_TOKS + 1);
    let mut toks: Vec<Tok> = vec![];
    if n >= 2 && t.chance(1, 5) {
        toks.push(Tok::RecPrefix);
    }
    while toks.len() < n {
        let prev_star = toks.last() == Some(&Tok::Star);
        let prev_rec = toks.last().map_or(false, is_rec);
        let tok = match t.weighted(&[12, 1, 1]) {
            0 => gen_simple_tok(t, o, rich, prev_star),
            1 => gen_alt(t, o, rich),
            _ => {
                if toks.is_empty() || prev_rec {
                    Tok::Lit('a')
                } else {
                    Tok::RecInfix
                }
            }
        };
        toks.push(tok);
    }
    if n >= 2 && t.chance(1, 6) && !is_rec(&toks[n - 2]) {
        toks[n - 1] = Tok::RecSuffix;
    }
    toks
}

fn gen_lits(t: &mut Tape, lo: usize, hi: usize, name_only: bool, rich: bool) -> Vec<Tok> {
    let n = t.range(lo, hi);
    (0..n)
        .map(|_| Tok::Lit(if name_only { gen_name_char(t, rich) } else { gen_lit_char(t, rich) }))
        .collect()
}

/// One glob. Shapes are chosen so that every strategy kind of the set is
/// reached often; the free shape covers the rest of the grammar.
pub fn gen_glob(t: &mut Tape, rich: bool) -> GlobSpec {
    let opts = gen_opts(t);
    let toks = match t.weighted(&[3, 3, 3, 3, 3, 3, 8, 2, 1]) {
        // whole-path literal
        0 => gen_lits(t, 1, 4, false, rich),
        // **/name
        1 => {
            let mut v = vec![Tok::RecPrefix];
            v.extend(gen_lits(t, 1, 3, true, rich));
            v
        }
        // *.ext, **/*.ext (the extension may itself contain a dot)
        2 => {
            let mut v = vec![];
            if t.chance(1, 3) {
                v.push(Tok::RecPrefix);
            }
            v.push(Tok::Star);
            v.push(Tok::Lit('.'));
            let room = MAX_TOKS - v.len();
            v.extend(gen_lits(t, 0, room.min(2), true, rich));
            v
        }
        // lit*, lit/**
        3 => {
            let mut v = gen_lits(t, 1, 3, false, rich);
            v.push(if t.chance(1, 3) { Tok::RecSuffix } else { Tok::Star });
            v
        }
        // *lit, **/dir/name, **/*lit
        4 => {
            let mut v = vec![];
            if t.chance(1, 3) {
                v.push(Tok::RecPrefix);
            }
            if t.chance(2, 3) {
                v.push(Tok::Star);
            }
            let room = MAX_TOKS - v.len();
            v.extend(gen_lits(t, 1, room.min(3), false, rich));
            v
        }
        // something non-literal, then .ext
        5 => {
            let mut v = vec![];
            let head = 1 + t.below(2);
            for _ in 0..head {
                let prev_star = v.last() == Some(&Tok::Star);
                v.push(match t.weighted(&[3, 2, 2, 1, 1]) {
                    0 => Tok::Any,
                    1 => gen_class(t),
                    2 => {
                        if prev_star {
                            Tok::Lit('a')
                        } else {
                            Tok::Star
                        }
                    }
                    3 => gen_alt(t, &opts, rich),
                    _ => Tok::Lit(gen_lit_char(t, rich)),
                });
            }
            v.push(Tok::Lit('.'));
            let room = MAX_TOKS - v.len();
            v.extend(gen_lits(t, 0, room.min(2), true, rich));
            v
        }
        // free token sequence
        6 => gen_free(t, &opts, rich),
        // the glob `**`
        7 => vec![Tok::All],
        // outside the documented grammar: oracle (1) only
        _ => {
            let mut v = gen_free(t, &opts, rich);
            v.truncate(3);
            let raw = Tok::Raw(t.pick(&EXOTIC).to_string());
            let at = t.below(v.len() + 1);
            v.insert(at, raw);
            v
        }
    };
    GlobSpec { toks, opts }
}

pub fn gen_set(t: &mut Tape, rich: bool) -> Vec<GlobSpec> {
    let n = 1 + t.below(8);
    let mut v: Vec<GlobSpec> = Vec::with_capacity(n);
    for _ in 0..n {
        if !v.is_empty() && t.chance(1, 8) {
            // the same glob twice in one set (same or different options)
            let mut g = v[t.below(v.len())].clone();
            if t.bool() {
                g.opts = gen_opts(t);
                if !g.opts.backslash_escape && g.toks.iter().any(|t| matches!(t, Tok::Esc(_))) {
                    g.opts.backslash_escape = true;
                }
            }
            v.push(g);
        } else {
            v.push(gen_glob(t, rich));
        }
    }
    v
}

fn gen_path_byte(t: &mut Tape, rich: bool) -> u8 {
    if rich && t.chance(1, 6) {
        return *t.pick(&[b'B', b'z', b' ', b',', b'*', b'?', b'[', b'\\', b'\n', 0x80, 0xC3, 0xA9, 0xFF, 0xFF, 0xFE, 0xC0, b'{', b'!']);
    }
    *t.pick(&[b'a', b'b', b'.', b'/', b'-', b'A'])
}

fn gen_component(t: &mut Tape, rich: bool, out: &mut Vec<u8>) {
    let n = 1 + t.below(2);
    for _ in 0..n {
        let c = gen_path_byte(t, rich);
        out.push(if c == b'/' { b'a' } else { c });
    }
}

fn sample_toks(t: &mut Tape, toks: &[Tok], o: &Opts, rich: bool, out: &mut Vec<u8>) {
    for tok in toks {
        match tok {
            Tok::Lit(c) | Tok::Esc(c) => {
                let mut b = [0u8; 4];
                let s = c.encode_utf8(&mut b).as_bytes();
                if o.case_insensitive && s.len() == 1 && s[0].is_ascii_alphabetic() && t.chance(1, 3) {
                    out.push(s[0] ^ 0x20);
                } else {
                    out.extend_from_slice(s);
                }
            }
            Tok::Any => out.push(gen_path_byte(t, rich)),
            Tok::Star => {
                for _ in 0..t.small(3) {
                    out.push(gen_path_byte(t, rich));
                }
            }
            Tok::RecPrefix => {
                for _ in 0..t.small(2) {
                    gen_component(t, rich, out);
                    out.push(b'/');
                }
            }
            Tok::RecSuffix => {
                out.push(b'/');
                for i in 0..t.small(2) {
                    if i > 0 {
                        out.push(b'/');
                    }
                    gen_component(t, rich, out);
                }
            }
            Tok::RecInfix => {
                out.push(b'/');
                for _ in 0..t.small(2) {
                    gen_component(t, rich, out);
                    out.push(b'/');
                }
            }
            Tok::Class { neg, items } => {
                if *neg || items.is_empty() {
                    out.push(gen_path_byte(t, rich));
                } else {
                    let (lo, hi) = *t.pick(items);
                    out.push(if t.bool() { hi as u8 } else { lo as u8 });
                }
            }
            Tok::Alt(bs) => {
                if !bs.is_empty() {
                    let b = t.pick(bs);
                    sample_toks(t, b, o, rich, out);
                }
            }
            Tok::All | Tok::Raw(_) => {
                for _ in 0..t.small(4) {
                    out.push(gen_path_byte(t, rich));
                }
            }
        }
    }
}

/// A path aimed at a glob: a member of (roughly) its language, then a few
/// mutations towards the shapes that matter.
fn gen_path_for(t: &mut Tape, g: Option<&GlobSpec>, rich: bool) -> Vec<u8> {
    let mut p = vec![];
    match g {
        Some(g) => sample_toks(t, &g.toks, &g.opts, rich, &mut p),
        None => {
            for _ in 0..t.small(14) {
                p.push(gen_path_byte(t, rich));
            }
        }
    }
    let muts = t.weighted(&[3, 3, 1]);
    for _ in 0..muts {
        match t.weighted(&[2, 2, 2, 2, 2, 2, 1, 1, 1, 1]) {
            0 => {
                if !p.is_empty() {
                    let i = t.below(p.len());
                    p.remove(i);
                }
            }
            1 => {
                let i = t.below(p.len() + 1);
                p.insert(i, gen_path_byte(t, rich));
            }
            2 => {
                if !p.is_empty() {
                    let i = t.below(p.len());
                    p[i] = gen_path_byte(t, rich);
                }
            }
            3 => p.push(b'.'),
            4 => p.push(b'/'),
            5 => {
                let mut q = vec![];
                gen_component(t, rich, &mut q);
                q.push(b'/');
                q.extend_from_slice(&p);
                p = q;
            }
            6 => p.insert(0, b'/'),
            7 => {
                if !p.is_empty() {
                    let i = t.below(p.len());
                    if p[i].is_ascii_alphabetic() {
                        p[i] ^= 0x20;
                    }
                }
            }
            8 => {
                let i = t.below(p.len() + 1);
                let b = *t.pick(&[0x80u8, 0xFF, 0xC3, 0xA9, 0xE2, 0xFF, 0xFE, 0xC0]);
                p.insert(i, b);
            }
            _ => {
                let i = t.below(p.len() + 1);
                p.insert(i, b'\n');
            }
        }
    }
    if p.len() > 40 {
        p.truncate(40);
    }
    p
}

pub fn gen_pairs_case(t: &mut Tape) -> Case {
    let rich = t.chance(2, 3);
    let g = gen_glob(t, rich);
    let n = 1 + t.below(4);
    let paths = (0..n)
        .map(|_| {
            let aimed = !t.chance(1, 5);
            Bs(gen_path_for(t, if aimed { Some(&g) } else { None }, rich))
        })
        .collect();
    Case { globs: vec![g], paths }
}

pub fn gen_set_case(t: &mut Tape) -> Case {
    let rich = t.chance(2, 3);
    // (the set of no globs is a combination of globs too: it matches nothing, and its *_into
    // entry points must still clear the vector they are given)
    let globs = if t.chance(1, 25) { vec![] } else { gen_set(t, rich) };
    let n = 1 + t.below(6);
    let paths = (0..n)
        .map(|_| {
            let aimed = !globs.is_empty() && !t.chance(1, 5);
            let g = if aimed { Some(&globs[t.below(globs.len())]) } else { None };
            Bs(gen_path_for(t, g, rich))
        })
        .collect();
    Case { globs, paths }
}

// ---------------------------------------------------------------------------
// Exhaustive path sweep
// ---------------------------------------------------------------------------

const ALPHABET: [u8; 6] = [b'a', b'b', b'.', b'/', b'-', b'A'];

/// All non-empty strings over the alphabet up to `max_len`, shortest first.
pub fn all_paths(max_len: usize) -> Vec<Vec<u8>> {
    let mut out = vec![];
    let k = ALPHABET.len();
    for n in 1..=max_len {
        let total = k.pow(n as u32);
        for code in 0..total {
            let mut c = code;
            let mut p = vec![0u8; n];
            for i in (0..n).rev() {
                p[i] = ALPHABET[c % k];
                c /= k;
            }
            out.push(p);
        }
    }
    out
}

/// A deterministic tape for enumeration job `idx` (splitmix64 stream keyed by
/// the run seed), so that sweeps use the same generators as the tape runs.
fn tape_for(pc: &PropCtx, sub: &str, idx: u64, len: usize) -> Vec<u32> {
    let key = mix_seed(pc.seed, pc.property, sub, idx);
    let mut x = u64::from_le_bytes(key[..8].try_into().unwrap());
    let mut out = Vec::with_capacity(len);
    for _ in 0..len {
        x = x.wrapping_add(0x9E3779B97F4A7C15);
        let mut z = x;
        z = (z ^ (z >> 30)).wrapping_mul(0xBF58476D1CE4E5B9);
        z = (z ^ (z >> 27)).wrapping_mul(0x94D049BB133111EB);
        z ^= z >> 31;
        out.push((z >> 32) as u32);
    }
    out
}

fn fail_sig(f: &Fail) -> String {
    f.facts.join("|")
}

fn shrink_candidates(c: &Case) -> Vec<Case> {
    let mut out = vec![];
    for i in 0..c.globs.len() {
        if c.globs.len() > 1 {
            let mut d = c.clone();
            d.globs.remove(i);
            out.push(d);
        }
    }
    for i in 0..c.globs.len() {
        let g = &c.globs[i];
        for j in 0..g.toks.len() {
            let mut d = c.clone();
            d.globs[i].toks.remove(j);
            out.push(d);
            if let Tok::Alt(bs) = &g.toks[j] {
                for b in bs {
                    let mut d = c.clone();
                    d.globs[i].toks.splice(j..j + 1, b.iter().cloned());
                    out.push(d);
                }
            }
        }
        let simple = Opts {
            case_insensitive: false,
            literal_separator: false,
            backslash_escape: true,
            empty_alternates: false,
            esc_rec_slash: false,
        };
        for k in 0..4 {
            let mut o = g.opts;
            match k {
                0 => o.case_insensitive = simple.case_insensitive,
                1 => o.literal_separator = simple.literal_separator,
                2 => o.backslash_escape = simple.backslash_escape,
                _ => o.empty_alternates = simple.empty_alternates,
            }
            if o != g.opts {
                let mut d = c.clone();
                d.globs[i].opts = o;
                out.push(d);
            }
        }
    }
    for i in 0..c.paths.len() {
        for j in 0..c.paths[i].len() {
            let mut d = c.clone();
            d.paths[i].0.remove(j);
            out.push(d);
        }
    }
    // one token and one path byte together (a literal and the byte it matched)
    if c.globs.len() == 1 && c.paths.len() == 1 {
        for j in 0..c.globs[0].toks.len() {
            for k in 0..c.paths[0].len() {
                let mut d = c.clone();
                d.globs[0].toks.remove(j);
                d.paths[0].0.remove(k);
                out.push(d);
            }
        }
    }
    out
}

/// Greedy shrinking for failures found by the sweep (the tape runs are
/// shrunk by proptest): keep any simplification that fails the same way.
fn shrink(case: Case, sig: &str) -> Case {
    let mut cur = case;
    for _ in 0..200 {
        let mut progressed = false;
        for cand in shrink_candidates(&cur) {
            if let Verdict::Fail(f) = check(&cand) {
                if fail_sig(&f) == sig {
                    cur = cand;
                    progressed = true;
                    break;
                }
            }
        }
        if !progressed {
            break;
        }
    }
    cur
}

fn sweep(pc: &PropCtx, sub: &'static str, sets: usize, max_len: usize) {
    let t0 = std::time::Instant::now();
    let paths = all_paths(max_len);
    let shapes: Vec<Shape> = paths.iter().map(|p| shape_of(p)).collect();
    let jobs: Vec<u64> = (0..sets as u64).collect();
    pc.par_jobs(&jobs, |idx| {
        let tape = tape_for(pc, sub, *idx, 512);
        let specs = gen_set(&mut Tape::new(&tape), false);
        let flush = |st: &Stats, b: Option<&Built>| {
            let mut cl: Vec<(&str, u64)> = vec![];
            for k in 0..7 {
                for j in 0..5 {
                    cl.push((HIT[k][j], st.hits[k][j]));
                }
            }
            for k in 0..4 {
                cl.push((SILENT_CLASS[k], st.model_silent[k]));
            }
            for k in 2..4 {
                cl.push((IMPL_READING[k][0], st.impl_strict[k]));
                cl.push((IMPL_READING[k][1], st.impl_permissive[k]));
            }
            cl.push(("model_decided", st.model_checked));
            cl.push(("model_says_match", st.model_match));
            cl.push(("matches_some_not_all", st.matched_some_not_all));
            cl.push(("matches_none", st.matched_none));
            cl.push(("matches_all", st.matched_all));
            cl.push(("path_matches>=2_globs", st.multi_hit));
            cl.push(("answer_not_in_ascending_order", st.unsorted));
            cl.push(("path_ends_with_dot", st.shape[SH_DOT]));
            cl.push(("path_empty_basename", st.shape[SH_NOBASE]));
            cl.push(("path_basename_without_ext", st.shape[SH_NOEXT]));
            if let Some(b) = b {
                cl.push(("sets", 1));
                cl.push(("sets_with>=3_strategy_kinds", u64::from(b.distinct_kinds >= 3)));
                cl.push(("globs", b.globs.len() as u64));
                cl.push(("globs_outside_documented_grammar", b.kinds.iter().filter(|k| k.is_none()).count() as u64));
                cl.push(("undocumented_globs_rejected_by_parser", b.rejected_exotic as u64));
                for k in b.kinds.iter().flatten() {
                    match k {
                        Kind::Literal => cl.push(("globs:literal", 1)),
                        Kind::BasenameLiteral => cl.push(("globs:basename_literal", 1)),
                        Kind::Extension => cl.push(("globs:extension", 1)),
                        Kind::Prefix => cl.push(("globs:prefix", 1)),
                        Kind::Suffix => cl.push(("globs:suffix", 1)),
                        Kind::RequiredExt => cl.push(("globs:required_ext", 1)),
                        Kind::Regex => cl.push(("globs:regex", 1)),
                    }
                }
            }
            pc.add_bulk(sub, st.evals, st.nontrivial, &cl);
        };
        let mut st = Stats::default();
        let b = match build(&specs) {
            Ok(b) => b,
            Err(f) => {
                let case = Case { globs: specs.clone(), paths: vec![] };
                let sig = fail_sig(&f);
                let case = shrink(case, &sig);
                let f = match check(&case) {
                    Verdict::Fail(f) => f,
                    _ => f,
                };
                return pc.triage(sub, &case, f);
            }
        };
        if *idx < 2 {
            pc.add_sample(
                sub,
                json!({"set": b.texts, "options": b.specs.iter().map(|g| opts_label(&g.opts)).collect::<Vec<_>>(),
                       "kinds": b.kinds.iter().map(|k| k.map_or("outside-documented-grammar", |k| KIND_NAMES[k as usize])).collect::<Vec<_>>(),
                       "paths": format!("all {} strings over a b . / - A up to length {}", paths.len(), max_len)}),
            );
        }
        for (p, sh) in paths.iter().zip(shapes.iter()) {
            if let Err(f) = check_path(&b, p, sh, &mut st, false) {
                // a listed known finding: count and keep sweeping
                if !pc.strict {
                    if let Some(k) = pc.match_known(&f) {
                        pc.record_known(k);
                        pc.add_evaluations(1);
                        continue;
                    }
                }
                let sig = fail_sig(&f);
                let case = Case { globs: specs.clone(), paths: vec![Bs(p.clone())] };
                // re-derive the failure from the serialisable case alone
                let case = match check(&case) {
                    Verdict::Fail(f2) if fail_sig(&f2) == sig => shrink(case, &sig),
                    _ => case,
                };
                let f = match check(&case) {
                    Verdict::Fail(f2) => f2,
                    other => Fail::new(format!(
                        "UNSTABLE: the sweep failure does not reproduce from its case ({other:?}); original: {}",
                        f.detail
                    )),
                };
                if let Some(fl) = pc.triage(sub, &case, f) {
                    flush(&st, Some(&b));
                    return Some(fl);
                }
            }
        }
        flush(&st, Some(&b));
        None::<Failure>
    });
    pc.add_subcheck_summary(json!({
        "subcheck": sub,
        "engine": "generated glob sets x exhaustive path enumeration",
        "sets": sets,
        "alphabet": "a b . / - A",
        "max_path_len": max_len,
        "paths_per_set": paths.len(),
        "wall_s": t0.elapsed().as_secs_f64(),
    }));
}

// ---------------------------------------------------------------------------
// run
// ---------------------------------------------------------------------------

pub fn run(pc: &PropCtx) {
    pc.rule(
        "globs are token sequences (literal, ?, *, **/ prefix, /** suffix, /**/ infix, class, negated class, one level of {a,b}, escapes; <= 5 tokens) built from shape templates that reach each of the seven set strategies plus a free shape, each with its own four GlobBuilder options; sets have 1-8 globs (sometimes the same glob twice); ~4% of the globs are outside the documented grammar (illegal ** positions, [^a], {}), these are checked by oracle (1) only. sweep: every set is run against ALL non-empty strings over {a,b,.,/,-,A} up to the length bound; pairs / sets_random: paths sampled from the glob's language and mutated (longer, bytes >= 0x80, newline, metacharacters, leading /, trailing . and /). Oracle (1): GlobSet::matches(p) holds exactly the indices [i | globs[i].compile_matcher().is_match(p)], each once (the order of the answer is recorded, not judged), and is_match(p) <=> non-empty (plus the *_candidate/_into entry points in the random runs). Oracle (2): member is_match(p) == GlobModel(tokens, options, p). Oracle (3), alternates: a glob that is one brace group {b1,..,bn} of 2-3 alternate-free branches (with **/ , /** and /**/ in their legal positions) matches a path iff one of the branches compiled alone with the same options does, for ALL paths over the sweep alphabet up to length 5, also through a one-glob set. Non-trivial (sweep, sets_random) = the set contains globs of >= 3 different strategy kinds (kind re-derived from the token shape) and the path matches at least one glob and not all; (pairs) = the glob is not a pure literal, the model decided and at least one path matches. Sweep (set, path) pairs are distinct by construction (two generated sets being equal is not excluded but negligible).",
    );
    pc.assume("GlobModel (harness/src/props/c12.rs) is the reading of the crate-level syntax documentation and the GlobBuilder option docs used as oracle (2); where the documentation is silent or contradicts itself the model abstains (model_silent:* classes): paths starting with / or containing //, non-ASCII paths under ? or a negated class, a path ending at the slash of a /** suffix (e.g. a/** vs a/), a class that would match / while literal_separator is on");
    pc.assume("a brace group means its brace expansion; with empty_alternates off an empty alternate is dropped (groups whose alternates are all empty are outside the model)");

    let sets = pc.tier.pick(1_000, 10_000);
    let max_len = pc.tier.pick(6, 7);
    pc.bound("sweep_sets", json!(sets));
    pc.bound("sweep_max_path_len", json!(max_len));
    pc.bound("max_glob_tokens", json!(MAX_TOKS));
    pc.bound("max_set_size", json!(8));
    sweep(pc, "sweep", sets, max_len);

    let pairs = pc.tier.pick(100_000, 1_500_000);
    pc.run_tape("pairs", pairs, (48, 200), gen_pairs_case, check_pairs);
    let rsets = pc.tier.pick(40_000, 600_000);
    pc.run_tape("sets_random", rsets, (96, 400), gen_set_case, check);
    let alts = pc.tier.pick(1_500, 30_000);
    pc.run_tape("alternates", alts, (48, 200), gen_alt_case, check_alt);
    pc.require_class("alternates:recursive_suffix_in_a_later_branch", alts as u64 / 20);
    pc.require_class("alternates:literal_separator", alts as u64 / 10);

    // generator floors
    for k in KIND_NAMES {
        // a whole-path literal matches exactly one path of the sweep
        let floor = if k == "literal" { pc.tier.pick(100, 1_000) } else { pc.tier.pick(2_000, 50_000) };
        pc.require_class(&format!("sweep:hit:{k}"), floor);
        pc.require_class(&format!("sweep:globs:{k}"), pc.tier.pick(40, 1_000));
    }
    pc.require_class("sweep:sets_with>=3_strategy_kinds", pc.tier.pick(100, 2_500));
    pc.require_class("sweep:matches_some_not_all", pc.tier.pick(500_000, 10_000_000));
    pc.require_class("sweep:model_decided", pc.tier.pick(20_000_000, 400_000_000));
    pc.require_class("sweep:model_says_match", pc.tier.pick(500_000, 10_000_000));
    pc.require_class("sweep:hit:basename_literal:path_ends_with_dot", pc.tier.pick(50, 1_000));
    pc.require_class("sweep:hit:extension:path_ends_with_dot", pc.tier.pick(50, 1_000));
    pc.require_class("sweep:hit:required_ext:path_ends_with_dot", pc.tier.pick(50, 1_000));
    if pc.tier == crate::runner::Tier::Thorough {
        pc.run_fuzz("C12:pairs", 80_000, 4000, &|v| replay(pc, "pairs", v).unwrap_or(Verdict::Reject("unreadable")));
        pc.run_fuzz("C12:sets_random", 80_000, 6000, &|v| replay(pc, "sets_random", v).unwrap_or(Verdict::Reject("unreadable")));
    }
    pc.require_class("pairs:model_says_match", pc.tier.pick(10_000, 200_000));
    pc.require_class("pairs:model_says_no_match", pc.tier.pick(10_000, 200_000));
    pc.require_class("pairs:path_non_utf8", pc.tier.pick(1_000, 20_000));
    pc.require_class("pairs:path_has_newline", pc.tier.pick(1_000, 20_000));
    pc.require_class("sets_random:path_non_utf8", pc.tier.pick(1_000, 20_000));
    pc.require_class("sets_random:matches_some_not_all", pc.tier.pick(5_000, 100_000));
    for c in ["tok_alternates", "tok_class", "tok_negated_class", "tok_escape", "tok_recursive_prefix", "tok_recursive_suffix", "tok_recursive_infix", "opt_case_insensitive", "opt_literal_separator", "opt_no_backslash_escape", "opt_empty_alternates"] {
        pc.require_class(&format!("pairs:{c}"), pc.tier.pick(1_000, 20_000));
    }
}
