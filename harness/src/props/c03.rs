//! C03 — results follow the grep model: order, uniqueness, context windows,
//! separators, numbering, offsets, byte count.
//!
//! The pattern is fixed ("the line contains `x`"), so the match bitmap *is*
//! the input and the check isolates the searcher's context machine.

use grep_searcher::Searcher;
use serde::{Deserialize, Serialize};
use serde_json::json;

use crate::bs::Bs;
use crate::mat::{build_x, XAny, XKind, XKINDS};
use crate::model;
use crate::runner::{Fail, Info, PropCtx, Tier, Verdict};
use crate::sea::{self, Event, SCfg, Strat, Term};
use crate::tape::Tape;

#[derive(Clone, Debug, Serialize, Deserialize)]
pub struct Case {
    /// line contents without terminators
    pub lines: Vec<Bs>,
    /// whether the last line carries its terminator
    pub final_term: bool,
    pub cfg: SCfg,
    pub strat: Strat,
    pub matcher: XKind,
    /// reader strategies only: read number `j` answers `ErrorKind::Interrupted` once. A search that then
    /// still returns Ok claims to have run to completion, and owes everything the property says.
    #[serde(default)]
    pub interrupt_at: Option<usize>,
}

pub fn input_of(lines: &[Bs], final_term: bool, term: Term) -> Vec<u8> {
    let mut v = vec![];
    for (i, l) in lines.iter().enumerate() {
        v.extend_from_slice(&l.0);
        if i + 1 < lines.len() || final_term {
            v.extend_from_slice(term.bytes());
        }
    }
    v
}

pub struct Outcome {
    pub info: Info,
}

/// The core comparison, shared by enumeration, random cases and replay.
pub fn check_core(
    searcher: &mut Searcher,
    matcher: &XAny,
    cfg: &SCfg,
    strat: &Strat,
    input: &[u8],
    read_fault: Option<sea::ReadFault>,
) -> Result<Info, Fail> {
    let out = match matcher {
        XAny::Regex(m) => sea::run_with(searcher, m, strat, input, None, read_fault),
        XAny::X(m) => sea::run_with(searcher, m, strat, input, None, read_fault),
    };
    if read_fault.is_some() && out.result.is_err() {
        // the interruption surfaced as the search's error: not a completed search (what was delivered
        // before it is C16's subject)
        let mut info = Info::new(false);
        info.class("interrupted_read_surfaced_as_error");
        return Ok(info);
    }
    let lines = model::split_lines(input, cfg.term.byte());
    let matches: Vec<bool> =
        lines.iter().map(|l| input[l.start..l.end].contains(&b'x')).collect();
    let success: Vec<bool> = matches.iter().map(|m| *m != cfg.invert).collect();
    let exp = model::expected(input, cfg, &lines, &success, false);
    let ctx = || {
        format!(
            "input={:?} cfg={:?} strategy={}\n expected: {}\n observed: {}",
            Bs(input.to_vec()),
            cfg,
            strat.label(),
            sea::show_events(&exp.events),
            sea::show_events(&out.events)
        )
    };
    let mut facts = vec![];
    if cfg.invert && cfg.stop_on_nonmatch {
        facts.push("invert+stop_on_nonmatch".to_string());
    }
    let fail = |msg: String| {
        let mut f = Fail::new(format!("{msg}\n {}", ctx()));
        f.facts = facts.clone();
        f
    };
    if let Err(e) = &out.result {
        return Err(fail(format!("search returned an error: {e}")));
    }
    if !out.after_fault.is_empty() {
        return Err(fail("finish signalled more than once".into()));
    }
    if out.buffer_mismatch {
        return Err(fail("SinkMatch::buffer()[bytes_range_in_buffer()] != bytes()".into()));
    }
    let (body, fin) = model::split_finish(&out.events);
    if let Err(e) = model::compare(&exp, body) {
        return Err(fail(e));
    }
    match fin {
        Some(Event::Finish { byte_count, binary_offset }) => {
            if let Some(n) = exp.byte_count {
                if *byte_count != n {
                    return Err(fail(format!(
                        "completed search reports {byte_count} bytes searched, input has {n}"
                    ))
                    .fact("byte_count"));
                }
            }
            if binary_offset.is_some() {
                return Err(fail("binary offset reported with detection off".into()));
            }
        }
        _ => return Err(fail("no finish event".into())),
    }
    // ordering / uniqueness invariants stated directly (redundant with the
    // model comparison, kept as an independent formulation)
    let mut last_end: u64 = 0;
    for e in body {
        if let Event::Match { offset, bytes, .. } | Event::Context { offset, bytes, .. } = e {
            if *offset < last_end {
                return Err(fail("delivered lines are not in strictly increasing, non-overlapping order".into()));
            }
            last_end = offset + bytes.len() as u64;
        }
    }
    // non-triviality and classes
    let mut info = Info::new(false);
    let (a, b) = if cfg.passthru { (0, 0) } else { (cfg.after, cfg.before) };
    let succ_idx: Vec<usize> = success.iter().enumerate().filter(|(_, s)| **s).map(|(i, _)| i).collect();
    if a + b > 0 {
        for w in succ_idx.windows(2) {
            let d = w[1] - w[0];
            if d > 1 && d <= a + b + 2 {
                info.nontrivial = true;
                if d == a + b + 2 {
                    info.class("gap_of_one_between_windows");
                } else if d == a + b + 1 {
                    info.class("windows_touch");
                } else {
                    info.class("windows_overlap");
                }
            }
        }
    } else if cfg.passthru {
        info.nontrivial = !succ_idx.is_empty() && succ_idx.len() < success.len();
    }
    info.class_if(read_fault.is_some(), "interrupt_scheduled_and_search_completed");
    info.class_if(cfg.invert, "invert");
    info.class_if(cfg.warm.is_some(), "searcher_reused_after_another_input");
    info.class_if(
        {
            let mut run = 0usize;
            let mut best = 0usize;
            for l in &lines {
                if l.end - l.start <= cfg.term.bytes().len() && !success[lines.iter().position(|x| x.start == l.start).unwrap_or(0)] {
                    run += 1;
                    best = best.max(run);
                } else {
                    run = 0;
                }
            }
            best >= 256
        },
        "run_of_256_or_more_skipped_empty_lines",
    );
    info.class_if(cfg.passthru, "passthru");
    info.class_if(exp.stopped_at.is_some(), "stopped_on_nonmatch");
    info.class_if(out.data_reads >= 3, "reader_refilled>=2");
    info.class_if(lines.last().map_or(false, |l| !l.terminated), "unterminated_last_line");
    info.class_if(body.iter().any(|e| matches!(e, Event::Break)), "has_break");
    Ok(info)
}

pub fn check(case: &Case) -> Verdict {
    let input = input_of(&case.lines, case.final_term, case.cfg.term);
    let matcher = build_x(case.matcher, case.cfg.term);
    let mut searcher = sea::build_searcher(&case.cfg, &case.strat);
    if let Some(w) = &case.cfg.warm {
        // an earlier search on the same searcher
        let _ = match &matcher {
            XAny::Regex(m) => sea::run_with(&mut searcher, m, &case.strat, &w.0, None, None),
            XAny::X(m) => sea::run_with(&mut searcher, m, &case.strat, &w.0, None, None),
        };
    }
    let rf = match (&case.strat, case.interrupt_at) {
        (Strat::Reader { .. }, Some(j)) => Some(sea::ReadFault::Interrupted(j)),
        _ => None,
    };
    match check_core(&mut searcher, &matcher, &case.cfg, &case.strat, &input, rf) {
        Ok(info) => Verdict::Pass(info),
        Err(f) => Verdict::Fail(f),
    }
}

const ALPHA5: [&[u8]; 5] = [b"", b"x", b"o", b"yo", b"oxo"];
const ALPHA2: [&[u8]; 2] = [b"o", b"x"];

fn strategies_small() -> Vec<Strat> {
    vec![
        Strat::Slice,
        Strat::Reader { chunks: vec![1], capacity: Some(1) },
        Strat::Reader { chunks: vec![3], capacity: Some(2) },
        Strat::Reader { chunks: vec![5, 1], capacity: Some(7) },
        Strat::Reader { chunks: vec![], capacity: None },
    ]
}

#[derive(Clone, Debug)]
struct Job {
    cfg: SCfg,
    matcher: XKind,
    strat: Strat,
}

fn jobs(max_ctx: usize) -> Vec<Job> {
    let mut out = vec![];
    for term in [Term::Lf, Term::Crlf, Term::Nul] {
        for invert in [false, true] {
            for stop in [false, true] {
                for line_number in [true, false] {
                    let mut ctxs = vec![];
                    for a in 0..=max_ctx {
                        for b in 0..=max_ctx {
                            ctxs.push((a, b, false));
                        }
                    }
                    ctxs.push((0, 0, true));
                    for (after, before, passthru) in ctxs {
                        for matcher in XKINDS {
                            for strat in strategies_small() {
                                out.push(Job {
                                    cfg: SCfg {
                                        term,
                                        invert,
                                        before,
                                        after,
                                        passthru,
                                        line_number,
                                        stop_on_nonmatch: stop,
                                        ..SCfg::default()
                                    },
                                    matcher,
                                    strat,
                                });
                            }
                        }
                    }
                }
            }
        }
    }
    out
}

/// Enumerate all inputs of up to `max_n` lines over `alpha` (× final
/// terminator present/absent) for every job.
fn enumerate(pc: &PropCtx, sub: &'static str, alpha: &[&[u8]], max_n: usize, max_ctx: usize) {
    let jobs = jobs(max_ctx);
    let k = alpha.len();
    pc.par_jobs(&jobs, |job| {
        let matcher = build_x(job.matcher, job.cfg.term);
        let mut searcher = sea::build_searcher(&job.cfg, &job.strat);
        let mut evals = 0u64;
        let mut nontrivial = 0u64;
        let mut classes: std::collections::BTreeMap<&'static str, u64> = Default::default();
        let mut sample_done = false;
        for n in 0..=max_n {
            let total = k.pow(n as u32);
            for code in 0..total {
                let mut lines: Vec<Bs> = Vec::with_capacity(n);
                let mut c = code;
                for _ in 0..n {
                    lines.push(Bs(alpha[c % k].to_vec()));
                    c /= k;
                }
                for final_term in [true, false] {
                    if n == 0 && !final_term {
                        continue;
                    }
                    let input = input_of(&lines, final_term, job.cfg.term);
                    match check_core(&mut searcher, &matcher, &job.cfg, &job.strat, &input, None) {
                        Ok(info) => {
                            evals += 1;
                            if info.nontrivial {
                                nontrivial += 1;
                                if !sample_done && n >= 4 {
                                    sample_done = true;
                                    pc.add_sample(
                                        sub,
                                        json!({"lines": lines, "final_term": final_term, "cfg": job.cfg, "strategy": job.strat.label(), "matcher": job.matcher}),
                                    );
                                }
                            }
                            for c in info.classes {
                                *classes.entry(c).or_insert(0) += 1;
                            }
                        }
                        Err(f) => {
                            let case = Case {
                                lines: lines.clone(),
                                final_term,
                                cfg: job.cfg.clone(),
                                strat: job.strat.clone(),
                                matcher: job.matcher,
                                interrupt_at: None,
                            };
                            if let Some(fl) = pc.triage(sub, &case, f) {
                                let cl: Vec<(&str, u64)> = classes.iter().map(|(k, v)| (*k, *v)).collect();
                                pc.add_bulk(sub, evals, nontrivial, &cl);
                                return Some(fl);
                            }
                        }
                    }
                }
            }
        }
        let cl: Vec<(&str, u64)> = classes.iter().map(|(k, v)| (*k, *v)).collect();
        pc.add_bulk(sub, evals, nontrivial, &cl);
        None
    });
    pc.add_subcheck_summary(json!({
        "subcheck": sub,
        "engine": "exhaustive enumeration",
        "alphabet": alpha.iter().map(|a| String::from_utf8_lossy(a).to_string()).collect::<Vec<_>>(),
        "max_lines": max_n,
        "max_context": max_ctx,
        "configurations": jobs.len(),
        "inputs_per_configuration": (0..=max_n).map(|n| k.pow(n as u32) * 2).sum::<usize>() - 1,
    }));
}

pub fn gen_chunks(t: &mut Tape) -> Vec<usize> {
    let n = t.below(5);
    (0..n).map(|_| 1 + t.small(16)).collect()
}

pub fn gen_strat(t: &mut Tape) -> Strat {
    match t.weighted(&[2, 5, 1, 1, 1]) {
        0 => Strat::Slice,
        1 => Strat::Reader {
            chunks: gen_chunks(t),
            capacity: if t.chance(1, 6) { None } else { Some(t.small(64)) },
        },
        2 => Strat::PathNoMmap,
        3 => Strat::PathMmap,
        _ => Strat::Reader { chunks: vec![1], capacity: Some(1) },
    }
}

pub fn gen_case(t: &mut Tape) -> Case {
    let term = *t.pick(&[Term::Lf, Term::Crlf, Term::Nul]);
    let passthru = t.chance(1, 8);
    let big = t.chance(1, 6);
    let cfg = SCfg {
        term,
        invert: t.chance(1, 3),
        before: if big { t.below(13) } else { t.small(4) },
        after: if big { t.below(13) } else { t.small(4) },
        passthru,
        line_number: !t.chance(1, 5),
        stop_on_nonmatch: t.chance(1, 6),
        warm: crate::gen::gen_warm(t, term),
        ..SCfg::default()
    };
    let n = if t.chance(1, 5) { t.below(201) } else { t.below(25) };
    let density = 1 + t.below(6) as u32; // matches per 8 lines
    let mut lines = Vec::with_capacity(n);
    for _ in 0..n {
        let is_match = t.chance(density, 8);
        let len = match t.weighted(&[3, 6, 2, 1]) {
            0 => 0,
            1 => 1 + t.below(6),
            2 => 1 + t.below(40),
            _ => 1 + t.below(200),
        };
        let mut l: Vec<u8> = (0..len)
            .map(|_| *t.pick(&[b'o', b'o', b'y', b' ', b'\r', b'p']))
            .collect();
        if is_match {
            if l.is_empty() {
                l.push(b'x');
            } else {
                let p = t.below(l.len());
                l[p] = b'x';
            }
        }
        if term != Term::Lf && t.chance(1, 3) {
            // the other plausible terminators are ordinary bytes here
            let k = 1 + t.below(4);
            for _ in 0..k {
                let p = t.below(l.len() + 1);
                l.insert(p, if term == Term::Nul { b'\n' } else { 0 });
            }
        }
        lines.push(Bs(l));
    }
    if t.chance(1, 10) {
        // a long run of empty lines between two lines: whatever is skipped there must still be
        // counted (the line counter works on blocks of bytes)
        let at = t.below(lines.len() + 1);
        let run = 250 + t.below(600);
        for _ in 0..run {
            lines.insert(at, Bs(vec![]));
        }
    }
    let strat = gen_strat(t);
    let interrupt_at = if matches!(strat, Strat::Reader { .. }) && t.chance(1, 6) { Some(t.below(12)) } else { None };
    Case {
        lines,
        final_term: !t.chance(1, 3),
        cfg,
        strat,
        matcher: *t.pick(&XKINDS),
        interrupt_at,
    }
}

/// CLI subcheck: `rg -n -b -A a -B b [...] x f` — the printed records must be
/// exactly the LineModel's events (kind, line number, byte offset, bytes) with
/// `--` exactly where the model has a break.
pub fn check_cli(case: &Case) -> Verdict {
    use crate::cli::{Rg, TempDir};
    let term = case.cfg.term;
    let input = input_of(&case.lines, case.final_term, term);
    let dir = TempDir::fast("c03");
    dir.write("f", &input);
    let mut rg = Rg::new(&dir.path).args(["--no-config", "--color", "never", "-a", "-j1", "-n", "-b", "--no-heading", "--no-filename"]);
    match case.strat {
        Strat::Slice | Strat::PathMmap => rg = rg.arg("--mmap"),
        _ => rg = rg.arg("--no-mmap"),
    }
    if case.cfg.invert {
        rg = rg.arg("-v");
    }
    if case.cfg.passthru {
        rg = rg.arg("--passthru");
    } else {
        rg = rg.arg(format!("-A{}", case.cfg.after)).arg(format!("-B{}", case.cfg.before));
    }
    if case.cfg.stop_on_nonmatch {
        rg = rg.arg("--stop-on-nonmatch");
    }
    match term {
        Term::Crlf => rg = rg.arg("--crlf"),
        Term::Nul => rg = rg.arg("--null-data"),
        Term::Lf => {}
    }
    let stdin = matches!(case.strat, Strat::Reader { .. });
    rg = rg.arg("-e").arg("x");
    rg = if stdin { rg.arg("-").stdin(input.clone()) } else { rg.arg("f") };
    let cmd = rg.cmdline();
    let out = rg.run();
    if out.timed_out {
        return Verdict::Reject("timeout (inconclusive)");
    }
    let lines = model::split_lines(&input, term.byte());
    let success: Vec<bool> = lines.iter().map(|l| input[l.start..l.end].contains(&b'x') != case.cfg.invert).collect();
    let cfg = SCfg { line_number: true, ..case.cfg.clone() };
    let exp = model::expected(&input, &cfg, &lines, &success, false);
    // render the expected stdout
    let tb = term.byte();
    let mut want: Vec<u8> = vec![];
    for e in &exp.events {
        match e {
            Event::Break => {
                want.extend_from_slice(b"--");
                want.extend_from_slice(term.bytes());
            }
            Event::Match { line, offset, bytes } | Event::Context { line, offset, bytes, .. } => {
                let sep = if matches!(e, Event::Match { .. }) { b':' } else { b'-' };
                want.extend_from_slice(line.unwrap().to_string().as_bytes());
                want.push(sep);
                want.extend_from_slice(offset.to_string().as_bytes());
                want.push(sep);
                want.extend_from_slice(bytes);
                if bytes.last() != Some(&tb) {
                    want.extend_from_slice(term.bytes());
                }
            }
            _ => {}
        }
    }
    if out.stdout != want {
        return Verdict::Fail(Fail::new(format!(
            "rg's stdout differs from the grep model\n cmd: {cmd}{}\n input={:?}\n expected stdout: {:?}\n observed stdout: {:?}\n stderr: {:?} status: {:?}",
            if stdin { " < f" } else { "" },
            Bs(input.clone()),
            Bs(want),
            Bs(out.stdout.clone()),
            Bs(out.stderr.clone()),
            out.status
        )));
    }
    let any = exp.events.iter().any(|e| matches!(e, Event::Match { .. }));
    if out.status != Some(if any { 0 } else { 1 }) {
        return Verdict::Fail(Fail::new(format!("exit status {:?} with {} matching lines\n cmd: {cmd}", out.status, if any { "some" } else { "no" })));
    }
    let mut info = Info::new(exp.events.iter().any(|e| matches!(e, Event::Break)) && any);
    info.class_if(case.cfg.invert, "invert");
    info.class_if(case.cfg.passthru, "passthru");
    info.class_if(case.cfg.stop_on_nonmatch, "stop_on_nonmatch");
    info.class_if(term == Term::Crlf, "crlf");
    info.class_if(term == Term::Nul, "null_data");
    info.class_if(stdin, "stdin");
    Verdict::Pass(info)
}

pub fn run(pc: &PropCtx) {
    pc.rule(
        "exhaustive: every input of up to N lines over a small line alphabet (x = matching) x final terminator x full flag product x 4 matcher kinds x 5 strategies, compared with the LineModel; random: up to 200 lines, contexts up to 12, random fragmentation/capacity/file strategies. Non-trivial = (A+B>0 and two reported lines at distance 1<d<=A+B+2, i.e. context windows overlap, touch or leave a gap of one) or (passthru with both reported and unreported lines); enumerated cases are distinct by construction, random ones by hash",
    );
    pc.assume("the LineModel in harness/src/model.rs is the reading of 'grep model' used as oracle");
    let (n5, n2) = match pc.tier {
        Tier::Quick => (5, 9),
        Tier::Thorough => (7, 11),
    };
    enumerate(pc, "enum_alpha5", &ALPHA5, n5, 3);
    enumerate(pc, "enum_bitmap", &ALPHA2, n2, 3);
    pc.set_exhaustive(false);
    pc.bound("enum_alpha5_max_lines", json!(n5));
    pc.bound("enum_bitmap_max_lines", json!(n2));
    pc.bound("enum_context_max", json!(3));
    let cases = pc.tier.pick(6_000, 120_000);
    pc.run_tape("random", cases, (64, 1200), gen_case, check);
    // the same model against the real binary's stdout (flag mapping included)
    pc.set_shrink_iters(300);
    let cli_cases = pc.tier.pick(3_000, 40_000);
    pc.run_tape(
        "cli",
        cli_cases,
        (64, 1200),
        |t| {
            let mut c = gen_case(t);
            c.lines.truncate(40);
            c
        },
        check_cli,
    );
    if pc.tier == Tier::Thorough {
        pc.run_fuzz("C03:random", 300_000, 5000, &|v| replay(pc, "random", v).unwrap_or(Verdict::Reject("unreadable")));
    }
}

pub fn replay(pc: &PropCtx, sub: &str, case: &serde_json::Value) -> Result<Verdict, String> {
    let _ = pc;
    let c: Case = serde_json::from_value(case.clone()).map_err(|e| e.to_string())?;
    if sub == "cli" {
        return Ok(check_cli(&c));
    }
    Ok(check(&c))
}
