//! C10 — all reporting modes agree with each other (CLI level, metamorphic).

use std::collections::BTreeMap;

use serde::{Deserialize, Serialize};
use serde_json::Value;

use crate::bs::Bs;
use crate::cli::{Out, Rg, TempDir};
use crate::gen::{self, ReOpts};
use crate::mat::{CaseMode, PatCfg};
use crate::model;
use crate::oracle;
use crate::runner::{Fail, Info, PropCtx, Verdict};
use crate::sea::Term;
use crate::tape::Tape;

#[derive(Clone, Debug, Serialize, Deserialize)]
pub struct Case {
    pub pattern: String,
    pub files: Vec<Bs>,
    pub ignore_case: bool,
    pub word: bool,
    pub whole_line: bool,
    pub invert: bool,
    pub multiline: bool,
    pub crlf: bool,
    pub max_count: Option<u32>,
    pub threads: u32,
}

const EMPTY_MATCHERS: &[&str] = &["x*", "$", "^", "\\b", "", "a|", "a*", "(?:ab)?", "^$", "\\B", "a?$", "\\s*$"];

pub fn gen_case(t: &mut Tape) -> Case {
    let multiline = t.chance(1, 6);
    let crlf = t.chance(1, 8);
    let term = if crlf { Term::Crlf } else { Term::Lf };
    let pattern = if t.chance(1, 3) {
        t.pick(EMPTY_MATCHERS).to_string()
    } else if multiline {
        super::c13::gen_pat(t).patterns[0].clone()
    } else {
        let mut o = ReOpts::line_mode();
        o.allow_cr_nul = false;
        o.allow_bytes = false;
        gen::gen_re(t, &o).render()
    };
    let hirs: Vec<_> = gen::parse_hir(&pattern, false, true, crlf, false).into_iter().collect();
    let nfiles = 1 + t.below(5);
    let mut files = vec![];
    for _ in 0..nfiles {
        let mut f = if multiline { super::c13::gen_ml_haystack(t, &hirs, term) } else { gen::gen_haystack(t, &hirs, term, 8) };
        f.retain(|b| *b != 0); // keep the files text: binary detection is C14's subject
        files.push(Bs(f));
    }
    let (word, whole_line) = match t.weighted(&[6, 1, 1]) {
        0 => (false, false),
        1 => (true, false),
        _ => (false, true),
    };
    Case {
        pattern,
        files,
        ignore_case: t.chance(1, 6),
        word,
        whole_line,
        invert: t.chance(1, 5),
        multiline,
        crlf,
        max_count: if !multiline && t.chance(1, 6) { Some(1 + t.below(3) as u32) } else { None },
        threads: if t.chance(1, 4) { 4 } else { 1 },
    }
}

fn base(case: &Case, dir: &TempDir) -> Rg {
    let mut rg = Rg::new(&dir.path).args(["--no-config", "--color", "never", "--sort", "path", "-a"]);
    rg = rg.arg(format!("-j{}", case.threads));
    if case.ignore_case {
        rg = rg.arg("-i");
    }
    if case.word {
        rg = rg.arg("-w");
    }
    if case.whole_line {
        rg = rg.arg("-x");
    }
    if case.invert {
        rg = rg.arg("-v");
    }
    if case.multiline {
        rg = rg.arg("-U");
    }
    if case.crlf {
        rg = rg.arg("--crlf");
    }
    if let Some(m) = case.max_count {
        rg = rg.arg("-m").arg(m.to_string());
    }
    rg
}

fn fname(i: usize) -> String {
    format!("f{}", i + 1)
}

/// Parse "fK:<rest>" records (one per output line) into per-file counts.
fn per_file_prefixed(stdout: &[u8], n: usize) -> Option<Vec<Vec<Vec<u8>>>> {
    let mut out = vec![vec![]; n];
    for rec in stdout.split(|b| *b == b'\n') {
        if rec.is_empty() {
            continue;
        }
        let colon = rec.iter().position(|b| *b == b':')?;
        let name = std::str::from_utf8(&rec[..colon]).ok()?;
        let idx: usize = name.strip_prefix('f')?.parse().ok()?;
        if idx == 0 || idx > n {
            return None;
        }
        out[idx - 1].push(rec[colon + 1..].to_vec());
    }
    Some(out)
}

fn file_list(stdout: &[u8], n: usize) -> Option<Vec<bool>> {
    let mut out = vec![false; n];
    for rec in stdout.split(|b| *b == b'\n') {
        if rec.is_empty() {
            continue;
        }
        // with --crlf rg terminates its own records with CRLF as well
        let rec = rec.strip_suffix(b"\r").unwrap_or(rec);
        let name = std::str::from_utf8(rec).ok()?;
        let idx: usize = name.strip_prefix('f')?.parse().ok()?;
        if idx == 0 || idx > n || out[idx - 1] {
            return None;
        }
        out[idx - 1] = true;
    }
    Some(out)
}

fn stat_line(stdout: &[u8], suffix: &str) -> Option<u64> {
    let s = String::from_utf8_lossy(stdout);
    for l in s.lines() {
        if let Some(num) = l.strip_suffix(suffix) {
            if let Ok(n) = num.trim().parse::<u64>() {
                return Some(n);
            }
        }
    }
    None
}

pub fn check(case: &Case) -> Verdict {
    let n = case.files.len();
    if case.files.iter().any(|f| gen::starts_with_bom(&f.0)) {
        return Verdict::Reject("a file starts with a byte-order mark (transcoding is C17's subject)");
    }
    let dir = TempDir::fast("c10");
    for (i, f) in case.files.iter().enumerate() {
        dir.write(&fname(i), &f.0);
    }
    let run = |extra: &[&str]| -> (String, Out) {
        let rg = base(case, &dir).args(extra.iter().copied()).arg("-e").arg(&case.pattern);
        let cmd = rg.cmdline();
        (cmd, rg.run())
    };
    let (cmd_std, std_out) = run(&["-n", "-H", "--no-heading"]);
    if std_out.timed_out {
        return Verdict::Reject("timeout (inconclusive)");
    }
    if std_out.status == Some(2) {
        // invalid pattern etc.: every mode must fail the same way; nothing to compare
        let (_, c) = run(&["-c"]);
        if c.status != Some(2) {
            return Verdict::Fail(Fail::new(format!("standard mode exits 2 but --count exits {:?}\n cmd: {cmd_std}\n stderr: {}", c.status, String::from_utf8_lossy(&std_out.stderr))));
        }
        return Verdict::Reject("rg rejected the arguments");
    }
    let (_, cnt) = run(&["-c", "-H", "--include-zero"]);
    let (_, cm) = run(&["--count-matches", "-H", "--include-zero"]);
    // documented normalisation: `-o --count` is `--count-matches` (whatever else is given)
    let (_, co) = run(&["-c", "-o", "-H", "--include-zero"]);
    let (_, only) = run(&["-o", "-n", "-H", "--no-heading"]);
    let (_, lst) = run(&["-l"]);
    let (_, wo) = run(&["--files-without-match"]);
    let (_, quiet) = run(&["-q"]);
    let (_, json) = run(&["--json"]);
    let (_, stats) = run(&["--stats", "-q"]);
    for o in [&cnt, &cm, &co, &only, &lst, &wo, &quiet, &json, &stats] {
        if o.timed_out {
            return Verdict::Reject("timeout (inconclusive)");
        }
    }
    let describe = |msg: String| {
        Fail::new(format!(
            "{msg}\n base command: {cmd_std}\n files: {:?}\n standard: {:?}\n --count: {:?}\n --count-matches: {:?}\n -o: {:?}\n -l: {:?}\n --files-without-match: {:?}\n --stats -q: {:?}\n statuses: std={:?} count={:?} cm={:?} o={:?} l={:?} wo={:?} q={:?} json={:?}",
            case.files,
            Bs(std_out.stdout.clone()),
            Bs(cnt.stdout.clone()),
            Bs(cm.stdout.clone()),
            Bs(only.stdout.clone()),
            Bs(lst.stdout.clone()),
            Bs(wo.stdout.clone()),
            Bs(stats.stdout.clone()),
            std_out.status, cnt.status, cm.status, only.status, lst.status, wo.status, quiet.status, json.status
        ))
    };
    let parse_fail = |what: &str| Verdict::Fail(describe(format!("cannot parse the output of {what}")));
    // per-file numbers
    let Some(std_recs) = per_file_prefixed(&std_out.stdout, n) else { return parse_fail("standard mode") };
    let Some(cnt_recs) = per_file_prefixed(&cnt.stdout, n) else { return parse_fail("--count") };
    let Some(cm_recs) = per_file_prefixed(&cm.stdout, n) else { return parse_fail("--count-matches") };
    let Some(co_recs) = per_file_prefixed(&co.stdout, n) else { return parse_fail("--count --only-matching") };
    let Some(only_recs) = per_file_prefixed(&only.stdout, n) else { return parse_fail("-o") };
    let Some(listed) = file_list(&lst.stdout, n) else { return parse_fail("-l") };
    let Some(without) = file_list(&wo.stdout, n) else { return parse_fail("--files-without-match") };
    let num = |recs: &Vec<Vec<u8>>| -> Option<u64> {
        if recs.len() != 1 {
            return None;
        }
        std::str::from_utf8(&recs[0]).ok()?.trim().parse().ok()
    };
    // JSON
    let mut j_lines = vec![0u64; n];
    let mut j_msgs = vec![0u64; n];
    let mut j_sub = vec![0u64; n];
    let mut j_no_sub = vec![false; n];
    let mut j_segs = vec![0u64; n];
    let mut j_zero_seg = vec![0u64; n];
    let mut j_seg_ambiguous = vec![false; n];
    let mut j_summary: Option<Value> = None;
    for l in json.stdout.split(|b| *b == b'\n') {
        if l.is_empty() {
            continue;
        }
        let Ok(v) = serde_json::from_slice::<Value>(l) else { return parse_fail("--json") };
        match v["type"].as_str() {
            Some("match") => {
                let Some(p) = v["data"]["path"]["text"].as_str() else { return parse_fail("--json path") };
                let Some(idx) = p.strip_prefix('f').and_then(|x| x.parse::<usize>().ok()) else { return parse_fail("--json path") };
                if idx == 0 || idx > n {
                    return parse_fail("--json path");
                }
                let i = idx - 1;
                j_msgs[i] += 1;
                let lines_bytes: Vec<u8> = if let Some(t) = v["data"]["lines"]["text"].as_str() {
                    t.as_bytes().to_vec()
                } else if let Some(b) = v["data"]["lines"]["bytes"].as_str() {
                    match b64(b) {
                        Some(x) => x,
                        None => return parse_fail("--json base64"),
                    }
                } else {
                    return parse_fail("--json lines");
                };
                let mut nl = lines_bytes.iter().filter(|b| **b == b'\n').count() as u64;
                if !lines_bytes.is_empty() && *lines_bytes.last().unwrap() != b'\n' {
                    nl += 1;
                }
                j_lines[i] += nl;
                let subs = v["data"]["submatches"].as_array().map(|a| a.len()).unwrap_or(0) as u64;
                j_sub[i] += subs;
                for sm in v["data"]["submatches"].as_array().map(|a| a.as_slice()).unwrap_or(&[]) {
                    let t: Vec<u8> = if let Some(t) = sm["match"]["text"].as_str() {
                        t.as_bytes().to_vec()
                    } else if let Some(b) = sm["match"]["bytes"].as_str() {
                        match b64(b) {
                            Some(x) => x,
                            None => return parse_fail("--json base64"),
                        }
                    } else {
                        return parse_fail("--json submatch");
                    };
                    // what the multi-line -o printer writes for this match: one output line per
                    // non-empty piece of the match between line terminators
                    let pieces: Vec<&[u8]> = t.split(|b| *b == b'\n').collect();
                    let mut segs = 0;
                    for (k, piece) in pieces.iter().enumerate() {
                        let last = k + 1 == pieces.len();
                        let mut p: &[u8] = piece;
                        if case.crlf && p.last() == Some(&b'\r') {
                            if last {
                                // whether this CR belongs to a CRLF terminator depends on the next byte of the file
                                j_seg_ambiguous[i] = true;
                            } else {
                                p = &p[..p.len() - 1];
                            }
                        }
                        if !p.is_empty() {
                            segs += 1;
                        }
                    }
                    j_segs[i] += segs;
                    if segs == 0 {
                        j_zero_seg[i] += 1;
                    }
                }
                if subs == 0 {
                    j_no_sub[i] = true;
                }
            }
            Some("summary") => j_summary = Some(v.clone()),
            _ => {}
        }
    }
    // shape of the known finding, per file
    let opat = PatCfg {
        patterns: vec![case.pattern.clone()],
        case: if case.ignore_case { CaseMode::Insensitive } else { CaseMode::Sensitive },
        word: case.word,
        whole_line: case.whole_line,
        fixed: false,
        term: if case.crlf { Term::Crlf } else { Term::Lf },
        unicode: true,
        multiline: case.multiline,
        dotall: false,
        ban_nul: false,
    };
    let orc = oracle::build(&opat).ok();
    let trailing_empty: Vec<bool> = case
        .files
        .iter()
        .map(|f| {
            let lines = model::split_lines(&f.0, b'\n');
            match (lines.last(), &orc) {
                (Some(l), Some(o)) if !l.terminated => {
                    let hay: &[u8] = if case.multiline { &f.0 } else { model::content(&f.0, l, case.crlf) };
                    o.re.find_iter(hay).any(|m| m.start() == m.end() && m.end() == hay.len())
                }
                _ => false,
            }
        })
        .collect();
    let mut problems: Vec<(usize, String)> = vec![];
    let mut zero_seg_notes: Vec<String> = vec![];
    // does rg take its multi-line printing path? (-U and a matcher that may match the terminator)
    let effective_ml = case.multiline
        && opat.build().ok().map_or(true, |m| {
            use grep_matcher::Matcher;
            m.non_matching_bytes().map_or(true, |s| !s.contains(b'\n'))
        });
    let mut total_matches = 0u64;
    let mut total_lines = 0u64;
    for i in 0..n {
        let name = fname(i);
        let std_lines = std_recs[i].len() as u64;
        let (Some(c), Some(m)) = (num(&cnt_recs[i]), num(&cm_recs[i])) else {
            problems.push((i, format!("{name}: --count / --count-matches (with --include-zero) did not print exactly one number")));
            continue;
        };
        // R0: `--count --only-matching` is `--count-matches`
        match num(&co_recs[i]) {
            Some(x) if x == m => {}
            other => problems.push((i, format!("{name}: --count --only-matching prints {other:?}, --count-matches prints {m} (documented to be the same mode)"))),
        }
        // R1: --count vs printed matching lines (documented: under -U, --count is --count-matches)
        if case.multiline {
            if c != std_lines && c != m {
                problems.push((i, format!("{name}: -U --count={c} equals neither the {std_lines} printed matching lines nor --count-matches={m}")));
            }
        } else if c != std_lines {
            problems.push((i, format!("{name}: --count={c} but standard mode prints {std_lines} matching lines")));
        }
        if !case.multiline && j_lines[i] != std_lines {
            problems.push((i, format!("{name}: JSON reports {} matching lines, standard mode prints {std_lines}", j_lines[i])));
        }
        // R2: --count-matches vs -o records vs JSON submatches
        if case.invert {
            // documented: with --invert-match, --count-matches behaves as --count
            if m != c {
                problems.push((i, format!("{name}: -v --count-matches={m} but -v --count={c}")));
            }
        } else {
            if m != j_sub[i] {
                problems.push((i, format!("{name}: --count-matches={m} but JSON reports {} submatches", j_sub[i])));
            }
            let o = only_recs[i].len() as u64;
            if !effective_ml {
                if m != o {
                    problems.push((i, format!("{name}: --count-matches={m} but -o prints {o} records")));
                }
            } else if !j_seg_ambiguous[i] {
                // the multi-line printer: a record may span several output lines (one per
                // line the match touches), so the lines are compared with the JSON submatches
                if o != j_segs[i] {
                    problems.push((i, format!("{name}: -U -o prints {o} lines, the {} JSON submatches span {} non-empty line pieces", j_sub[i], j_segs[i])));
                } else if j_zero_seg[i] > 0 {
                    zero_seg_notes.push(format!(
                        "{name}: --count-matches={m} and JSON reports {} submatches, but {} of them (empty, or nothing but line terminators) have no -o record at all",
                        j_sub[i], j_zero_seg[i]
                    ));
                }
            }
            // R3: every reported matching line has at least one submatch
            if j_no_sub[i] {
                problems.push((i, format!("{name}: a JSON match message has no submatch")));
            }
        }
        // R4: -l / --files-without-match
        if listed[i] != (c > 0) {
            problems.push((i, format!("{name}: --count={c} but -l {} it", if listed[i] { "lists" } else { "does not list" })));
        }
        if without[i] == listed[i] {
            problems.push((i, format!("{name}: -l and --files-without-match must partition the searched files")));
        }
        total_matches += if case.invert { 0 } else { m };
        total_lines += std_lines;
    }
    let any = std_recs.iter().any(|r| !r.is_empty());
    // R5: -q exit status
    let want = if any { 0 } else { 1 };
    for (name, o) in [("standard", &std_out), ("-q", &quiet), ("--count", &cnt), ("-l", &lst), ("--json", &json)] {
        if o.status != Some(want) {
            problems.push((usize::MAX - 2, format!("{name} exits with {:?}, expected {want} ({} output in standard mode)", o.status, if any { "there is" } else { "no" })));
        }
    }
    // R6: --stats totals equal the sums over files
    if !case.invert {
        if let Some(sm) = stat_line(&stats.stdout, " matches") {
            if sm != total_matches {
                problems.push((usize::MAX - 1, format!("--stats reports {sm} matches, the per-file --count-matches sum is {total_matches}")));
            }
        } else {
            problems.push((usize::MAX, "--stats output has no 'matches' line".into()));
        }
    }
    if !case.multiline {
        if let Some(sl) = stat_line(&stats.stdout, " matched lines") {
            if sl != total_lines {
                problems.push((usize::MAX - 1, format!("--stats reports {sl} matched lines, standard mode prints {total_lines}")));
            }
        }
    }
    if let Some(fc) = stat_line(&stats.stdout, " files contained matches") {
        let l = listed.iter().filter(|x| **x).count() as u64;
        if fc != l {
            problems.push((usize::MAX, format!("--stats reports {fc} files with matches, -l lists {l}")));
        }
    }
    // R6b: the per-search totals do not depend on the reporting mode --stats is combined with
    {
        let l = listed.iter().filter(|x| **x).count() as u64;
        for (name, flags) in [
            ("--stats", vec!["--stats", "-n", "-H", "--no-heading"]),
            ("--stats -c", vec!["--stats", "-c"]),
            ("--stats --count-matches", vec!["--stats", "--count-matches"]),
            ("--stats -l", vec!["--stats", "-l"]),
            ("--stats --files-without-match", vec!["--stats", "--files-without-match"]),
        ] {
            let (_, o) = run(&flags);
            if o.timed_out {
                return Verdict::Reject("timeout (inconclusive)");
            }
            match stat_line(&o.stdout, " files contained matches") {
                Some(fc) if fc == l => {}
                other => problems.push((usize::MAX - 1, format!("{name} reports {other:?} files with matches, -l lists {l}"))),
            }
            match stat_line(&o.stdout, " files searched") {
                Some(fs) if fs == n as u64 => {}
                other => problems.push((usize::MAX, format!("{name} reports {other:?} files searched, the tree has {n}"))),
            }
        }
    }
    if let Some(fs) = stat_line(&stats.stdout, " files searched") {
        if fs != n as u64 {
            problems.push((usize::MAX, format!("--stats reports {fs} files searched, the tree has {n}")));
        }
    }
    if let Some(s) = &j_summary {
        let jm = s["data"]["stats"]["matches"].as_u64();
        if !case.invert && jm != Some(j_sub.iter().sum::<u64>()) {
            problems.push((usize::MAX - 1, format!("JSON summary reports {jm:?} matches, the messages carry {} submatches", j_sub.iter().sum::<u64>())));
        }
    }
    if !problems.is_empty() {
        let all_known = problems.iter().all(|(i, _)| {
            if *i == usize::MAX - 1 {
                // a total: explained if some file has the shape
                trailing_empty.iter().any(|x| *x)
            } else if *i == usize::MAX - 2 {
                // an exit status: under -U the count is the number of
                // (sub)matches, so a file whose only match is the dropped
                // trailing empty match counts as not matching at all
                case.multiline && (0..n).all(|f| std_recs[f].is_empty() || trailing_empty[f])
            } else {
                *i < n && trailing_empty[*i]
            }
        });
        let mut f = describe(problems.iter().map(|(_, m)| m.clone()).collect::<Vec<_>>().join("\n"));
        if all_known && !case.invert {
            f = f.fact("empty-match-at-end-of-unterminated-last-line");
        }
        return Verdict::Fail(f);
    }
    if !zero_seg_notes.is_empty() {
        return Verdict::Fail(describe(zero_seg_notes.join("\n")).fact("multi-line-only-matching-has-no-record-for-an-empty-or-terminator-only-match"));
    }
    let counts: Vec<u64> = (0..n).map(|i| num(&cnt_recs[i]).unwrap_or(0)).collect();
    let mut info = Info::new(counts.iter().any(|c| *c > 0) && counts.iter().any(|c| *c == 0));
    info.class_if(orc.as_ref().map_or(false, |o| o.re.is_match(b"")), "pattern_matches_empty");
    info.class_if(case.files.iter().any(|f| !f.is_empty() && *f.last().unwrap() != b'\n'), "unterminated_last_line");
    info.class_if(case.files.iter().any(|f| f.is_empty()), "empty_file");
    info.class_if(case.invert, "invert");
    info.class_if(case.multiline, "multiline");
    info.class_if(effective_ml && !case.invert, "multi_line_only_matching_compared");
    info.class_if(case.multiline && !effective_ml && !case.invert, "multiline_flag_line_path_only_matching_compared");
    info.class_if(case.max_count.is_some(), "max_count");
    info.class_if(case.crlf, "crlf");
    info.class_if(case.threads > 1, "threads>1");
    info.class_if(trailing_empty.iter().any(|x| *x), "trailing_empty_match_shape_present");
    Verdict::Pass(info)
}

fn b64(s: &str) -> Option<Vec<u8>> {
    let mut out = vec![];
    let mut acc = 0u32;
    let mut bits = 0;
    for c in s.bytes() {
        let v = match c {
            b'A'..=b'Z' => c - b'A',
            b'a'..=b'z' => c - b'a' + 26,
            b'0'..=b'9' => c - b'0' + 52,
            b'+' => 62,
            b'/' => 63,
            b'=' => continue,
            _ => return None,
        } as u32;
        acc = (acc << 6) | v;
        bits += 6;
        if bits >= 8 {
            bits -= 8;
            out.push((acc >> bits) as u8);
            acc &= (1 << bits) - 1;
        }
    }
    Some(out)
}

pub fn decode_b64(s: &str) -> Option<Vec<u8>> {
    b64(s)
}

pub fn run(pc: &PropCtx) {
    pc.rule(
        "generated trees of 1-5 text files (with/without final newline, empty files) and patterns (grammar-generated, plus a third that can match the empty string), flags from -i -w -x -v -U -m N --crlf, -j1/-j4 with --sort path. The same search is run under standard, -c, --count-matches, -o, -l, --files-without-match, -q, --json and --stats and the documented relations between their outputs are checked pairwise per file. Non-trivial = at least one file with count > 0 and one with count 0; distinct by hash",
    );
    pc.assume("documented mode normalisations are part of the relation: -v --count-matches = -v --count; under -U --count may equal --count-matches; -o is not compared under -U or -v");
    pc.set_shrink_iters(150);
    let cases = pc.tier.pick(6_000, 80_000);
    pc.run_tape("modes_agree", cases, (128, 1500), gen_case, check);
    pc.require_class("modes_agree:pattern_matches_empty", cases as u64 / 20);
    let _ = BTreeMap::<u8, u8>::new();
}

pub fn replay(_pc: &PropCtx, _sub: &str, case: &serde_json::Value) -> Result<Verdict, String> {
    let c: Case = serde_json::from_value(case.clone()).map_err(|e| e.to_string())?;
    Ok(check(&c))
}
