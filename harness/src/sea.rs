//! Searcher execution environment: a serializable searcher configuration,
//! the ways bytes can reach the searcher, a recording sink with stop/error
//! injection, and a fragmenting reader with fault injection.

use std::io::{self, Read};

use grep_matcher::{LineTerminator, Matcher};
use grep_searcher::{
    BinaryDetection, Encoding, MmapChoice, Searcher, SearcherBuilder, Sink, SinkContext,
    SinkContextKind, SinkFinish, SinkMatch,
};
use serde::{Deserialize, Serialize};

use crate::bs::Bs;

#[derive(Clone, Copy, Debug, PartialEq, Eq, Hash, Serialize, Deserialize)]
pub enum Term {
    Lf,
    Crlf,
    Nul,
}

impl Term {
    pub fn byte(&self) -> u8 {
        match self {
            Term::Lf | Term::Crlf => b'\n',
            Term::Nul => 0,
        }
    }
    pub fn lt(&self) -> LineTerminator {
        match self {
            Term::Lf => LineTerminator::byte(b'\n'),
            Term::Crlf => LineTerminator::crlf(),
            Term::Nul => LineTerminator::byte(0),
        }
    }
    /// The bytes written after a line's content by the generators.
    pub fn bytes(&self) -> &'static [u8] {
        match self {
            Term::Lf => b"\n",
            Term::Crlf => b"\r\n",
            Term::Nul => b"\0",
        }
    }
}

#[derive(Clone, Copy, Debug, PartialEq, Eq, Hash, Serialize, Deserialize)]
pub enum Bin {
    None,
    Quit(u8),
    Convert(u8),
}

#[derive(Clone, Debug, PartialEq, Eq, Hash, Serialize, Deserialize)]
pub struct SCfg {
    pub term: Term,
    pub invert: bool,
    pub before: usize,
    pub after: usize,
    pub passthru: bool,
    pub line_number: bool,
    pub stop_on_nonmatch: bool,
    pub multi_line: bool,
    pub binary: Bin,
    pub encoding: Option<String>,
    pub bom_sniffing: bool,
    /// An earlier input searched first with the same `Searcher` (same strategy,
    /// results discarded): searchers are reused across files by every caller, and
    /// what one search leaves behind must not leak into the next.
    #[serde(default, skip_serializing_if = "Option::is_none")]
    pub warm: Option<crate::bs::Bs>,
}

impl Default for SCfg {
    fn default() -> SCfg {
        SCfg {
            term: Term::Lf,
            invert: false,
            before: 0,
            after: 0,
            passthru: false,
            line_number: true,
            stop_on_nonmatch: false,
            multi_line: false,
            binary: Bin::None,
            encoding: None,
            bom_sniffing: true,
            warm: None,
        }
    }
}

/// How the bytes reach the searcher.
#[derive(Clone, Debug, PartialEq, Eq, Hash, Serialize, Deserialize)]
pub enum Strat {
    Slice,
    /// `search_reader` with the given read-size schedule (cycled; empty =
    /// "as much as asked") and, via the hook, an initial buffer capacity.
    Reader { chunks: Vec<usize>, capacity: Option<usize> },
    /// `search_reader` with `heap_limit(Some(n))`.
    HeapLimit { chunks: Vec<usize>, limit: usize },
    /// `search_path` on a temp file, mmap disabled.
    PathNoMmap,
    /// `search_path` on a temp file, `MmapChoice::auto()`.
    PathMmap,
    /// `search_path` on a temp file with `heap_limit(Some(n))`, mmap disabled (the file is read
    /// into a bounded heap buffer in multi-line mode).
    PathHeapLimit { limit: usize },
    /// `search_path` on a named pipe fed by a writer thread: a path whose metadata says
    /// "0 bytes" although it yields the whole input (as do /proc files and process substitution).
    PathFifo,
}

impl Strat {
    pub fn label(&self) -> String {
        match self {
            Strat::Slice => "slice".into(),
            Strat::Reader { chunks, capacity } => format!("reader(chunks={chunks:?},cap={capacity:?})"),
            Strat::HeapLimit { chunks, limit } => format!("heap_limit(chunks={chunks:?},limit={limit})"),
            Strat::PathNoMmap => "path(no mmap)".into(),
            Strat::PathMmap => "path(mmap)".into(),
            Strat::PathFifo => "path(named pipe)".into(),
            Strat::PathHeapLimit { limit } => format!("path(no mmap, heap limit {limit})"),
        }
    }
    pub fn is_reader(&self) -> bool {
        matches!(self, Strat::Reader { .. } | Strat::HeapLimit { .. })
    }
}

#[derive(Clone, Copy, Debug, PartialEq, Eq, Hash, Serialize, Deserialize)]
pub enum CtxKind {
    Before,
    After,
    Other,
}

#[derive(Clone, Debug, PartialEq, Eq, Hash, Serialize, Deserialize)]
pub enum Event {
    Begin,
    Match { line: Option<u64>, offset: u64, bytes: Bs },
    Context { kind: CtxKind, line: Option<u64>, offset: u64, bytes: Bs },
    Break,
    Binary { offset: u64 },
    Finish { byte_count: u64, binary_offset: Option<u64> },
}

impl Event {
    pub fn short(&self) -> String {
        match self {
            Event::Begin => "BEGIN".into(),
            Event::Match { line, offset, bytes } => {
                format!("M(line={line:?},off={offset},{:?})", bytes)
            }
            Event::Context { kind, line, offset, bytes } => {
                format!("C{kind:?}(line={line:?},off={offset},{:?})", bytes)
            }
            Event::Break => "BREAK".into(),
            Event::Binary { offset } => format!("BINARY({offset})"),
            Event::Finish { byte_count, binary_offset } => {
                format!("FINISH(bytes={byte_count},bin={binary_offset:?})")
            }
        }
    }
    pub fn kind_name(&self) -> &'static str {
        match self {
            Event::Begin => "begin",
            Event::Match { .. } => "match",
            Event::Context { .. } => "context",
            Event::Break => "break",
            Event::Binary { .. } => "binary",
            Event::Finish { .. } => "finish",
        }
    }
}

pub fn show_events(ev: &[Event]) -> String {
    ev.iter().map(|e| e.short()).collect::<Vec<_>>().join(" ")
}

/// What the sink does at one particular event index.
#[derive(Clone, Copy, Debug, PartialEq, Eq, Hash, Serialize, Deserialize)]
pub enum SinkFault {
    /// Return `Ok(false)` ("stop") at event index k.
    Stop(usize),
    /// Return `Err(..)` at event index k.
    Error(usize),
}

pub const SINK_ERR_MSG: &str = "verif: injected sink error";
pub const READ_ERR_MSG: &str = "verif: injected read error";

/// A sink recording every call, with optional stop/error injection. The
/// event index counts begin, match, context, break and binary calls (finish
/// is recorded but cannot be refused).
pub struct RecSink {
    pub events: Vec<Event>,
    pub fault: Option<SinkFault>,
    /// Calls made after a stop or error was returned (must stay empty apart
    /// from the one permitted `finish` after a stop).
    pub after_fault: Vec<Event>,
    faulted: bool,
    /// Per-match check that `buffer[range] == bytes`.
    pub buffer_mismatch: bool,
}

impl RecSink {
    pub fn new(fault: Option<SinkFault>) -> RecSink {
        RecSink { events: vec![], fault, after_fault: vec![], faulted: false, buffer_mismatch: false }
    }

    fn push(&mut self, ev: Event) -> Result<bool, io::Error> {
        if self.faulted {
            self.after_fault.push(ev);
            return Ok(true);
        }
        let idx = self.events.len();
        self.events.push(ev);
        match self.fault {
            Some(SinkFault::Stop(k)) if k == idx => {
                self.faulted = true;
                Ok(false)
            }
            Some(SinkFault::Error(k)) if k == idx => {
                self.faulted = true;
                Err(io::Error::new(io::ErrorKind::Other, SINK_ERR_MSG))
            }
            _ => Ok(true),
        }
    }
}

impl Sink for &mut RecSink {
    type Error = io::Error;

    fn matched(&mut self, _s: &Searcher, m: &SinkMatch<'_>) -> Result<bool, io::Error> {
        if m.buffer().get(m.bytes_range_in_buffer()) != Some(m.bytes()) {
            self.buffer_mismatch = true;
        }
        self.push(Event::Match {
            line: m.line_number(),
            offset: m.absolute_byte_offset(),
            bytes: Bs(m.bytes().to_vec()),
        })
    }

    fn context(&mut self, _s: &Searcher, c: &SinkContext<'_>) -> Result<bool, io::Error> {
        let kind = match c.kind() {
            SinkContextKind::Before => CtxKind::Before,
            SinkContextKind::After => CtxKind::After,
            SinkContextKind::Other => CtxKind::Other,
        };
        self.push(Event::Context {
            kind,
            line: c.line_number(),
            offset: c.absolute_byte_offset(),
            bytes: Bs(c.bytes().to_vec()),
        })
    }

    fn context_break(&mut self, _s: &Searcher) -> Result<bool, io::Error> {
        self.push(Event::Break)
    }

    fn binary_data(&mut self, _s: &Searcher, offset: u64) -> Result<bool, io::Error> {
        self.push(Event::Binary { offset })
    }

    fn begin(&mut self, _s: &Searcher) -> Result<bool, io::Error> {
        self.push(Event::Begin)
    }

    fn finish(&mut self, _s: &Searcher, f: &SinkFinish) -> Result<(), io::Error> {
        let ev = Event::Finish { byte_count: f.byte_count(), binary_offset: f.binary_byte_offset() };
        // finish is always recorded in `events` (it is the completion signal);
        // a second finish goes to after_fault.
        if self.events.iter().any(|e| matches!(e, Event::Finish { .. })) {
            self.after_fault.push(ev);
        } else {
            self.events.push(ev);
        }
        Ok(())
    }
}

/// What the reader does at one particular read index.
#[derive(Clone, Copy, Debug, PartialEq, Eq, Hash, Serialize, Deserialize)]
pub enum ReadFault {
    Error(usize),
    Interrupted(usize),
}

/// A reader that hands out the input according to a schedule of chunk sizes
/// and can fail at a chosen read index.
pub struct ChunkReader<'a> {
    data: &'a [u8],
    pos: usize,
    chunks: &'a [usize],
    pub reads: usize,
    sched: usize,
    /// Number of reads that returned at least one byte.
    pub data_reads: usize,
    fault: Option<ReadFault>,
    pub fault_fired: bool,
}

impl<'a> ChunkReader<'a> {
    pub fn new(data: &'a [u8], chunks: &'a [usize], fault: Option<ReadFault>) -> ChunkReader<'a> {
        ChunkReader { data, pos: 0, chunks, reads: 0, sched: 0, data_reads: 0, fault, fault_fired: false }
    }
}

impl<'a> Read for ChunkReader<'a> {
    fn read(&mut self, buf: &mut [u8]) -> io::Result<usize> {
        let idx = self.reads;
        self.reads += 1;
        match self.fault {
            Some(ReadFault::Error(j)) if j == idx => {
                self.fault_fired = true;
                return Err(io::Error::new(io::ErrorKind::Other, READ_ERR_MSG));
            }
            Some(ReadFault::Interrupted(j)) if j == idx => {
                self.fault_fired = true;
                return Err(io::Error::new(io::ErrorKind::Interrupted, "verif: interrupted"));
            }
            _ => {}
        }
        let want = if self.chunks.is_empty() {
            buf.len()
        } else {
            // faulted reads do not consume a slot of the schedule, so that a
            // retried read sees the same fragmentation as the undisturbed run
            let slot = self.sched;
            self.sched += 1;
            self.chunks[slot % self.chunks.len()].max(1)
        };
        let n = want.min(buf.len()).min(self.data.len() - self.pos);
        buf[..n].copy_from_slice(&self.data[self.pos..self.pos + n]);
        self.pos += n;
        if n > 0 {
            self.data_reads += 1;
        }
        Ok(n)
    }
}

#[derive(Clone, Debug)]
pub struct RunOut {
    pub events: Vec<Event>,
    pub after_fault: Vec<Event>,
    pub result: Result<(), String>,
    pub reads: usize,
    pub data_reads: usize,
    pub read_fault_fired: bool,
    pub buffer_mismatch: bool,
}

pub fn build_searcher(cfg: &SCfg, strat: &Strat) -> Searcher {
    let mut b = SearcherBuilder::new();
    b.line_terminator(cfg.term.lt())
        .invert_match(cfg.invert)
        .before_context(cfg.before)
        .after_context(cfg.after)
        .passthru(cfg.passthru)
        .line_number(cfg.line_number)
        .stop_on_nonmatch(cfg.stop_on_nonmatch)
        .multi_line(cfg.multi_line)
        .bom_sniffing(cfg.bom_sniffing)
        .binary_detection(match cfg.binary {
            Bin::None => BinaryDetection::none(),
            Bin::Quit(b) => BinaryDetection::quit(b),
            Bin::Convert(b) => BinaryDetection::convert(b),
        });
    if let Some(label) = &cfg.encoding {
        b.encoding(Some(Encoding::new(label).expect("generated encoding label is valid")));
    }
    match strat {
        Strat::Reader { capacity, .. } => {
            b.verif_buffer_capacity(*capacity);
        }
        Strat::HeapLimit { limit, .. } => {
            b.heap_limit(Some(*limit));
        }
        Strat::PathMmap => {
            b.memory_map(unsafe { MmapChoice::auto() });
        }
        Strat::PathNoMmap | Strat::Slice => {
            b.memory_map(MmapChoice::never());
        }
        Strat::PathFifo => {
            b.memory_map(unsafe { MmapChoice::auto() });
        }
        Strat::PathHeapLimit { limit } => {
            b.memory_map(MmapChoice::never());
            b.heap_limit(Some(*limit));
        }
    }
    b.build()
}

thread_local! {
    static TMP_COUNTER: std::cell::Cell<u64> = std::cell::Cell::new(0);
}

/// A unique scratch path under $TMPDIR (default /tmp); removed by the caller.
pub fn scratch_path(tag: &str) -> std::path::PathBuf {
    let base = std::env::var("TMPDIR").unwrap_or_else(|_| "/tmp".to_string());
    let n = TMP_COUNTER.with(|c| {
        let v = c.get();
        c.set(v + 1);
        v
    });
    let tid = format!("{:?}", std::thread::current().id());
    let tid: String = tid.chars().filter(|c| c.is_ascii_digit()).collect();
    std::path::PathBuf::from(base).join(format!("vcheck-{}-{}-{}-{}", std::process::id(), tid, tag, n))
}

/// Run one search and record what the sink saw.
pub fn run<M: Matcher>(
    matcher: M,
    cfg: &SCfg,
    strat: &Strat,
    input: &[u8],
    sink_fault: Option<SinkFault>,
    read_fault: Option<ReadFault>,
) -> RunOut {
    let mut searcher = build_searcher(cfg, strat);
    if let Some(w) = &cfg.warm {
        let _ = run_with(&mut searcher, &matcher, strat, &w.0, None, None);
    }
    run_with(&mut searcher, matcher, strat, input, sink_fault, read_fault)
}

fn search_into<M: Matcher, S: grep_searcher::Sink<Error = io::Error>>(
    searcher: &mut Searcher,
    matcher: M,
    strat: &Strat,
    input: &[u8],
    read_fault: Option<ReadFault>,
    mut sink: S,
) -> (Result<(), io::Error>, usize, usize, bool) {
    let mut reads = 0;
    let mut data_reads = 0;
    let mut fired = false;
    let result = match strat {
        Strat::Slice => searcher.search_slice(&matcher, input, &mut sink),
        Strat::Reader { chunks, .. } | Strat::HeapLimit { chunks, .. } => {
            let mut rdr = ChunkReader::new(input, chunks, read_fault);
            let r = searcher.search_reader(&matcher, &mut rdr, &mut sink);
            reads = rdr.reads;
            data_reads = rdr.data_reads;
            fired = rdr.fault_fired;
            r
        }
        Strat::PathNoMmap | Strat::PathMmap | Strat::PathHeapLimit { .. } => {
            let path = scratch_path("in");
            std::fs::write(&path, input).expect("write scratch input");
            let r = searcher.search_path(&matcher, &path, &mut sink);
            let _ = std::fs::remove_file(&path);
            r
        }
        Strat::PathFifo => {
            use std::os::unix::ffi::OsStrExt;
            use std::os::unix::fs::OpenOptionsExt;
            let path = scratch_path("fifo");
            let c = std::ffi::CString::new(path.as_os_str().as_bytes()).expect("scratch path");
            if unsafe { libc::mkfifo(c.as_ptr(), 0o600) } != 0 {
                return (Err(io::Error::new(io::ErrorKind::Other, "mkfifo failed (harness)")), 0, 0, false);
            }
            let data = input.to_vec();
            let wpath = path.clone();
            let writer = std::thread::spawn(move || {
                // wait (at most 5 s) for the searcher to open the read end; never block for good
                let t0 = std::time::Instant::now();
                let mut f = loop {
                    match std::fs::OpenOptions::new().write(true).custom_flags(libc::O_NONBLOCK).open(&wpath) {
                        Ok(f) => break f,
                        Err(_) if t0.elapsed() < std::time::Duration::from_secs(5) => std::thread::sleep(std::time::Duration::from_millis(1)),
                        Err(_) => return,
                    }
                };
                // back to blocking writes; a reader that went away gives EPIPE (SIGPIPE is ignored)
                unsafe {
                    use std::os::unix::io::AsRawFd;
                    let fl = libc::fcntl(f.as_raw_fd(), libc::F_GETFL);
                    libc::fcntl(f.as_raw_fd(), libc::F_SETFL, fl & !libc::O_NONBLOCK);
                }
                let _ = std::io::Write::write_all(&mut f, &data);
            });
            let r = searcher.search_path(&matcher, &path, &mut sink);
            let _ = std::fs::remove_file(&path);
            let _ = writer.join();
            r
        }
    };
    (result, reads, data_reads, fired)
}

/// As `run`, with a searcher built by `build_searcher(cfg, strat)` that the
/// caller reuses across searches.
pub fn run_with<M: Matcher>(
    searcher: &mut Searcher,
    matcher: M,
    strat: &Strat,
    input: &[u8],
    sink_fault: Option<SinkFault>,
    read_fault: Option<ReadFault>,
) -> RunOut {
    let mut sink = RecSink::new(sink_fault);
    // The searcher accepts a sink by value, by `&mut` and boxed (`impl Sink for Box<S>` forwards
    // every method): a third of the inputs - a fixed function of the input, so that replays agree -
    // go through the boxed forwarding impl.
    let boxed = input.len() % 3 == 1;
    let (result, reads, data_reads, fired) =
        if boxed { search_into(searcher, matcher, strat, input, read_fault, Box::new(&mut sink)) } else { search_into(searcher, matcher, strat, input, read_fault, &mut sink) };
    RunOut {
        events: sink.events,
        after_fault: sink.after_fault,
        result: result.map_err(|e| e.to_string()),
        reads,
        data_reads,
        read_fault_fired: fired,
        buffer_mismatch: sink.buffer_mismatch,
    }
}
