//! Bridge between libFuzzer (thorough tier) and the tape-based generators:
//! the fuzzer's bytes are a choice tape; the same decode + check functions
//! as in the proptest tier run inside the target. A failure that no listed
//! known finding explains is written as a replay file and aborts the process.

use std::sync::OnceLock;

use serde::Serialize;

use crate::runner::{PropCtx, Tier, Verdict};
use crate::tape::{bytes_to_tape, Tape};

type Runner = Box<dyn Fn(&[u32]) -> (Verdict, serde_json::Value) + Send + Sync>;

fn entry<C: Serialize, D: Fn(&mut Tape) -> C + Send + Sync + 'static, K: Fn(&C) -> Verdict + Send + Sync + 'static>(d: D, k: K) -> Runner {
    Box::new(move |tape| {
        let mut t = Tape::new(tape);
        let case = d(&mut t);
        let v = k(&case);
        (v, serde_json::to_value(&case).unwrap_or(serde_json::Value::Null))
    })
}

pub const TARGETS: &[&str] = &[
    "C01:line_match",
    "C02:strategies",
    "C03:random",
    "C11:random_patterns",
    "C12:pairs",
    "C12:sets_random",
    "C13:multi_line",
    "C14:library",
    "C16:line_mode_faults",
    "C16:multi_line_faults",
    "C17:transcode",
];

fn make(target: &str) -> Option<Runner> {
    use crate::props::*;
    Some(match target {
        "C01:line_match" => entry(
            |t| {
                let mut c = c01::gen_case(t);
                c.cli = false; // in-process only
                c
            },
            c01::check,
        ),
        "C02:strategies" => entry(
            |t| {
                let mut c = c02::gen_case(t);
                c.cli = false;
                c.strats.retain(|s| !matches!(s, crate::sea::Strat::PathMmap | crate::sea::Strat::PathNoMmap | crate::sea::Strat::PathFifo | crate::sea::Strat::PathHeapLimit { .. }));
                c
            },
            c02::check,
        ),
        "C03:random" => entry(
            |t| {
                let mut c = c03::gen_case(t);
                if matches!(c.strat, crate::sea::Strat::PathMmap | crate::sea::Strat::PathNoMmap) {
                    c.strat = crate::sea::Strat::Slice;
                }
                c
            },
            c03::check,
        ),
        "C11:random_patterns" => entry(c11::gen_case, c11::check),
        "C12:pairs" => entry(c12::gen_pairs_case, c12::check_pairs),
        "C12:sets_random" => entry(c12::gen_set_case, c12::check),
        "C13:multi_line" => entry(
            |t| {
                let mut c = c13::gen_case(t);
                if matches!(c.strat, crate::sea::Strat::PathMmap | crate::sea::Strat::PathNoMmap) {
                    c.strat = crate::sea::Strat::Slice;
                }
                c
            },
            c13::check,
        ),
        "C14:library" => entry(
            |t| {
                let mut c = c14::gen_lib_case(t);
                if matches!(c.strat, crate::sea::Strat::PathMmap | crate::sea::Strat::PathNoMmap) {
                    c.strat = crate::sea::Strat::Slice;
                }
                c
            },
            c14::check_lib,
        ),
        "C16:line_mode_faults" => entry(
            |t| {
                let mut c = c16::gen_case(t);
                if matches!(c.strat, crate::sea::Strat::PathNoMmap) {
                    c.strat = crate::sea::Strat::Slice;
                }
                c
            },
            c16::check,
        ),
        "C16:multi_line_faults" => entry(
            |t| {
                let mut c = c16::gen_case_ml(t);
                if matches!(c.strat, crate::sea::Strat::PathMmap | crate::sea::Strat::PathNoMmap) {
                    c.strat = crate::sea::Strat::Slice;
                }
                c
            },
            c16::check,
        ),
        "C17:transcode" => entry(
            |t| {
                let mut c = c17::gen_case(t);
                c.cli = false;
                c.strats.retain(|s| !matches!(s, crate::sea::Strat::PathMmap | crate::sea::Strat::PathNoMmap | crate::sea::Strat::PathFifo | crate::sea::Strat::PathHeapLimit { .. }));
                c
            },
            c17::check,
        ),
        _ => return None,
    })
}

struct State {
    target: String,
    property: &'static str,
    sub: String,
    run: Runner,
    pc: PropCtx,
}

static STATE: OnceLock<State> = OnceLock::new();

fn state() -> &'static State {
    STATE.get_or_init(|| {
        let target = std::env::var("VERIF_FUZZ_TARGET").unwrap_or_else(|_| "C01:line_match".to_string());
        let run = make(&target).unwrap_or_else(|| panic!("unknown VERIF_FUZZ_TARGET {target}; known: {TARGETS:?}"));
        let (id, sub) = target.split_once(':').unwrap();
        let prop = crate::props::find(id).expect("property");
        let pc = PropCtx::new(prop.id, prop.level, Tier::Thorough, 0);
        // known panics / aborts should not be reported twice
        State { target: target.clone(), property: prop.id, sub: sub.to_string(), run, pc }
    })
}

/// libFuzzer entry point.
pub fn one_input(data: &[u8]) {
    let st = state();
    let tape = bytes_to_tape(data);
    let (v, case) = (st.run)(&tape);
    if let Verdict::Fail(f) = v {
        if st.pc.match_known(&f).is_some() {
            return; // tolerated: exact known-finding signature
        }
        let dir = std::path::PathBuf::from(crate::runner::verif_root()).join("out").join("replays").join(st.property);
        let _ = std::fs::create_dir_all(&dir);
        let path = dir.join(format!("{}-{}-fuzz-{}.json", st.property, st.sub, std::process::id()));
        let body = serde_json::json!({
            "property": st.property,
            "subcheck": st.sub,
            "case": case,
            "detail": f.detail,
            "found_by": format!("libFuzzer target {}", st.target),
        });
        let _ = std::fs::write(&path, serde_json::to_string_pretty(&body).unwrap());
        eprintln!("FUZZ-FAILURE replay={}", path.display());
        eprintln!("{}", f.detail);
        std::process::abort();
    }
}
