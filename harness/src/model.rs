//! LineModel: the grep reference model. From the input, the terminator, the
//! per-line verdicts and the configuration it computes the ordered list of
//! events a correct searcher must deliver. It shares no code with the
//! searcher (own line splitter, own context arithmetic).

use crate::bs::Bs;
use crate::sea::{CtxKind, Event, SCfg};

#[derive(Clone, Debug, PartialEq, Eq)]
pub struct Line {
    pub start: usize,
    /// End offset including the terminator byte when present.
    pub end: usize,
    pub terminated: bool,
}

/// Split `input` into lines at `term` (the terminator byte belongs to the
/// line it ends). A trailing unterminated non-empty piece is a line.
pub fn split_lines(input: &[u8], term: u8) -> Vec<Line> {
    let mut out = vec![];
    let mut start = 0;
    let mut i = 0;
    while i < input.len() {
        if input[i] == term {
            out.push(Line { start, end: i + 1, terminated: true });
            start = i + 1;
        }
        i += 1;
    }
    if start < input.len() {
        out.push(Line { start, end: input.len(), terminated: false });
    }
    out
}

/// The content of a line with its terminator removed: `\n` (and, in CRLF
/// mode, a `\r` right before it), or the NUL.
pub fn content<'a>(input: &'a [u8], l: &Line, crlf: bool) -> &'a [u8] {
    let mut end = l.end;
    if l.terminated {
        end -= 1;
        if crlf && end > l.start && input[end - 1] == b'\r' {
            end -= 1;
        }
    }
    &input[l.start..end]
}

#[derive(Clone, Debug)]
pub struct Expected {
    /// Begin .. (Break | Match | Context)* .. (Finish is not included)
    pub events: Vec<Event>,
    /// `Some(n)` when the search runs to completion (n = input length);
    /// `None` when stop-on-nonmatch ends it early.
    pub byte_count: Option<u64>,
    /// For every Context event (by index into `events`): which kinds are
    /// acceptable.
    pub ok_kinds: Vec<(usize, Vec<CtxKind>)>,
    /// index of the line at which stop-on-nonmatch ended the search
    pub stopped_at: Option<usize>,
}

/// `success[i]`: line i is to be reported as a match (inversion already
/// applied by the caller). `merge`: consecutive reported lines form one
/// multi-line match event (multi-line, non-inverted mode).
pub fn expected(input: &[u8], cfg: &SCfg, lines: &[Line], success: &[bool], merge: bool) -> Expected {
    assert_eq!(lines.len(), success.len());
    let (before, after) = if cfg.passthru { (0, 0) } else { (cfg.before, cfg.after) };
    // stop-on-nonmatch: the first non-success line after a success line ends
    // the search (it may still be delivered as context).
    let mut n = lines.len();
    let mut stopped_at = None;
    if cfg.stop_on_nonmatch {
        let mut seen = false;
        for i in 0..lines.len() {
            if success[i] {
                seen = true;
            } else if seen {
                n = i + 1;
                stopped_at = Some(i);
                break;
            }
        }
    }
    let success = &success[..n];
    let lines = &lines[..n];
    // context membership
    let mut deliver: Vec<Option<Vec<CtxKind>>> = vec![None; n];
    for j in 0..n {
        if success[j] {
            continue;
        }
        if cfg.passthru {
            deliver[j] = Some(vec![CtxKind::Other]);
            continue;
        }
        let mut kinds = vec![];
        // after: a success line i with i < j <= i + after
        if after > 0 {
            let lo = j.saturating_sub(after);
            if (lo..j).any(|i| success[i]) {
                kinds.push(CtxKind::After);
            }
        }
        // before: a success line i with j < i <= j + before
        if before > 0 {
            let hi = (j + before).min(n - 1);
            if ((j + 1)..=hi).any(|i| success[i]) {
                kinds.push(CtxKind::Before);
            }
        }
        if !kinds.is_empty() {
            deliver[j] = Some(kinds);
        }
    }
    let any_context = before > 0 || after > 0;
    let mut events = vec![Event::Begin];
    let mut ok_kinds = vec![];
    let mut last_delivered: Option<usize> = None;
    let lineno = |i: usize| if cfg.line_number { Some(i as u64 + 1) } else { None };
    let mut i = 0;
    while i < n {
        if success[i] {
            let mut j = i;
            if merge {
                while j + 1 < n && success[j + 1] {
                    j += 1;
                }
            }
            if any_context {
                if let Some(l) = last_delivered {
                    if l + 1 < i {
                        events.push(Event::Break);
                    }
                }
            }
            events.push(Event::Match {
                line: lineno(i),
                offset: lines[i].start as u64,
                bytes: Bs(input[lines[i].start..lines[j].end].to_vec()),
            });
            last_delivered = Some(j);
            i = j + 1;
        } else if let Some(kinds) = &deliver[i] {
            if any_context {
                if let Some(l) = last_delivered {
                    if l + 1 < i {
                        events.push(Event::Break);
                    }
                }
            }
            ok_kinds.push((events.len(), kinds.clone()));
            events.push(Event::Context {
                kind: kinds[0],
                line: lineno(i),
                offset: lines[i].start as u64,
                bytes: Bs(input[lines[i].start..lines[i].end].to_vec()),
            });
            last_delivered = Some(i);
            i += 1;
        } else {
            i += 1;
        }
    }
    Expected {
        events,
        byte_count: if stopped_at.is_none() { Some(input.len() as u64) } else { None },
        ok_kinds,
        stopped_at,
    }
}

/// Compare observed events (without the trailing Finish) with the model.
/// Context kinds are validated against the acceptable set, not compared.
pub fn compare(exp: &Expected, got: &[Event]) -> Result<(), String> {
    let n = exp.events.len().max(got.len());
    for i in 0..n {
        let (e, g) = (exp.events.get(i), got.get(i));
        let same = match (e, g) {
            (Some(Event::Context { line: l1, offset: o1, bytes: b1, .. }), Some(Event::Context { kind, line: l2, offset: o2, bytes: b2 })) => {
                if l1 == l2 && o1 == o2 && b1 == b2 {
                    let ok = exp.ok_kinds.iter().find(|(k, _)| *k == i).map(|(_, v)| v.contains(kind)).unwrap_or(false);
                    if !ok {
                        return Err(format!(
                            "event #{i}: context line delivered with kind {kind:?}, which the window arithmetic does not allow; expected one of {:?}",
                            exp.ok_kinds.iter().find(|(k, _)| *k == i).map(|(_, v)| v.clone())
                        ));
                    }
                    true
                } else {
                    false
                }
            }
            (Some(a), Some(b)) => a == b,
            _ => false,
        };
        if !same {
            return Err(format!(
                "event #{i} differs: expected {} but got {}",
                e.map(|x| x.short()).unwrap_or_else(|| "<nothing>".into()),
                g.map(|x| x.short()).unwrap_or_else(|| "<nothing>".into())
            ));
        }
    }
    Ok(())
}

/// Split an observed event list into (body, finish).
pub fn split_finish(ev: &[Event]) -> (&[Event], Option<&Event>) {
    match ev.last() {
        Some(f @ Event::Finish { .. }) => (&ev[..ev.len() - 1], Some(f)),
        _ => (ev, None),
    }
}
