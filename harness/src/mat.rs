//! Matchers: the real `RegexMatcher` built exactly as ripgrep's
//! `hiargs::matcher_rust` builds it, and two tiny hand-written matchers used
//! where the property is about the searcher, not about regexes.

use grep_matcher::{LineMatchKind, LineTerminator, Match, Matcher, NoCaptures, NoError};
use grep_regex::{RegexMatcher, RegexMatcherBuilder};
use serde::{Deserialize, Serialize};

use crate::sea::Term;

#[derive(Clone, Copy, Debug, PartialEq, Eq, Hash, Serialize, Deserialize)]
pub enum CaseMode {
    Sensitive,
    Insensitive,
    Smart,
}

#[derive(Clone, Debug, PartialEq, Eq, Hash, Serialize, Deserialize)]
pub struct PatCfg {
    pub patterns: Vec<String>,
    pub case: CaseMode,
    pub word: bool,
    pub whole_line: bool,
    pub fixed: bool,
    pub term: Term,
    pub unicode: bool,
    /// `-U`: no line terminator on the matcher.
    pub multiline: bool,
    pub dotall: bool,
    /// `ban_byte(Some(0))`, as the CLI does when binary detection is on.
    pub ban_nul: bool,
}

impl PatCfg {
    pub fn simple(pattern: &str, term: Term) -> PatCfg {
        PatCfg {
            patterns: vec![pattern.to_string()],
            case: CaseMode::Sensitive,
            word: false,
            whole_line: false,
            fixed: false,
            term,
            unicode: true,
            multiline: false,
            dotall: false,
            ban_nul: false,
        }
    }

    /// Mirror of `hiargs::matcher_rust`.
    pub fn builder(&self) -> RegexMatcherBuilder {
        let mut b = RegexMatcherBuilder::new();
        b.multi_line(true).unicode(self.unicode).octal(false).fixed_strings(self.fixed);
        match self.case {
            CaseMode::Sensitive => b.case_insensitive(false),
            CaseMode::Insensitive => b.case_insensitive(true),
            CaseMode::Smart => b.case_smart(true),
        };
        if self.whole_line {
            b.whole_line(true);
        } else if self.word {
            b.word(true);
        }
        let crlf = self.term == Term::Crlf;
        let null_data = self.term == Term::Nul;
        if self.multiline {
            b.dot_matches_new_line(self.dotall);
            if crlf {
                b.crlf(true).line_terminator(None);
            }
        } else {
            b.line_terminator(Some(b'\n')).dot_matches_new_line(false);
            if crlf {
                b.crlf(true);
            }
            if null_data {
                b.line_terminator(Some(0));
            }
        }
        if self.ban_nul {
            b.ban_byte(Some(0));
        }
        b
    }

    pub fn build(&self) -> Result<RegexMatcher, String> {
        self.builder().build_many(&self.patterns).map_err(|e| e.to_string())
    }
}

/// A matcher for "the line contains `x`", with a candidate-line search that
/// has false positives (`y`), so that the searcher's candidate verification
/// path is exercised. `with_term` controls whether the matcher advertises a
/// line terminator (fast path) or not (slow path unless non-matching bytes
/// say otherwise; this matcher declares none).
#[derive(Clone, Debug)]
pub struct XMatcher {
    pub term: Option<LineTerminator>,
    pub candidates: bool,
}

impl Matcher for XMatcher {
    type Captures = NoCaptures;
    type Error = NoError;

    fn find_at(&self, haystack: &[u8], at: usize) -> Result<Option<Match>, NoError> {
        Ok(haystack[at..].iter().position(|&b| b == b'x').map(|i| Match::new(at + i, at + i + 1)))
    }

    fn new_captures(&self) -> Result<NoCaptures, NoError> {
        Ok(NoCaptures::new())
    }

    fn line_terminator(&self) -> Option<LineTerminator> {
        self.term
    }

    fn find_candidate_line(&self, haystack: &[u8]) -> Result<Option<LineMatchKind>, NoError> {
        if self.candidates {
            Ok(haystack.iter().position(|&b| b == b'x' || b == b'y').map(LineMatchKind::Candidate))
        } else {
            Ok(haystack.iter().position(|&b| b == b'x').map(LineMatchKind::Confirmed))
        }
    }
}

#[derive(Clone, Copy, Debug, PartialEq, Eq, Hash, Serialize, Deserialize)]
pub enum XKind {
    /// `RegexMatcher` for the literal `x` with the searcher's terminator.
    Regex,
    /// `XMatcher` advertising the terminator, confirmed hits.
    XConfirmed,
    /// `XMatcher` advertising the terminator, candidate hits with false positives.
    XCandidate,
    /// `XMatcher` without a terminator: slow line path.
    XSlow,
}

pub const XKINDS: [XKind; 4] = [XKind::Regex, XKind::XConfirmed, XKind::XCandidate, XKind::XSlow];

pub enum XAny {
    Regex(RegexMatcher),
    X(XMatcher),
}

pub fn build_x(kind: XKind, term: Term) -> XAny {
    match kind {
        XKind::Regex => XAny::Regex(PatCfg::simple("x", term).build().expect("literal x builds")),
        XKind::XConfirmed => XAny::X(XMatcher { term: Some(term.lt()), candidates: false }),
        XKind::XCandidate => XAny::X(XMatcher { term: Some(term.lt()), candidates: true }),
        XKind::XSlow => XAny::X(XMatcher { term: None, candidates: false }),
    }
}

/// Probe for a crack in the trusted base: regex-automata 0.4.7 sometimes
/// misses (or mis-places) a match depending on the offset a search starts at
/// (e.g. `(?:cbc)*?b` searched from the start of the line `cbccbc` inside a
/// larger haystack skips the match at its second byte, but finds it when the
/// search starts one byte earlier or later). Returns true when the matcher,
/// asked directly, contradicts itself about this line: the line's content
/// matches on its own, yet a search of the whole input starting at the
/// line's first byte finds nothing before the end of the line (or the
/// other way round).
pub fn engine_inconsistent_on_line<M: Matcher>(m: &M, input: &[u8], start: usize, content_end: usize) -> bool {
    let alone = m.is_match(&input[start..content_end]).unwrap_or(false);
    let in_context = match m.find_at(input, start) {
        Ok(Some(mt)) => mt.start() < content_end || (mt.start() == content_end && mt.is_empty()),
        _ => false,
    };
    alone != in_context
}

pub const ENGINE_FACT: &str = "regex-engine-inconsistent-across-start-offsets";

/// The law every leftmost-first search obeys, whatever the pattern: let
/// `r(i)` be the match found when the search of the same haystack starts at
/// offset `i` (look-behind context kept). If `r(i)` is none, so is `r(j)` for
/// every `j > i`; if `r(i)` starts at `s >= j > i`, then `r(j) == r(i)`.
/// Returns true when the given search function breaks the law on a haystack
/// of `len` bytes (checked between adjacent offsets, which suffices).
pub fn offsets_inconsistent(len: usize, find_at: &dyn Fn(usize) -> Option<(usize, usize)>) -> bool {
    if len > 3000 {
        return false;
    }
    let mut prev = find_at(0);
    for j in 1..=len {
        let cur = find_at(j);
        match prev {
            None => {
                if cur.is_some() {
                    return true;
                }
            }
            Some((s, _)) if s >= j => {
                if cur != prev {
                    return true;
                }
            }
            _ => {}
        }
        prev = cur;
    }
    false
}

/// The same HIR compiled twice by regex-automata: with the engine configuration
/// ripgrep uses (crates/regex/src/config.rs `to_regex`: full DFAs up to 1 MB / 1000
/// states, a large lazy-DFA cache, a larger one-pass limit) and with every
/// optimisation switched off (PikeVM only, no prefilter). Whatever the pattern, the
/// two must report the same leftmost-first match from every start offset; where
/// they do not, the regex engine contradicts itself on that haystack, which is a
/// defect below ripgrep (second shape of the trusted-base crack: e.g.
/// `(?:[ac]\p{Greek}[0-9])*c` on "a\u{370}0c" finds nothing under ripgrep's
/// configuration from any offset, 0..5 under the plain one).
pub struct EnginePair {
    tuned: regex_automata::meta::Regex,
    plain: regex_automata::meta::Regex,
}

impl EnginePair {
    pub fn new(hir: &regex_syntax::hir::Hir) -> Option<EnginePair> {
        use regex_automata::meta::Regex;
        let tuned = Regex::builder()
            .configure(
                Regex::config()
                    .utf8_empty(false)
                    .onepass_size_limit(Some(10 * (1 << 20)))
                    .dfa_size_limit(Some(1 << 20))
                    .dfa_state_limit(Some(1_000))
                    .hybrid_cache_capacity(1000 * (1 << 20)),
            )
            .build_from_hir(hir)
            .ok()?;
        let plain = Regex::builder()
            .configure(Regex::config().utf8_empty(false).auto_prefilter(false).dfa(false).hybrid(false).onepass(false).backtrack(false))
            .build_from_hir(hir)
            .ok()?;
        Some(EnginePair { tuned, plain })
    }

    pub fn disagree(&self, hay: &[u8]) -> bool {
        if hay.len() > 3000 {
            return false;
        }
        (0..=hay.len()).any(|i| {
            let f = |re: &regex_automata::meta::Regex| re.find(regex_automata::Input::new(hay).span(i..hay.len())).map(|m| (m.start(), m.end()));
            f(&self.tuned) != f(&self.plain)
        })
    }
}

/// Probe both sides of a disagreement for the trusted-base crack described at
/// `engine_inconsistent_on_line`: `(matcher side, oracle side)`. The matcher is
/// probed on the whole input and on every line's content alone (and alone versus
/// in context), the oracle regex on every line's content and on the whole input.
pub fn engine_probe(m: &RegexMatcher, re: Option<&regex::bytes::Regex>, input: &[u8], term: u8, crlf: bool) -> (bool, bool) {
    let engines = EnginePair::new(m.verif_final_hir());
    let mfind = |hay: &[u8]| {
        let f = |i: usize| m.find_at(hay, i).ok().flatten().map(|x| (x.start(), x.end()));
        offsets_inconsistent(hay.len(), &f)
    };
    let ofind = |hay: &[u8]| match re {
        Some(re) => {
            let f = |i: usize| re.find_at(hay, i).map(|x| (x.start(), x.end()));
            offsets_inconsistent(hay.len(), &f)
        }
        None => false,
    };
    // find versus captures: group 0 of a capture search must be the match a plain search reports
    // (regex-automata 0.4.7 picks different engines for the two and they do not always agree:
    // `((?:(?P<n>c\u{e9}\wcaa)c[ab]\B)*)(b)` on "c\u{e9}0caacbc\u{e9}0caacab" finds 0..19, captures 8..9)
    let mcap = |hay: &[u8]| {
        use grep_matcher::Captures;
        if hay.len() > 3000 {
            return false;
        }
        let Ok(mut caps) = m.new_captures() else { return false };
        (0..=hay.len()).any(|i| {
            let f = m.find_at(hay, i).ok().flatten().map(|x| (x.start(), x.end()));
            let c = match m.captures_at(hay, i, &mut caps) {
                Ok(true) => caps.get(0).map(|x| (x.start(), x.end())),
                _ => None,
            };
            f != c
        })
    };
    let ocap = |hay: &[u8]| match re {
        Some(re) if hay.len() <= 3000 => (0..=hay.len()).any(|i| {
            let f = re.find_at(hay, i).map(|x| (x.start(), x.end()));
            let c = re.captures_at(hay, i).and_then(|c| c.get(0)).map(|x| (x.start(), x.end()));
            f != c
        }),
        _ => false,
    };
    let mut m_bad = mfind(input) || mcap(input) || engines.as_ref().map_or(false, |e| e.disagree(input));
    let mut o_bad = ofind(input) || ocap(input);
    let mut start = 0;
    let mut n = 0;
    while start < input.len() && n < 64 && !(m_bad && o_bad) {
        let end = input[start..].iter().position(|b| *b == term).map_or(input.len(), |p| start + p);
        let mut ce = end;
        if crlf && ce > start && input[ce - 1] == b'\r' {
            ce -= 1;
        }
        let content = &input[start..ce];
        m_bad = m_bad || mfind(content) || engine_inconsistent_on_line(m, input, start, ce) || engines.as_ref().map_or(false, |e| e.disagree(content));
        o_bad = o_bad || ofind(content) || ocap(content);
        m_bad = m_bad || mcap(content);
        start = end + 1;
        n += 1;
    }
    (m_bad, o_bad)
}

/// Post-process a verdict: a failure on an input where the regex engine
/// contradicts itself is attributed to that (known finding when the matcher
/// side is affected, undecidable when only the oracle side is).
pub fn attribute_engine(v: crate::runner::Verdict, m: &RegexMatcher, re: Option<&regex::bytes::Regex>, input: &[u8], term: u8, crlf: bool) -> crate::runner::Verdict {
    use crate::runner::Verdict;
    match v {
        Verdict::Fail(f) if !f.facts.iter().any(|x| x == ENGINE_FACT) => {
            let (m_bad, o_bad) = engine_probe(m, re, input, term, crlf);
            if m_bad {
                Verdict::Fail(f.fact(ENGINE_FACT))
            } else if o_bad {
                Verdict::Reject("the oracle's regex engine contradicts itself across start offsets on this input (undecidable)")
            } else {
                Verdict::Fail(f)
            }
        }
        v => v,
    }
}
