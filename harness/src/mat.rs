//! Matchers: the real `RegexMatcher` built exactly as ripgrep's
//! `hiargs::matcher_rust` builds it, and two tiny hand-written matchers used
//! where the property is about the searcher, not about regexes.

use grep_matcher::{LineMatchKind, LineTerminator, Match, Matcher, NoCaptures, NoError};
use grep_regex::{RegexMatcher, RegexMatcherBuilder};
use serde::{Deserialize, Serialize};

use crate::sea::Term;

#[derive(Clone, Copy, Debug, PartialEq, Eq, Hash, Serialize, Deserialize)]
pub enum CaseMode {
    Sensitive,
    Insensitive,
    Smart,
}

#[derive(Clone, Debug, PartialEq, Eq, Hash, Serialize, Deserialize)]
pub struct PatCfg {
    pub patterns: Vec<String>,
    pub case: CaseMode,
    pub word: bool,
    pub whole_line: bool,
    pub fixed: bool,
    pub term: Term,
    pub unicode: bool,
    /// `-U`: no line terminator on the matcher.
    pub multiline: bool,
    pub dotall: bool,
    /// `ban_byte(Some(0))`, as the CLI does when binary detection is on.
    pub ban_nul: bool,
}

impl PatCfg {
    pub fn simple(pattern: &str, term: Term) -> PatCfg {
        PatCfg {
            patterns: vec![pattern.to_string()],
            case: CaseMode::Sensitive,
            word: false,
            whole_line: false,
            fixed: false,
            term,
            unicode: true,
            multiline: false,
            dotall: false,
            ban_nul: false,
        }
    }

    /// Mirror of `hiargs::matcher_rust`.
    pub fn builder(&self) -> RegexMatcherBuilder {
        let mut b = RegexMatcherBuilder::new();
        b.multi_line(true).unicode(self.unicode).octal(false).fixed_strings(self.fixed);
        match self.case {
            CaseMode::Sensitive => b.case_insensitive(false),
            CaseMode::Insensitive => b.case_insensitive(true),
            CaseMode::Smart => b.case_smart(true),
        };
        if self.whole_line {
            b.whole_line(true);
        } else if self.word {
            b.word(true);
        }
        let crlf = self.term == Term::Crlf;
        let null_data = self.term == Term::Nul;
        if self.multiline {
            b.dot_matches_new_line(self.dotall);
            if crlf {
                b.crlf(true).line_terminator(None);
            }
        } else {
            b.line_terminator(Some(b'\n')).dot_matches_new_line(false);
            if crlf {
                b.crlf(true);
            }
            if null_data {
                b.line_terminator(Some(0));
            }
        }
        if self.ban_nul {
            b.ban_byte(Some(0));
        }
        b
    }

    pub fn build(&self) -> Result<RegexMatcher, String> {
        self.builder().build_many(&self.patterns).map_err(|e| e.to_string())
    }
}

/// A matcher for "the line contains `x`", with a candidate-line search that
/// has false positives (`y`), so that the searcher's candidate verification
/// path is exercised. `with_term` controls whether the matcher advertises a
/// line terminator (fast path) or not (slow path unless non-matching bytes
/// say otherwise; this matcher declares none).
#[derive(Clone, Debug)]
pub struct XMatcher {
    pub term: Option<LineTerminator>,
    pub candidates: bool,
}

impl Matcher for XMatcher {
    type Captures = NoCaptures;
    type Error = NoError;

    fn find_at(&self, haystack: &[u8], at: usize) -> Result<Option<Match>, NoError> {
        Ok(haystack[at..].iter().position(|&b| b == b'x').map(|i| Match::new(at + i, at + i + 1)))
    }

    fn new_captures(&self) -> Result<NoCaptures, NoError> {
        Ok(NoCaptures::new())
    }

    fn line_terminator(&self) -> Option<LineTerminator> {
        self.term
    }

    fn find_candidate_line(&self, haystack: &[u8]) -> Result<Option<LineMatchKind>, NoError> {
        if self.candidates {
            Ok(haystack.iter().position(|&b| b == b'x' || b == b'y').map(LineMatchKind::Candidate))
        } else {
            Ok(haystack.iter().position(|&b| b == b'x').map(LineMatchKind::Confirmed))
        }
    }
}

#[derive(Clone, Copy, Debug, PartialEq, Eq, Hash, Serialize, Deserialize)]
pub enum XKind {
    /// `RegexMatcher` for the literal `x` with the searcher's terminator.
    Regex,
    /// `XMatcher` advertising the terminator, confirmed hits.
    XConfirmed,
    /// `XMatcher` advertising the terminator, candidate hits with false positives.
    XCandidate,
    /// `XMatcher` without a terminator: slow line path.
    XSlow,
}

pub const XKINDS: [XKind; 4] = [XKind::Regex, XKind::XConfirmed, XKind::XCandidate, XKind::XSlow];

pub enum XAny {
    Regex(RegexMatcher),
    X(XMatcher),
}

pub fn build_x(kind: XKind, term: Term) -> XAny {
    match kind {
        XKind::Regex => XAny::Regex(PatCfg::simple("x", term).build().expect("literal x builds")),
        XKind::XConfirmed => XAny::X(XMatcher { term: Some(term.lt()), candidates: false }),
        XKind::XCandidate => XAny::X(XMatcher { term: Some(term.lt()), candidates: true }),
        XKind::XSlow => XAny::X(XMatcher { term: None, candidates: false }),
    }
}
