//! vcheck: entry point of the /verif machinery.
//!
//!   vcheck run <ID> <quick|thorough>
//!   vcheck replay <file.json>
//!   vcheck list

use std::path::Path;

use serde_json::Value;
use vlib::props;
use vlib::runner::{Failure, PropCtx, Tier, Verdict, verif_root};

fn seed() -> u64 {
    std::env::var("VERIF_SEED").ok().and_then(|s| s.trim().parse::<u64>().ok()).unwrap_or(20260927)
}

/// Memory guard: a runaway case (e.g. an exploding regex compilation) must
/// end as "inconclusive", never take the machine down or look like a verdict.
fn memory_guard(limit_kb: u64, property: String) {
    std::thread::spawn(move || loop {
        std::thread::sleep(std::time::Duration::from_millis(500));
        if let Ok(s) = std::fs::read_to_string("/proc/self/status") {
            if let Some(l) = s.lines().find(|l| l.starts_with("VmRSS:")) {
                let kb: u64 = l.split_whitespace().nth(1).and_then(|x| x.parse().ok()).unwrap_or(0);
                if kb > limit_kb {
                    println!("INCONCLUSIVE property={property} memory guard: resident set {kb} kB exceeds {limit_kb} kB");
                    std::process::exit(2);
                }
            }
        }
    });
}

fn watchdog(secs: u64, property: String) {
    std::thread::spawn(move || {
        std::thread::sleep(std::time::Duration::from_secs(secs));
        println!("INCONCLUSIVE property={property} watchdog expired after {secs}s");
        std::process::exit(2);
    });
}

/// Replay the committed regression corpus of a property. Returns false if
/// one of them fails in a way no listed known finding explains.
fn replay_committed(pc: &PropCtx, prop: &props::Prop) {
    // Development aid only (never set by ./check): lets one see whether the generators alone find a change.
    if std::env::var_os("VERIF_SKIP_REPLAYS").is_some() {
        pc.note("VERIF_SKIP_REPLAYS set: committed replays NOT executed".to_string());
        return;
    }
    let dir = Path::new(&verif_root()).join("replays").join(prop.id);
    let Ok(rd) = std::fs::read_dir(&dir) else { return };
    let mut files: Vec<_> = rd.filter_map(|e| e.ok()).map(|e| e.path()).filter(|p| p.extension().map_or(false, |x| x == "json")).collect();
    files.sort();
    let mut n = 0;
    for f in files {
        let Ok(text) = std::fs::read_to_string(&f) else { continue };
        let Ok(v) = serde_json::from_str::<Value>(&text) else {
            pc.inconclusive(format!("replay file {} does not parse", f.display()));
            continue;
        };
        let sub = v["subcheck"].as_str().unwrap_or("");
        match (prop.replay)(pc, sub, &v["case"]) {
            Err(e) => pc.inconclusive(format!("replay file {}: {e}", f.display())),
            Ok(Verdict::Pass(_)) | Ok(Verdict::Reject(_)) => {
                n += 1;
                if v["expect"].as_str().map_or(false, |s| s.starts_with("known")) {
                    pc.note(format!("known finding replay {} no longer fails; the entry can be turned into 'fixed'", f.display()));
                }
            }
            Ok(Verdict::Fail(fl)) => {
                n += 1;
                if let Some(k) = pc.match_known(&fl) {
                    pc.record_known(k);
                } else {
                    pc.record_failure(Failure {
                        subcheck: sub.to_string(),
                        case: v["case"].clone(),
                        detail: format!("committed regression replay {} fails:\n{}", f.display(), fl.detail),
                    });
                }
            }
        }
    }
    pc.note(format!("committed replays executed: {n}"));
    pc.add_evaluations(n);
}

fn main() {
    let args: Vec<String> = std::env::args().collect();
    let code = match args.get(1).map(|s| s.as_str()) {
        Some("list") => {
            for p in props::PROPS {
                println!("{}", p.id);
            }
            0
        }
        Some("run") => {
            let id = args.get(2).expect("property id");
            let tier = match args.get(3).map(|s| s.as_str()) {
                Some("thorough") => Tier::Thorough,
                _ => Tier::Quick,
            };
            let Some(prop) = props::find(id) else {
                eprintln!("unknown property {id}");
                std::process::exit(2);
            };
            watchdog(tier.pick(1500, 6 * 3600), id.clone());
            memory_guard(20 * 1024 * 1024, id.clone());
            let pc = PropCtx::new(prop.id, prop.level, tier, seed());
            replay_committed(&pc, prop);
            if !pc.has_failure() {
                (prop.run)(&pc);
            }
            pc.finish()
        }
        Some("replay") => {
            let file = args.get(2).expect("replay file");
            let text = std::fs::read_to_string(file).expect("read replay file");
            let v: Value = serde_json::from_str(&text).expect("parse replay file");
            let id = v["property"].as_str().expect("property field").to_string();
            let Some(prop) = props::find(&id) else {
                eprintln!("unknown property {id}");
                std::process::exit(2);
            };
            let mut pc = PropCtx::new(prop.id, prop.level, Tier::Quick, seed());
            pc.strict = true;
            let sub = v["subcheck"].as_str().unwrap_or("");
            match (prop.replay)(&pc, sub, &v["case"]) {
                Err(e) => {
                    println!("cannot replay: {e}");
                    2
                }
                Ok(Verdict::Fail(f)) => {
                    println!("{}", f.detail);
                    println!("facts: {:?}", f.facts);
                    println!("VIOLATION property={id} replay={file}");
                    1
                }
                Ok(other) => {
                    println!("replay passes: {other:?}");
                    0
                }
            }
        }
        _ => {
            eprintln!("usage: vcheck run <ID> <quick|thorough> | replay <file> | list");
            2
        }
    };
    std::process::exit(code);
}
